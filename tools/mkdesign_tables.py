#!/usr/bin/env python3
"""Regenerates the machine-written appendices of DESIGN.md (between the BEGIN/END markers):
A. fix: commits in /repo, B. open findings, C. seeded changes and which check caught them, D. theorem counts per property."""
import glob, json, os, re, subprocess

HERE = os.path.dirname(os.path.dirname(os.path.abspath(__file__)))


def sh(c):
    return subprocess.run(c, shell=True, capture_output=True, text=True).stdout


def main():
    out = []
    out.append("### A. `fix:` commits in /repo (each: minimal, unguarded, full test suite 4905 passed)\n")
    out.append("| commit | subject |\n|---|---|")
    for l in sh("git -C /repo log --reverse --format='%h %s' 2912c5e..HEAD").strip().split("\n"):
        if l:
            h, s = l.split(" ", 1)
            out.append(f"| {h} | {s.replace('|', '/')} |")
    kf = open(os.path.join(HERE, "known_findings.txt")).read().split("\n")
    fixed = {}
    opens = {}
    for l in kf:
        m = re.match(r"fixed: property=(\S+) (\S+) (.*)", l)
        if m:
            fixed.setdefault(m.group(1), []).append((m.group(2), m.group(3)))
        m = re.match(r"open: property=(\S+) cell=(\S+) (.*)", l)
        if m:
            opens.setdefault(m.group(1), []).append((m.group(2), m.group(3)))
    out.append("\n### B. Open known findings (genuine defects recorded, not repaired)\n")
    out.append("| property | #open lines | #fixed lines | open findings (first 160 chars each, distinct texts) |\n|---|---|---|---|")
    for p in [f"C{i:02d}" for i in range(1, 21)]:
        txt = []
        for c, t in opens.get(p, []):
            t = re.sub(r"^\[F\d\] ", "", t)[:160].replace("|", "/")
            if t[:60] not in [x[:60] for x in txt]:
                txt.append(t)
        out.append(f"| {p} | {len(opens.get(p, []))} | {len(fixed.get(p, []))} | " + " ;; ".join(txt[:8]) + (" ;; …" if len(txt) > 8 else "") + " |")
    out.append("\n### C. Seeded changes (written by independent agents that saw only the property text) and the check verdict\n")
    out.append("| id | property | summary | needs to manifest | verdict of `./check` (quick) |\n|---|---|---|---|---|")
    for d in sorted(glob.glob(os.path.join(HERE, "seeded", "*"))):
        try:
            m = json.load(open(os.path.join(d, "meta.json")))
        except Exception:
            continue
        v = m.get("verification", {})
        verdicts = []
        for p, c in v.get("checks", {}).items():
            if c["rc"] == 1 and c["violation_lines"]:
                verdicts.append(f"{p}: caught" + (" (no-failing-input-found)" if "no-failing-input-found" in c["violation_lines"][0] else " with failing input"))
            elif c["rc"] == 0:
                verdicts.append(f"{p}: MISSED")
            else:
                verdicts.append(f"{p}: rc={c['rc']}")
        note = m.get("followup", "")
        out.append(f"| {os.path.basename(d)} | {m.get('property')} | {m.get('summary','')[:220].replace('|','/').replace(chr(10),' ')} | {str(m.get('needs_to_manifest',''))[:160].replace('|','/').replace(chr(10),' ')} | {'; '.join(verdicts)} {note} |")
    out.append("\n### D. Obligations per property (from the latest evidence files)\n")
    out.append("| property | theorems audited | discharged | evaluations | distinct non-trivial | wall (s) |\n|---|---|---|---|---|---|")
    for p in [f"C{i:02d}" for i in range(1, 21)]:
        f = os.path.join(HERE, "evidence", f"{p}.json")
        if os.path.exists(f):
            e = json.load(open(f))
            c = e["coverage"]
            out.append(f"| {p} | {c.get('obligations')} | {c.get('discharged')} | {c.get('evaluations')} | {c.get('distinct_nontrivial')} | {e.get('wall_s')} |")
    text = "\n".join(out) + "\n"
    p = os.path.join(HERE, "DESIGN.md")
    s = open(p).read()
    b, e = "<!-- BEGIN GENERATED TABLES -->", "<!-- END GENERATED TABLES -->"
    if b in s:
        s = s[: s.index(b) + len(b)] + "\n" + text + s[s.index(e):]
    else:
        s += f"\n{b}\n{text}{e}\n"
    open(p, "w").write(s)
    print("tables written", len(text))


if __name__ == "__main__":
    main()
