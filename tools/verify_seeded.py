#!/usr/bin/env python3
"""Confirm a seeded change and run the check against it, in a scratch worktree (never in /repo).

usage: tools/verify_seeded.py <src dir with patch.diff demo.py meta.json> <seeded id> [--no-suite] [--props C01,C02]
Copies the three files to /verif/seeded/<id>/ when the change is confirmed
(demo passes on clean tree, fails with the patch, full test suite passes with the patch) and records
in meta.json what was run and whether `./check <pid>` (quick) caught it."""
import json, os, shutil, subprocess, sys, time

VERIF = os.path.dirname(os.path.dirname(os.path.abspath(__file__)))


def sh(cmd, cwd=None, env=None, timeout=3600):
    e = dict(os.environ)
    e.update(env or {})
    r = subprocess.run(cmd, shell=True, cwd=cwd, env=e, capture_output=True, text=True, timeout=timeout)
    return r.returncode, (r.stdout + r.stderr)


def main():
    src, sid = sys.argv[1], sys.argv[2]
    no_suite = "--no-suite" in sys.argv
    meta = json.load(open(os.path.join(src, "meta.json")))
    pid = meta["property"]
    props = [pid]
    for a in sys.argv:
        if a.startswith("--props="):
            props = a.split("=", 1)[1].split(",")
    wt = f"/tmp/vs/{sid}"
    rev = "HEAD"   # which commit of /verif the check is taken from (--rev=<commit>: e.g. while a builder's half-finished work is in HEAD)
    for a in sys.argv:
        if a.startswith("--rev="):
            rev = a.split("=", 1)[1]
    os.makedirs("/tmp/vs", exist_ok=True)
    sh(f"git -C /repo worktree remove --force {wt}")
    rc, out = sh(f"git -C /repo worktree add -q --detach {wt} HEAD")
    assert rc == 0, out
    res = {"verified_at_repo_commit": sh("git -C /repo rev-parse --short HEAD")[1].strip()}
    try:
        env = {"PYTHONPATH": wt, "OMP_NUM_THREADS": "2"}
        demo = os.path.abspath(os.path.join(src, "demo.py"))
        rc0, out0 = sh(f"/venv/bin/python -W ignore {demo}", cwd=wt, env=env, timeout=900)
        res["demo_on_clean"] = rc0
        rc, out = sh(f"git apply {os.path.abspath(os.path.join(src, 'patch.diff'))}", cwd=wt)
        if rc != 0:  # /repo has moved on since the patch was written: fall back to a 3-way merge
            rc, out = sh(f"git apply --3way {os.path.abspath(os.path.join(src, 'patch.diff'))}", cwd=wt)
            res["applied_3way"] = True
        res["patch_applies"] = rc == 0
        if rc != 0:
            res["apply_error"] = out[-300:]
        if res.get("applied_3way"):
            res["rebased_patch"] = sh("git diff HEAD", cwd=wt)[1]
        rc1, out1 = sh(f"/venv/bin/python -W ignore {demo}", cwd=wt, env=env, timeout=900)
        res["demo_with_patch"] = rc1
        res["demo_with_patch_tail"] = out1[-400:]
        if not no_suite:
            t = time.time()
            rcs, outs = sh("/venv/bin/python -m pytest -q -p no:cacheprovider --timeout=900 -n 6 2>&1 | tail -3", cwd=wt, env=env, timeout=3000)
            res["suite_tail"] = outs[-300:]
            res["suite_passes"] = (" failed" not in outs) and (" error" not in outs.lower().replace("errors.py", "")) and ("passed" in outs)
            res["suite_s"] = round(time.time() - t)
        res["checks"] = {}
        # the check runs in a private copy of /verif (incl. the Lean build output) so that the regenerated
        # lean/LinOp/Generated files of the patched tree never disturb /verif itself or a builder working there
        vcopy = f"/tmp/vcopy/{sid}"
        os.makedirs("/tmp/vcopy", exist_ok=True)
        sh(f"rm -rf {vcopy} && mkdir -p {vcopy} && git -C {VERIF} archive {rev} | tar -x -C {vcopy} && rsync -a {VERIF}/lean/.lake {vcopy}/lean/")  # committed /verif (HEAD) + build cache
        for p in props:
            t = time.time()
            rcc, outc = sh(f"./check {p} --tier quick", cwd=vcopy, env={"VERIF_REPO": wt}, timeout=3000)
            vio = [l for l in outc.split("\n") if l.startswith("VIOLATION")]
            res["checks"][p] = {"rc": rcc, "violation_lines": vio[:3], "wall_s": round(time.time() - t),
                                "detail": [l for l in outc.split("\n") if l.startswith("  ")][:4]}
        res["confirmed"] = bool(res["demo_on_clean"] == 0 and res["patch_applies"] and res["demo_with_patch"] != 0
                                and (no_suite or res.get("suite_passes")))
        res["caught"] = any(c["rc"] == 1 and c["violation_lines"] for c in res["checks"].values())
    finally:
        sh(f"git -C /repo worktree remove --force {wt}")
        sh(f"rm -rf /tmp/vcopy/{sid}")
    dst = os.path.join(VERIF, "seeded", sid)
    if res.get("confirmed"):
        os.makedirs(dst, exist_ok=True)
        for f in ("patch.diff", "demo.py"):
            if os.path.abspath(os.path.join(src, f)) != os.path.abspath(os.path.join(dst, f)):
                shutil.copy(os.path.join(src, f), os.path.join(dst, f))
        if res.get("applied_3way"):
            open(os.path.join(dst, "patch.diff"), "w").write(res.pop("rebased_patch", open(os.path.join(src, "patch.diff")).read()))
        old = {}
        try:
            old = json.load(open(os.path.join(dst, "meta.json"))).get("verification", {})
        except Exception:
            pass
        if no_suite and old.get("suite_passes") is not None:  # keep the earlier full-suite verdict
            res["suite_passes"] = old["suite_passes"]
            res["suite_tail"] = old.get("suite_tail")
            res["suite_verified_at_repo_commit"] = old.get("suite_verified_at_repo_commit", old.get("verified_at_repo_commit"))
        meta["verification"] = res
        json.dump(meta, open(os.path.join(dst, "meta.json"), "w"), indent=1)
    print(json.dumps({"id": sid, **{k: res.get(k) for k in ("confirmed", "caught", "demo_on_clean", "demo_with_patch", "suite_passes", "patch_applies")},
                      "checks": {p: (c["rc"], c["violation_lines"][:1]) for p, c in res.get("checks", {}).items()}}))


if __name__ == "__main__":
    main()
