#!/usr/bin/env python3
"""Writes /verif/MANIFEST.json from the table below (kept valid at all times)."""
import json
import os

HERE = os.path.dirname(os.path.dirname(os.path.abspath(__file__)))
ALL = [f"C{i:02d}" for i in range(1, 21)]

CLAIMED = {
    "C17": {
        "text": "Lean 4 theorems over a state-machine model of settings.py (exit_restores_entry_value, no_cross_talk, "
                "dtype_slot_isolated, exception_exit_same, lifo_restores_all: all histories, all nesting depths, arbitrary class "
                "table) plus decide+kernel obligations over the class/composite table regenerated from settings.py on every run; "
                "the hand-written step function is tied to the code by an exact differential correspondence on random event "
                "histories (every class, both composites, pre-constructed / re-used / non-LIFO objects, exceptional exits).",
        "note": "Trusted: Lean kernel, axioms propext/Quot.sound/Classical.choice at most, the ast extractor (cross-checked against "
                "vars(settings) at run time), the Python correspondence harness. Modelled, not verified: Python's with-protocol and "
                "attribute semantics; values are opaque codes.",
        "technique": "Lean 4 proof (invariant over event histories) + generated table obligations + differential correspondence",
        "design_ref": "DESIGN.md §5 C17",
    },
    "C18": {
        "text": "Lean 4 theorems (Mathlib matrices, all sizes / block counts / sample counts): every sampler is a fixed linear map L of "
                "the noise it draws (generic_linear, diag_linear, blockDiag_linear, blockInterleaved_linear, sumBatch_linear, interp_linear) "
                "and L L^T equals the represented covariance given the sub-sampler's root (diag_cov, identity_cov, blockDiag_cov, "
                "blockInterleaved_cov, sumBatch_cov, interp_cov). The layout model is tied to the code by an exact-rational "
                "correspondence on the library's own draws under a patched torch.randn; the property is checked on the implementation by "
                "recovering the sampler's full linear map with one-hot noise and comparing L L^T with the independent dense covariance "
                "(every PSD class, nestings, batches, n in {1,3,4}, both sides of max_cholesky_size, fast root off, CIQ).",
        "note": "Trusted: Lean kernel + propext/Quot.sound/Classical.choice, the Python harness and catalogue (independent dense definitions). "
                "Not modelled: probability (x = L z has covariance L L^T), floating point, the contour-integral sampler (checked numerically "
                "only, tolerance 2e-2), correctness of root_decomposition itself (C06).",
        "technique": "Lean 4 proof (matrix algebra of sampler layouts) + differential correspondence with patched noise",
        "design_ref": "DESIGN.md §5 C18",
    },
}

NOT_YET = "machinery for this property is not built yet in this session (see DESIGN.md §9 staging); no check is claimed"


def main():
    checks = []
    for pid in ALL:
        if pid not in CLAIMED:
            continue
        c = CLAIMED[pid]
        checks.append({
            "property_id": pid,
            "quick_cmd": f"./check {pid} --tier quick",
            "thorough_cmd": f"./check {pid} --tier thorough",
            "evidence_file": f"evidence/{pid}.json",
            "replay_cmd_template": f"./check {pid} --replay {{path}}",
            "engine": "lean4-linop",
            "level_claimed": {"category": "proof", "text": c["text"], "design_ref": c["design_ref"]},
            "level_note": c["note"],
            "technique": c["technique"],
        })
    man = {
        "version": 1,
        "setup_cmd": "./setup.sh",
        "hooks": {
            "guard": "LINEAR_OPERATOR_VERIF",
            "enable": "no hooks are compiled into /repo; checks observe the library through wrappers in the harness process (export LINEAR_OPERATOR_VERIF=1 is set by ./check but nothing in /repo reads it)",
            "baseline_off_cmd": "cd /repo && /venv/bin/python -m pytest -ra -q -p no:cacheprovider --timeout=900 --continue-on-collection-errors",
            "source_commits": [],
            "add_only": True,
        },
        "engines": [{"name": "lean4-linop", "path": "lean/", "serves_properties": sorted(CLAIMED),
                     "kind_free_text": "Lean 4.33 + Mathlib lake project (models, theorems, line-protocol drivers) driven by harness/ (Python: translators, differential correspondence, evidence)"}],
        "checks": checks,
        "notes": "Technique family: machine-checked proof in Lean 4. See DESIGN.md. known_findings.txt lists open/fixed defects.",
        "not_applicable": [{"property_id": p, "reason": NOT_YET} for p in ALL if p not in CLAIMED],
    }
    with open(os.path.join(HERE, "MANIFEST.json"), "w") as fh:
        json.dump(man, fh, indent=1)
    print("claimed", sorted(CLAIMED))


if __name__ == "__main__":
    main()
