#!/usr/bin/env python3
"""Writes /verif/MANIFEST.json from the table below (kept valid at all times)."""
import json
import os

HERE = os.path.dirname(os.path.dirname(os.path.abspath(__file__)))
ALL = [f"C{i:02d}" for i in range(1, 21)]

CLAIMED = {}
_d = os.path.join(HERE, "notes", "manifest")
for _f in sorted(os.listdir(_d)):
    if _f.endswith(".json"):
        CLAIMED[_f[:-5]] = json.load(open(os.path.join(_d, _f)))

NOT_YET = "machinery for this property is not built yet in this session (see DESIGN.md §9 staging); no check is claimed"


def main():
    checks = []
    for pid in ALL:
        if pid not in CLAIMED:
            continue
        c = CLAIMED[pid]
        checks.append({
            "property_id": pid,
            "quick_cmd": f"./check {pid} --tier quick",
            "thorough_cmd": f"./check {pid} --tier thorough",
            "evidence_file": f"evidence/{pid}.json",
            "replay_cmd_template": f"./check {pid} --replay {{path}}",
            "engine": "lean4-linop",
            "level_claimed": {"category": "proof", "text": c["text"], "design_ref": c["design_ref"]},
            "level_note": c["note"],
            "technique": c["technique"],
        })
    man = {
        "version": 1,
        "setup_cmd": "./setup.sh",
        "hooks": {
            "guard": "LINEAR_OPERATOR_VERIF",
            "enable": "no hooks are compiled into /repo; checks observe the library through wrappers in the harness process (export LINEAR_OPERATOR_VERIF=1 is set by ./check but nothing in /repo reads it)",
            "baseline_off_cmd": "cd /repo && /venv/bin/python -m pytest -ra -q -p no:cacheprovider --timeout=900 --continue-on-collection-errors",
            "source_commits": [],
            "add_only": True,
        },
        "engines": [{"name": "lean4-linop", "path": "lean/", "serves_properties": sorted(CLAIMED),
                     "kind_free_text": "Lean 4.33 + Mathlib lake project (models, theorems, line-protocol drivers) driven by harness/ (Python: translators, differential correspondence, evidence)"}],
        "checks": checks,
        "notes": "Technique family: machine-checked proof in Lean 4. See DESIGN.md. known_findings.txt lists open/fixed defects.",
        "not_applicable": [{"property_id": p, "reason": NOT_YET} for p in ALL if p not in CLAIMED],
    }
    with open(os.path.join(HERE, "MANIFEST.json"), "w") as fh:
        json.dump(man, fh, indent=1)
    print("claimed", sorted(CLAIMED))


if __name__ == "__main__":
    main()
