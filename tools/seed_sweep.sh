#!/bin/bash
# usage: tools/seed_sweep.sh <first seed> <last seed> [tier]   — runs every claimed check for each seed, 4 properties in parallel
cd "$(dirname "$0")/.."
first=$1; last=$2; tier=${3:-quick}
./setup.sh > sweep_setup.log 2>&1
run_group() {
  for p in "$@"; do
    for s in $(seq $first $last); do
      out=$(VERIF_SEED=$s ./check $p --tier $tier 2>&1 | grep -v "^KNOWN-FINDING")
      rc=$(echo "$out" | grep -c "^VIOLATION")
      echo "$p seed=$s viol=$rc $(echo "$out" | tail -1 | cut -c1-160)"
      if [ "$rc" != "0" ]; then echo "$out" | grep "violation cell\|broken" | head -5 | cut -c1-400; fi
    done
  done
}
run_group C01 C05 C09 C13 C17 > sweep_a.log 2>&1 &
run_group C02 C06 C10 C14 C18 > sweep_b.log 2>&1 &
run_group C03 C07 C11 C15 C19 > sweep_c.log 2>&1 &
run_group C04 C08 C12 C16 C20 > sweep_d.log 2>&1 &
wait
cat sweep_a.log sweep_b.log sweep_c.log sweep_d.log | grep -v "viol=0" || true
echo SWEEP-DONE
