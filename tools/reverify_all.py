#!/usr/bin/env python3
"""Re-run every confirmed seeded change under /verif/seeded against /repo's CURRENT HEAD and the current checks.

usage: tools/reverify_all.py [--jobs N] [--only C01,C02] [--suite]
For each seeded/<id>: scratch worktree of /repo HEAD (under /tmp/vs, removed afterwards), demo on the clean tree, apply
patch.diff, demo with the patch, (optionally the full test suite), then `./check <prop> --tier quick` with VERIF_REPO set
for the seeded change's own property and for every other property whose check was recorded as catching it.
Jobs that run the SAME property's check are serialised (a check regenerates lean/LinOp/Generated/Cxx*.lean);
different properties run in parallel.  Updates seeded/<id>/meta.json["verification"]; never touches /repo's working tree."""
import glob, json, os, subprocess, sys, threading, time
from concurrent.futures import ThreadPoolExecutor

VERIF = os.path.dirname(os.path.dirname(os.path.abspath(__file__)))


def sh(cmd, cwd=None, env=None, timeout=3600):
    e = dict(os.environ)
    e.update(env or {})
    try:
        r = subprocess.run(cmd, shell=True, cwd=cwd, env=e, capture_output=True, text=True, timeout=timeout)
        return r.returncode, (r.stdout + r.stderr)
    except subprocess.TimeoutExpired:
        return 124, "timeout"


def main():
    jobs = 6
    only = None
    suite = "--suite" in sys.argv
    for i, a in enumerate(sys.argv):
        if a == "--jobs":
            jobs = int(sys.argv[i + 1])
        if a == "--only":
            only = sys.argv[i + 1].split(",")
    head = sh("git -C /repo rev-parse --short HEAD")[1].strip()
    os.makedirs("/tmp/vs", exist_ok=True)
    muts = {}
    for d in sorted(glob.glob(os.path.join(VERIF, "seeded", "*"))):
        sid = os.path.basename(d)
        try:
            meta = json.load(open(os.path.join(d, "meta.json")))
        except Exception:
            continue
        if only and meta["property"] not in only and sid not in only:
            continue
        old = meta.get("verification", {})
        props = [meta["property"]] + [p for p, c in old.get("checks", {}).items()
                                      if p != meta["property"] and c.get("rc") == 1 and c.get("violation_lines")]
        muts[sid] = {"dir": d, "meta": meta, "props": props, "res": {"verified_at_repo_commit": head, "checks": {}}}
    locks = {f"C{i:02d}": threading.Lock() for i in range(1, 21)}
    gitlock = threading.Lock()

    def prepare(sid):
        m = muts[sid]
        wt = f"/tmp/vs/{sid}"
        with gitlock:
            sh(f"git -C /repo worktree remove --force {wt}")
            rc, out = sh(f"git -C /repo worktree add -q --detach {wt} HEAD")
        if rc != 0:
            m["res"]["error"] = out[-300:]
            return
        env = {"PYTHONPATH": wt, "OMP_NUM_THREADS": "2"}
        demo = os.path.join(m["dir"], "demo.py")
        r = m["res"]
        r["demo_on_clean"] = sh(f"/venv/bin/python -W ignore {demo}", cwd=wt, env=env, timeout=900)[0]
        rc, out = sh(f"git apply {os.path.join(m['dir'], 'patch.diff')}", cwd=wt)
        if rc != 0:
            rc, out = sh(f"git apply --3way {os.path.join(m['dir'], 'patch.diff')}", cwd=wt)
            r["applied_3way"] = True
        r["patch_applies"] = rc == 0
        if rc != 0:
            r["apply_error"] = out[-300:]
            return
        rc1, out1 = sh(f"/venv/bin/python -W ignore {demo}", cwd=wt, env=env, timeout=900)
        r["demo_with_patch"] = rc1
        r["demo_with_patch_tail"] = out1[-400:]
        if suite:
            rcs, outs = sh("/venv/bin/python -m pytest -q -p no:cacheprovider --timeout=900 -n 4 2>&1 | tail -3", cwd=wt, env=env, timeout=3000)
            r["suite_tail"] = outs[-300:]
            r["suite_passes"] = (" failed" not in outs) and (" error" not in outs.lower().replace("errors.py", "")) and ("passed" in outs)
            r["suite_verified_at_repo_commit"] = head

    def runcheck(job):
        sid, p = job
        m = muts[sid]
        wt = f"/tmp/vs/{sid}"
        if not m["res"].get("patch_applies"):
            return
        with locks[p]:
            t = time.time()
            # private copy of /verif per property (keeps /verif's Generated files and build output untouched)
            vcopy = f"/tmp/vcopy/rv_{p}"
            os.makedirs("/tmp/vcopy", exist_ok=True)
            sh(f"rm -rf {vcopy} && mkdir -p {vcopy} && git -C {VERIF} archive HEAD | tar -x -C {vcopy} && rsync -a {VERIF}/lean/.lake {vcopy}/lean/")  # committed /verif (HEAD) + build cache
            rcc, outc = sh(f"./check {p} --tier quick", cwd=vcopy, env={"VERIF_REPO": wt}, timeout=3000)
            vio = [l for l in outc.split("\n") if l.startswith("VIOLATION")]
            m["res"]["checks"][p] = {"rc": rcc, "violation_lines": vio[:3], "wall_s": round(time.time() - t),
                                     "detail": [l for l in outc.split("\n") if l.startswith("  ")][:4]}
        print(sid, p, rcc, vio[:1], flush=True)

    with ThreadPoolExecutor(jobs) as ex:
        list(ex.map(prepare, list(muts)))
    joblist = [(sid, p) for sid, m in muts.items() for p in m["props"]]
    # order so that different properties interleave
    joblist.sort(key=lambda j: (int(j[0].split("_")[1]) if j[0].split("_")[1].isdigit() else 0, j[1]))
    with ThreadPoolExecutor(jobs) as ex:
        list(ex.map(runcheck, joblist))
    for sid, m in muts.items():
        with gitlock:
            sh(f"git -C /repo worktree remove --force /tmp/vs/{sid}")
        r = m["res"]
        old = m["meta"].get("verification", {})
        if not suite:
            for k in ("suite_passes", "suite_tail", "suite_verified_at_repo_commit"):
                if k in old:
                    r[k] = old[k]
            r.setdefault("suite_verified_at_repo_commit", old.get("verified_at_repo_commit"))
        r["confirmed"] = bool(r.get("demo_on_clean") == 0 and r.get("patch_applies") and r.get("demo_with_patch", 0) != 0
                              and r.get("suite_passes") is not False)
        r["caught"] = any(c["rc"] == 1 and c["violation_lines"] for c in r["checks"].values())
        m["meta"]["verification"] = r
        json.dump(m["meta"], open(os.path.join(m["dir"], "meta.json"), "w"), indent=1)
    sh("git -C /repo worktree prune")
    sh("rm -rf /tmp/vcopy/rv_*")
    bad = [(sid, m["res"].get("confirmed"), m["res"].get("caught")) for sid, m in muts.items()
           if not (m["res"].get("confirmed") and m["res"].get("caught"))]
    print("NOT confirmed-and-caught:", bad)


if __name__ == "__main__":
    main()
