#!/bin/bash
# Development aid (not a check): which lines of /repo/linear_operator do the quick tiers of all checks execute?
# usage: tools/coverage_all.sh   -> notes/coverage_quick.txt (line coverage of the library under all 20 quick checks, combined)
cd "$(dirname "$0")/.."
d=$(mktemp -d)
run_group() { for p in "$@"; do VERIF_COVERAGE=$d/.coverage.$p ./check $p --tier quick --timeout 6000 > $d/$p.log 2>&1; echo "$p rc=$?"; done; }
run_group C01 C04 C07 C13 C17 C20 C09 &
run_group C02 C05 C10 C14 C18 C08 &
run_group C03 C06 C12 C16 C19 C11 &
run_group C15 &
wait
COVERAGE_FILE=$d/.coverage.all /venv/bin/python -m coverage combine $d/.coverage.C* > /dev/null
COVERAGE_FILE=$d/.coverage.all /venv/bin/python -m coverage report -m --sort=miss | grep -v "/test/" > notes/coverage_quick.txt
rm -rf $d
tail -3 notes/coverage_quick.txt
