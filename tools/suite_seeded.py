#!/usr/bin/env python3
"""Run /repo's full test suite with each given seeded patch applied (scratch worktree of /repo HEAD) and record the verdict in
seeded/<id>/meta.json["verification"] (suite_passes, suite_tail, suite_verified_at_repo_commit).
usage: tools/suite_seeded.py <id> [<id> ...] | --missing   (ids whose meta has no suite verdict yet)"""
import glob, json, os, subprocess, sys
VERIF = os.path.dirname(os.path.dirname(os.path.abspath(__file__)))

def sh(cmd, cwd=None, env=None, timeout=3600):
    e = dict(os.environ); e.update(env or {})
    r = subprocess.run(cmd, shell=True, cwd=cwd, env=e, capture_output=True, text=True, timeout=timeout)
    return r.returncode, r.stdout + r.stderr

ids = sys.argv[1:]
if ids == ["--missing"]:
    ids = []
    for d in sorted(glob.glob(os.path.join(VERIF, "seeded", "*"))):
        m = json.load(open(os.path.join(d, "meta.json")))
        if m.get("verification", {}).get("suite_passes") is None:
            ids.append(os.path.basename(d))
head = sh("git -C /repo rev-parse --short HEAD")[1].strip()
for sid in ids:
    d = os.path.join(VERIF, "seeded", sid)
    wt = f"/tmp/vs/suite_{sid}"
    os.makedirs("/tmp/vs", exist_ok=True)
    sh(f"git -C /repo worktree remove --force {wt}")
    sh(f"git -C /repo worktree add -q --detach {wt} HEAD")
    try:
        rc, out = sh(f"git apply {d}/patch.diff || git apply --3way {d}/patch.diff", cwd=wt)
        if rc != 0:
            print(sid, "patch does not apply", out[-200:]); continue
        env = {"PYTHONPATH": wt, "OMP_NUM_THREADS": "2", "MKL_NUM_THREADS": "2"}
        rcs, outs = sh("/venv/bin/python -m pytest -q -p no:cacheprovider --timeout=900 -n 6 2>&1 | tail -3", cwd=wt, env=env, timeout=3000)
        ok = (" failed" not in outs) and (" error" not in outs.lower().replace("errors.py", "")) and ("passed" in outs)
        m = json.load(open(os.path.join(d, "meta.json")))
        v = m.setdefault("verification", {})
        v["suite_passes"] = ok; v["suite_tail"] = outs[-300:]; v["suite_verified_at_repo_commit"] = head
        v["confirmed"] = bool(v.get("demo_on_clean") == 0 and v.get("patch_applies") and v.get("demo_with_patch", 0) != 0 and ok)
        json.dump(m, open(os.path.join(d, "meta.json"), "w"), indent=1)
        print(sid, "suite_passes", ok, outs.strip().split("\n")[-1][:100], flush=True)
    finally:
        sh(f"git -C /repo worktree remove --force {wt}")
