#!/usr/bin/env python3
"""Prepare a seeded-change round: scratch worktree + prompt file per property.
usage: tools/mut_round.py <round-first-index k0> <pid> [<pid> ...]   -> /tmp/wt5/<pid> and /tmp/wt5/<pid>.prompt"""
import glob, json, os, subprocess, sys
k0 = int(sys.argv[1])
for pid in sys.argv[2:]:
    wt = f"/tmp/wt5/{pid}"
    os.makedirs("/tmp/wt5", exist_ok=True)
    subprocess.run(f"git -C /repo worktree remove --force {wt}", shell=True, capture_output=True)
    subprocess.run(f"git -C /repo worktree add -q --detach {wt} HEAD", shell=True, check=True)
    avoid = []
    for d in sorted(glob.glob(f"/verif/seeded/{pid}_*")):
        try:
            m = json.load(open(d + "/meta.json"))
            avoid.append("(" + m["summary"][:170].replace("\n", " ") + "…)")
        except Exception:
            pass
    out = subprocess.run([sys.executable, "/verif/tools/mut_prompt2.py", pid, wt, " ".join(avoid), str(k0)],
                         capture_output=True, text=True).stdout
    open(f"/tmp/wt5/{pid}.prompt", "w").write(out)
    print(pid, len(out))
