#!/usr/bin/env python3
"""Print the prompt for a seeded-change agent: property text only, nothing from /verif."""
import json, sys
pid = sys.argv[1]
wt = sys.argv[2]
avoid = sys.argv[3] if len(sys.argv) > 3 else ""
k0 = int(sys.argv[4]) if len(sys.argv) > 4 else 1
for l in open('/verif/properties.jsonl'):
    p = json.loads(l)
    if p['id'] == pid:
        break
print(f"""You are helping to evaluate a verification effort by playing the adversary. The Python library cornellius-gp/linear_operator (PyTorch structured linear operators for Gaussian processes) is checked out in your own scratch git worktree at {wt} (run it with `cd {wt} && PYTHONPATH={wt} /venv/bin/python ...`; ALWAYS set PYTHONPATH={wt} so that `import linear_operator` resolves to your worktree and not to the installed copy — verify once with `python -c "import linear_operator; print(linear_operator.__file__)"`). Work ONLY inside {wt}; do not read or touch /repo, /verif or any other directory.

The library is supposed to satisfy this semantic property:

TITLE: {p['title']}

STATEMENT: {p['statement']}

QUANTIFIED OVER: {p['quantifier']['text']}

WHY THE EXISTING TESTS CANNOT SETTLE IT: {p['why_tests_cant']}

RELEVANT CODE: {json.dumps(p['anchors'].get('files', []))}

{("Changes of the following kinds were already produced by others for this property - produce DIFFERENT ones (different code sites and different failure mechanisms): " + avoid) if avoid else ""}

Your task: produce TWO independent, realistic changes ("seeded defects") to the library source under {wt}/linear_operator, each of which
  (1) BREAKS the property above (for some input / history / configuration),
  (2) still imports fine and PASSES the library's existing test suite unchanged (`cd {wt} && PYTHONPATH={wt} /venv/bin/python -m pytest -q -p no:cacheprovider -x -n 4 test/ linear_operator/test 2>&1 | tail -5`; the full suite takes a few minutes — run the most relevant test files first while iterating, and the full suite once per final change),
  (3) looks like a plausible slip or "optimisation" a developer could make (an off-by-one in index arithmetic, a swapped transpose or operand order, a dropped mask / clone / negation, a changed threshold, a cache key that forgets an argument, a shortcut taken under the wrong condition, a wrong dtype, two sites that each look fine alone ...), not sabotage that ordinary use exposes at once,
  (4) needs something SPECIFIC to manifest: an unusual shape or batch/broadcast combination, a particular class nesting, a particular setting, a multi-step sequence of calls, a rarely used argument — the two changes should be of different kinds and in different places.
For each change k in {{{k0}, {k0+1}}} write into {wt}/OUT/{pid}_k/ :
  - patch.diff : `git diff` of the change alone against the worktree's HEAD (make change 1, save its diff, `git checkout -- .`, then make change 2, save, checkout) — it must apply with `git apply` to a clean checkout;
  - demo.py : a small self-contained program (uses only torch + linear_operator, deterministic, runs in seconds) that exits 0 on the ORIGINAL code and exits non-zero (assertion failure with a clear message) WITH the change, demonstrating the property violation against a dense torch computation or an obviously-correct reference;
  - meta.json : {{"property": "{pid}", "summary": "...", "needs_to_manifest": "...", "files_changed": [...], "tests_run": "command and result"}}.
Verify all of (1)-(4) yourself before finishing: demo passes on clean tree, fails with the patch; full test suite passes with the patch. Leave the worktree clean (`git checkout -- .`) apart from OUT/. In your final message list the two changes in one paragraph each.""")
