import argparse
import importlib
import json
import os
import signal
import sys

from .common import Check, VERIF


def main():
    ap = argparse.ArgumentParser()
    ap.add_argument("pid")
    ap.add_argument("--tier", default=os.environ.get("VERIF_TIER", "quick"))
    ap.add_argument("--replay", default=None)
    ap.add_argument("--timeout", type=int, default=None)
    a = ap.parse_args()
    if a.tier not in ("quick", "thorough"):
        a.tier = "quick"
    seed = int(os.environ.get("VERIF_SEED", "0") or 0)
    os.chdir(VERIF)
    os.environ.setdefault("LINEAR_OPERATOR_VERIF", "1")
    limit = a.timeout or (1500 if a.tier == "quick" else 6 * 3600)

    def on_alarm(*_):
        print(f"{a.pid}: timeout after {limit}s", flush=True)
        os._exit(2)

    signal.signal(signal.SIGALRM, on_alarm)
    signal.alarm(limit)
    cov = None
    if os.environ.get("VERIF_COVERAGE"):  # development aid: which lines of the library does this check execute?
        import coverage
        from .common import REPO
        cov = coverage.Coverage(data_file=os.environ["VERIF_COVERAGE"], source=[os.path.join(REPO, "linear_operator")])
        cov.start()
    chk = Check(a.pid, a.tier, seed, replay=a.replay)
    mod = importlib.import_module(f"harness.checks.{a.pid.lower()}")
    try:
        if a.replay:
            payload = json.load(open(a.replay))
            mod.replay(chk, payload)
        else:
            mod.run(chk)
    except Exception as e:  # a crash of the harness is a broken correspondence, never a silent pass or a bare traceback
        import traceback
        tb = traceback.format_exc()
        sys.stderr.write(tb)
        chk.proof_break(f"harness({a.pid})", f"check crashed: {type(e).__name__}: {e} :: {tb[-600:]}")
    rc = chk.finish()
    if cov is not None:
        cov.stop()
        cov.save()
    sys.stdout.flush()
    os._exit(rc)


if __name__ == "__main__":
    main()
