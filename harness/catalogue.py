"""Shared catalogue of operator instances with an INDEPENDENT dense definition.

Every entry builds (a) the operator through the library's constructors and (b) the dense (batched)
matrix that the constructor arguments denote under the documented meaning of the structure,
computed with plain torch from the definitions (never through the library).  Data are
integer-valued so that ring expressions are exact in float32/float64.

    insts = instances(rng, dtype=torch.float64, batch=(2,), n=3)          # general operators
    insts = instances(rng, ..., psd=True)                                 # PSD / PD only
    for it in insts:  op = it.build(); it.dense; it.name; it.tensors(); it.square; it.psd

`it.build()` constructs a FRESH operator from clones of the defining tensors each time it is
called (`it.last_tensors` are the tensors handed to the constructors in the latest build).
"""
import itertools

import torch


def ri(rng, shape, lo=-3, hi=3, dtype=torch.float64, nonzero=False):
    shape = tuple(shape)
    n = 1
    for s in shape:
        n *= s
    vals = []
    for _ in range(n):
        v = rng.randint(lo, hi)
        while nonzero and v == 0:
            v = rng.randint(lo, hi)
        vals.append(v)
    return torch.tensor(vals, dtype=dtype).reshape(shape)


def psd_int(rng, batch, n, dtype, rank=None, shift=None, min_gap=0.05):
    """R Rᵀ + c I with integer R (n×rank) — PD when c > 0.  Regenerated until every batch member has
    well separated eigenvalues (relative gap ≥ min_gap), so that Lanczos / CG based paths are robust."""
    rank = n if rank is None else rank
    for _ in range(200):
        r = ri(rng, (*batch, n, rank), -2, 2, dtype)
        c = rng.randint(1, 3) if shift is None else shift
        a = r @ r.mT + c * torch.eye(n, dtype=dtype)
        if n == 1 or not min_gap:
            return a
        ev = torch.linalg.eigvalsh(a.double())
        gap = (ev[..., 1:] - ev[..., :-1]).min() / ev.max()
        if float(gap) >= min_gap:
            return a
    return a


def toeplitz_col(rng, shape, dtype, min_gap=0.05):
    """First column of a diagonally dominant (PD) symmetric Toeplitz matrix whose eigenvalues are well separated
    in every batch member (c*I and other degenerate spectra break single-vector Lanczos)."""
    n = shape[-1]
    for _ in range(200):
        col = ri(rng, shape, 0, 2, dtype)
        col[..., 0] = col[..., 0] + 2 * n
        if n == 1 or not min_gap:
            return col
        idx = (torch.arange(n).unsqueeze(0) - torch.arange(n).unsqueeze(1)).abs()
        ev = torch.linalg.eigvalsh(col[..., idx].double())
        if float((ev[..., 1:] - ev[..., :-1]).min() / ev.max()) >= min_gap:
            return col
    return col


def kron(a, b):
    """Batched Kronecker product from the definition (A⊗B)[i*p+k, j*q+l] = A[i,j] B[k,l]."""
    res = a.unsqueeze(-1).unsqueeze(-3) * b.unsqueeze(-2).unsqueeze(-4)
    return res.reshape(*res.shape[:-4], a.shape[-2] * b.shape[-2], a.shape[-1] * b.shape[-1])


def toeplitz_dense(col):
    n = col.shape[-1]
    idx = (torch.arange(n).unsqueeze(0) - torch.arange(n).unsqueeze(1)).abs()
    return col[..., idx]


def block_diag_dense(blocks):
    """blocks: (*batch, k, m, n) -> (*batch, k*m, k*n)."""
    *b, k, m, n = blocks.shape
    res = torch.zeros(*b, k * m, k * n, dtype=blocks.dtype)
    for i in range(k):
        res[..., i * m:(i + 1) * m, i * n:(i + 1) * n] = blocks[..., i, :, :]
    return res


def block_interleaved_dense(blocks):
    """entry [i*k + b, j*k + b] = blocks[b, i, j]."""
    *b, k, m, n = blocks.shape
    res = torch.zeros(*b, k * m, k * n, dtype=blocks.dtype)
    for blk in range(k):
        for i in range(m):
            for j in range(n):
                res[..., i * k + blk, j * k + blk] = blocks[..., blk, i, j]
    return res


def interp_matrix(idx, val, n_base):
    """W[..., r, idx[r,k]] += val[r,k]."""
    *b, r, k = idx.shape
    w = torch.zeros(*b, r, n_base, dtype=val.dtype)
    w.scatter_add_(-1, idx, val)
    return w


def perm_matrix(perm, dtype):
    n = perm.shape[-1]
    return torch.nn.functional.one_hot(perm, n).to(dtype)  # P[i, perm[i]] = 1  =>  (P x)[i] = x[perm[i]]


def transpose_perm_matrix(m, dtype):
    """K with K vec_r(X) = vec_r(Xᵀ) for m×m X (row-major flatten)."""
    k = torch.zeros(m * m, m * m, dtype=dtype)
    for i in range(m):
        for j in range(m):
            k[i * m + j, j * m + i] = 1
    return k


def poly_kernel(x1, x2, **params):
    """Polynomial test kernel (exact on integers): (x1 x2ᵀ + c)."""
    c = params.get("c", None)
    res = x1 @ x2.mT
    if c is not None:
        res = res + c.unsqueeze(-1).unsqueeze(-1) if torch.is_tensor(c) and c.dim() > 0 else res + c
    return res


class Inst:
    def __init__(self, name, make, psd=False, tags=()):
        """`make(clone)` -> (op, dense, tensors): `clone` is applied to every defining tensor."""
        self.name = name
        self._make = make
        self.psd = psd
        self.tags = set(tags)
        if "toeplitz" in name.lower():
            self.tags.add("fft")  # Toeplitz products go through an FFT: compare with a tolerance
        self.exact = "fft" not in self.tags
        self.last_tensors = []
        op, dense, _ = self._make(lambda t: t.clone())
        self.dense = dense
        self.shape = tuple(dense.shape)
        self.square = dense.shape[-1] == dense.shape[-2]

    def build(self, clone=None):
        clone = clone or (lambda t: t.clone())
        op, dense, tensors = self._make(clone)
        self.last_tensors = tensors
        return op

    def tensors(self):
        return self.last_tensors


def instances(rng, dtype=torch.float64, batch=(), n=3, psd=False, depth=1, classes=None, extra=False):
    """Representative instances of every operator class (and, with depth=2, nestings).
    `batch` is the operator's batch shape, `n` the basic size (some classes use n, 2n, n*n...)."""
    import linear_operator.operators as O
    from linear_operator.operators import (
        AddedDiagLinearOperator, BatchRepeatLinearOperator, BlockDiagLinearOperator, BlockInterleavedLinearOperator,
        CatLinearOperator, CholLinearOperator, ConstantDiagLinearOperator, ConstantMulLinearOperator,
        DenseLinearOperator, DiagLinearOperator, IdentityLinearOperator, InterpolatedLinearOperator,
        KernelLinearOperator, KroneckerProductAddedDiagLinearOperator, KroneckerProductDiagLinearOperator,
        KroneckerProductLinearOperator, KroneckerProductTriangularLinearOperator, LowRankRootAddedDiagLinearOperator,
        LowRankRootLinearOperator, MaskedLinearOperator, MatmulLinearOperator, MulLinearOperator,
        PermutationLinearOperator, PsdSumLinearOperator, RootLinearOperator, SumBatchLinearOperator,
        SumKroneckerLinearOperator, SumLinearOperator, ToeplitzLinearOperator, TransposePermutationLinearOperator,
        TriangularLinearOperator, ZeroLinearOperator,
    )
    batch = tuple(batch)
    out = []
    eye = lambda k: torch.eye(k, dtype=dtype)

    def add(name, make, psd_=False, tags=()):
        if classes is not None and name.split("(")[0].split("[")[0] not in classes and name not in classes:
            return
        if psd and not psd_:
            return
        out.append(Inst(name, make, psd=psd_, tags=tags))

    # ---- leaves -------------------------------------------------------------------------
    A = ri(rng, (*batch, n, n), dtype=dtype)
    Apsd = psd_int(rng, batch, n, dtype)
    add("Dense", lambda c, A=A: (lambda t: (DenseLinearOperator(t), A, [t]))(c(A)))
    add("Dense[psd]", lambda c, A=Apsd: (lambda t: (DenseLinearOperator(t), A, [t]))(c(A)), True)
    if not psd:
        R = ri(rng, (*batch, n, n + 1), dtype=dtype)
        add("Dense[rect]", lambda c, R=R: (lambda t: (DenseLinearOperator(t), R, [t]))(c(R)), tags=("rect",))
    d = ri(rng, (*batch, n), 1, 4, dtype)
    add("Diag", lambda c, d=d: (lambda t: (DiagLinearOperator(t), torch.diag_embed(d), [t]))(c(d)), True)
    if not psd:
        dn = ri(rng, (*batch, n), -3, 3, dtype)
        add("Diag[signed]", lambda c, d=dn: (lambda t: (DiagLinearOperator(t), torch.diag_embed(d), [t]))(c(d)))
    cv = ri(rng, (*batch, 1), 1, 4, dtype)
    add("ConstantDiag", lambda c, cv=cv: (lambda t: (ConstantDiagLinearOperator(t, diag_shape=n),
                                                     cv.unsqueeze(-1) * eye(n), [t]))(c(cv)), True)
    add("Identity", lambda c: (IdentityLinearOperator(n, batch_shape=torch.Size(batch), dtype=dtype),
                               eye(n).expand(*batch, n, n).clone(), []), True)
    if not psd:
        add("Zero", lambda c: (ZeroLinearOperator(*batch, n, n, dtype=dtype), torch.zeros(*batch, n, n, dtype=dtype), []))
    col = toeplitz_col(rng, (*batch, n), dtype)  # diagonally dominant => PD, separated spectrum
    add("Toeplitz", lambda c, col=col: (lambda t: (ToeplitzLinearOperator(t), toeplitz_dense(col), [t]))(c(col)), True)
    L = torch.tril(ri(rng, (*batch, n, n), -2, 2, dtype)) * (1 - eye(n)) + torch.diag_embed(ri(rng, (*batch, n), 1, 3, dtype))
    if not psd:
        add("Triangular[lower]", lambda c, L=L: (lambda t: (TriangularLinearOperator(t), L, [t]))(c(L)))
        U = L.mT.clone()
        add("Triangular[upper]", lambda c, U=U: (lambda t: (TriangularLinearOperator(t, upper=True), U, [t]))(c(U)))
    add("Chol[lower]", lambda c, L=L: (lambda t: (CholLinearOperator(TriangularLinearOperator(t)), L @ L.mT, [t]))(c(L)), True)
    Rr = ri(rng, (*batch, n, 2), dtype=dtype)
    add("Root", lambda c, R=Rr: (lambda t: (RootLinearOperator(t), R @ R.mT, [t]))(c(Rr)), False, tags=("psd-singular",))
    add("LowRankRoot", lambda c, R=Rr: (lambda t: (LowRankRootLinearOperator(t), R @ R.mT, [t]))(c(Rr)), False, tags=("psd-singular",))

    # ---- Kronecker family -----------------------------------------------------------------
    K1, K2 = psd_int(rng, batch, 2, dtype), psd_int(rng, batch, n, dtype)
    add("Kronecker", lambda c, a=K1, b=K2: (lambda s, t: (KroneckerProductLinearOperator(s, t), kron(a, b), [s, t]))(c(a), c(b)), True)
    if not psd:
        G1, G2, G3 = ri(rng, (*batch, 2, 3), dtype=dtype), ri(rng, (*batch, n, 2), dtype=dtype), ri(rng, (*batch, 2, 2), dtype=dtype)
        add("Kronecker[rect3]", lambda c, a=G1, b=G2, e=G3: (lambda s, t, u: (KroneckerProductLinearOperator(s, t, u), kron(kron(a, b), e), [s, t, u]))(c(a), c(b), c(e)), tags=("rect",))
    d1, d2 = ri(rng, (*batch, 2), 1, 3, dtype), ri(rng, (*batch, n), 1, 3, dtype)
    add("KroneckerDiag", lambda c, a=d1, b=d2: (lambda s, t: (KroneckerProductDiagLinearOperator(DiagLinearOperator(s), DiagLinearOperator(t)),
                                                               kron(torch.diag_embed(a), torch.diag_embed(b)), [s, t]))(c(a), c(b)), True)
    if not psd:
        L2 = torch.tril(ri(rng, (*batch, 2, 2), 1, 3, dtype))
        add("KroneckerTriangular", lambda c, a=L2, b=L: (lambda s, t: (KroneckerProductTriangularLinearOperator(TriangularLinearOperator(s), TriangularLinearOperator(t)),
                                                                       kron(a, b), [s, t]))(c(a), c(b)))
    dk = ri(rng, (*batch, 2 * n), 1, 3, dtype)
    add("KroneckerAddedDiag[diag]", lambda c, a=K1, b=K2, e=dk: (lambda s, t, u: (KroneckerProductAddedDiagLinearOperator(KroneckerProductLinearOperator(s, t), DiagLinearOperator(u)),
                                                                                  kron(a, b) + torch.diag_embed(e), [s, t, u]))(c(a), c(b), c(e)), True)
    add("KroneckerAddedDiag[const]", lambda c, a=K1, b=K2, e=cv: (lambda s, t, u: (KroneckerProductAddedDiagLinearOperator(KroneckerProductLinearOperator(s, t), ConstantDiagLinearOperator(u, diag_shape=2 * n)),
                                                                                   kron(a, b) + e.unsqueeze(-1) * eye(2 * n), [s, t, u]))(c(a), c(b), c(e)), True)
    K3, K4 = psd_int(rng, batch, 2, dtype), psd_int(rng, batch, n, dtype)
    add("SumKronecker", lambda c, a=K1, b=K2, e=K3, f=K4: (lambda s, t, u, v: (SumKroneckerLinearOperator(KroneckerProductLinearOperator(s, t), KroneckerProductLinearOperator(u, v)),
                                                                              kron(a, b) + kron(e, f), [s, t, u, v]))(c(a), c(b), c(e), c(f)), True)

    # ---- sums / products ------------------------------------------------------------------
    add("AddedDiag", lambda c, a=Apsd, e=d: (lambda s, t: (AddedDiagLinearOperator(DenseLinearOperator(s), DiagLinearOperator(t)), a + torch.diag_embed(e), [s, t]))(c(a), c(e)), True)
    add("LowRankRootAddedDiag", lambda c, r=Rr, e=d: (lambda s, t: (LowRankRootAddedDiagLinearOperator(LowRankRootLinearOperator(s), DiagLinearOperator(t)), r @ r.mT + torch.diag_embed(e), [s, t]))(c(r), c(e)), True)
    B = ri(rng, (*batch, n, n), dtype=dtype)
    add("Sum", lambda c, a=A, b=B: (lambda s, t: (SumLinearOperator(DenseLinearOperator(s), DenseLinearOperator(t)), a + b, [s, t]))(c(a), c(b)))
    Bpsd = psd_int(rng, batch, n, dtype)
    add("PsdSum", lambda c, a=Apsd, b=Bpsd: (lambda s, t: (PsdSumLinearOperator(DenseLinearOperator(s), DenseLinearOperator(t)), a + b, [s, t]))(c(a), c(b)), True)
    add("Sum[toeplitz+diag]", lambda c, a=col, e=d: (lambda s, t: (SumLinearOperator(ToeplitzLinearOperator(s), DiagLinearOperator(t)), toeplitz_dense(a) + torch.diag_embed(e), [s, t]))(c(a), c(e)), True)
    if not psd:
        M1, M2 = ri(rng, (*batch, n, 2), dtype=dtype), ri(rng, (*batch, 2, n + 1), dtype=dtype)
        add("Matmul", lambda c, a=M1, b=M2: (lambda s, t: (MatmulLinearOperator(DenseLinearOperator(s), DenseLinearOperator(t)), a @ b, [s, t]))(c(a), c(b)), tags=("rect",))
    R1, R2 = ri(rng, (*batch, n, 2), -2, 2, dtype), ri(rng, (*batch, n, 2), -2, 2, dtype)
    add("Mul", lambda c, a=R1, b=R2: (lambda s, t: (MulLinearOperator(RootLinearOperator(s), RootLinearOperator(t)), (a @ a.mT) * (b @ b.mT), [s, t]))(c(a), c(b)), False, tags=("psd-singular",))
    kc = ri(rng, batch, 2, 3, dtype)
    add("ConstantMul", lambda c, a=Apsd, k=kc: (lambda s, t: (ConstantMulLinearOperator(DenseLinearOperator(s), t), a * k.unsqueeze(-1).unsqueeze(-1), [s, t]))(c(a), c(k)), True)
    if not psd:
        kn = ri(rng, batch, -3, -1, dtype)
        add("ConstantMul[neg](Toeplitz)", lambda c, a=A, k=kn: (lambda s, t: (ConstantMulLinearOperator(ToeplitzLinearOperator(s[..., 0, :]), t), toeplitz_dense(a[..., 0, :]) * k.unsqueeze(-1).unsqueeze(-1), [s, t]))(c(a), c(k)))

    # ---- block / batch structure ----------------------------------------------------------
    Bl = psd_int(rng, (*batch, 2), n, dtype)
    add("BlockDiag", lambda c, a=Bl: (lambda t: (BlockDiagLinearOperator(DenseLinearOperator(t)), block_diag_dense(a), [t]))(c(a)), True)
    add("BlockInterleaved", lambda c, a=Bl: (lambda t: (BlockInterleavedLinearOperator(DenseLinearOperator(t)), block_interleaved_dense(a), [t]))(c(a)), True)
    add("SumBatch", lambda c, a=Bl: (lambda t: (SumBatchLinearOperator(DenseLinearOperator(t)), a.sum(-3), [t]))(c(a)), True)
    colb = toeplitz_col(rng, (*batch, 2, n), dtype)
    add("BlockDiag(Toeplitz)", lambda c, a=colb: (lambda t: (BlockDiagLinearOperator(ToeplitzLinearOperator(t)), block_diag_dense(toeplitz_dense(a)), [t]))(c(a)), True)
    rep = (2,) if not batch else (2,) + (1,) * len(batch)
    add("BatchRepeat", lambda c, a=Apsd: (lambda t: (BatchRepeatLinearOperator(DenseLinearOperator(t), batch_repeat=torch.Size(rep)),
                                                    a.repeat(*rep, 1, 1), [t]))(c(a)), True)
    if not psd:
        C1, C2 = ri(rng, (*batch, 2, n), dtype=dtype), ri(rng, (*batch, n, n), dtype=dtype)
        add("Cat[rows]", lambda c, a=C1, b=C2: (lambda s, t: (CatLinearOperator(DenseLinearOperator(s), DenseLinearOperator(t), dim=-2), torch.cat([a, b], -2), [s, t]))(c(a), c(b)), tags=("rect",))
        add("Cat[cols]", lambda c, a=C1, b=C2: (lambda s, t: (CatLinearOperator(DenseLinearOperator(s.mT), DenseLinearOperator(t), dim=-1), torch.cat([a.mT, b], -1), [s, t]))(c(a), c(b)), tags=("rect",))
        if batch:
            add("Cat[batch]", lambda c, a=A, b=B: (lambda s, t: (CatLinearOperator(DenseLinearOperator(s), DenseLinearOperator(t), dim=0), torch.cat([a, b], 0), [s, t]))(c(a), c(b)))

    # ---- interpolation / masking / permutation / kernels -----------------------------------
    nb = n + 1
    base = psd_int(rng, batch, nb, dtype)
    li = torch.tensor([[rng.randrange(nb) for _ in range(2)] for _ in range(n)]).expand(*batch, n, 2).contiguous()
    lv = ri(rng, (*batch, n, 2), 1, 2, dtype)
    add("Interpolated[sym]", lambda c, a=base, i=li, v=lv: (lambda s, t: (InterpolatedLinearOperator(DenseLinearOperator(s), i.clone(), t, i.clone(), t.clone()),
                                                                        interp_matrix(i, v, nb) @ a @ interp_matrix(i, v, nb).mT, [s, t]))(c(a), c(v)), False, tags=("psd-singular",))
    if not psd:
        rix = torch.tensor([[rng.randrange(nb) for _ in range(2)] for _ in range(n + 1)]).expand(*batch, n + 1, 2).contiguous()
        rv = ri(rng, (*batch, n + 1, 2), -2, 2, dtype)
        G = ri(rng, (*batch, nb, nb), dtype=dtype)
        add("Interpolated", lambda c, a=G, i=li, v=lv, j=rix, w=rv: (lambda s, t, u: (InterpolatedLinearOperator(DenseLinearOperator(s), i.clone(), t, j.clone(), u),
                                                                                  interp_matrix(i, v, nb) @ a @ interp_matrix(j, w, nb).mT, [s, t, u]))(c(a), c(v), c(w)), tags=("rect",))
        rm = torch.tensor([True] + [rng.random() < 0.5 for _ in range(nb - 1)])
        cm = torch.tensor([rng.random() < 0.5 for _ in range(nb - 1)] + [True])
        add("Masked", lambda c, a=G, r=rm, q=cm: (lambda s: (MaskedLinearOperator(DenseLinearOperator(s), r.clone(), q.clone()), a[..., r, :][..., :, q], [s]))(c(a)), tags=("rect",))
        perm = torch.stack([torch.tensor(rng.sample(range(n), n)) for _ in range(max(1, int(torch.Size(batch).numel())))]).reshape(*batch, n)
        add("Permutation", lambda c, p=perm: (PermutationLinearOperator(p.clone()), perm_matrix(p, torch.float32), []), tags=("f32only",))
        add("TransposePermutation", lambda c: (TransposePermutationLinearOperator(2), transpose_perm_matrix(2, torch.float32), []), tags=("f32only", "nobatch"))
    X = ri(rng, (*batch, n, 2), -2, 2, dtype)
    add("Kernel[sym]", lambda c, x=X: (lambda t: (KernelLinearOperator(t, t, poly_kernel), x @ x.mT, [t]))(c(x)), False, tags=("psd-singular",))
    if not psd:
        X2 = ri(rng, (*batch, n + 1, 2), -2, 2, dtype)
        cc = ri(rng, batch, 1, 3, dtype)
        add("Kernel", lambda c, x=X, y=X2, k=cc: (lambda s, t, u: (KernelLinearOperator(s, t, poly_kernel, c=u, num_nonbatch_dimensions={"c": 0}),
                                                                   x @ y.mT + k.unsqueeze(-1).unsqueeze(-1), [s, t, u]))(c(x), c(y), c(k)), tags=("rect",))

    # ---- nestings (depth 2) ------------------------------------------------------------------
    if depth >= 2:
        add("Sum(Kronecker,Diag)", lambda c, a=K1, b=K2, e=dk: (lambda s, t, u: (SumLinearOperator(KroneckerProductLinearOperator(s, t), DenseLinearOperator(torch.diag_embed(u))),
                                                                              kron(a, b) + torch.diag_embed(e), [s, t, u]))(c(a), c(b), c(e)), True)
        add("ConstantMul(Kronecker)", lambda c, a=K1, b=K2, k=kc: (lambda s, t, u: (ConstantMulLinearOperator(KroneckerProductLinearOperator(s, t), u),
                                                                                 kron(a, b) * k.unsqueeze(-1).unsqueeze(-1), [s, t, u]))(c(a), c(b), c(k)), True)
        add("Kronecker(Toeplitz,Diag)", lambda c, a=col, e=d1: (lambda s, t: (KroneckerProductLinearOperator(ToeplitzLinearOperator(s), DiagLinearOperator(t)),
                                                                            kron(toeplitz_dense(a), torch.diag_embed(e)), [s, t]))(c(a), c(e)), True)
        add("BlockInterleaved(Toeplitz)", lambda c, a=colb: (lambda t: (BlockInterleavedLinearOperator(ToeplitzLinearOperator(t)), block_interleaved_dense(toeplitz_dense(a)), [t]))(c(a)), True)
        add("SumBatch(Kronecker)", lambda c, a=psd_int(rng, (*batch, 2), 2, dtype), b=psd_int(rng, (*batch, 2), n, dtype): (lambda s, t: (SumBatchLinearOperator(KroneckerProductLinearOperator(s, t)), kron(a, b).sum(-3), [s, t]))(c(a), c(b)), True)
        add("BatchRepeat(Toeplitz)", lambda c, a=col: (lambda t: (BatchRepeatLinearOperator(ToeplitzLinearOperator(t), batch_repeat=torch.Size(rep)), toeplitz_dense(a).repeat(*rep, 1, 1), [t]))(c(a)), True)
        add("AddedDiag(Toeplitz,ConstantDiag)", lambda c, a=col, e=cv: (lambda s, t: (AddedDiagLinearOperator(ToeplitzLinearOperator(s), ConstantDiagLinearOperator(t, diag_shape=n)),
                                                                                    toeplitz_dense(a) + e.unsqueeze(-1) * eye(n), [s, t]))(c(a), c(e)), True)
        add("Interpolated(Toeplitz)", lambda c, a=ri(rng, (*batch, nb), 0, 1, dtype), i=li, v=lv: (lambda s, t: (InterpolatedLinearOperator(ToeplitzLinearOperator(s + 0), i.clone(), t, i.clone(), t.clone()),
                                                                                                          interp_matrix(i, v, nb) @ toeplitz_dense(a) @ interp_matrix(i, v, nb).mT, [s, t]))(c(a), c(v)), False)
        if not psd:
            add("Matmul(Diag,Toeplitz)", lambda c, e=dn, a=col: (lambda s, t: (MatmulLinearOperator(DiagLinearOperator(s), ToeplitzLinearOperator(t)), torch.diag_embed(e) @ toeplitz_dense(a), [s, t]))(c(e), c(a)))
            add("Cat[rows](Diag,Toeplitz)", lambda c, e=dn, a=col: (lambda s, t: (CatLinearOperator(DiagLinearOperator(s), ToeplitzLinearOperator(t), dim=-2), torch.cat([torch.diag_embed(e), toeplitz_dense(a)], -2), [s, t]))(c(e), c(a)), tags=("rect",))
            add("Masked(Kronecker)", lambda c, a=K1, b=K2, r=torch.tensor([True, False] * n), q=torch.tensor([True] * n + [False, True] * (n // 2) + [True] * (n % 2)):
                (lambda s, t: (MaskedLinearOperator(KroneckerProductLinearOperator(s, t), r.clone(), q.clone()), kron(a, b)[..., r, :][..., :, q], [s, t]))(c(a), c(b)), tags=("rect",))
            add("ConstantMul(Sum)", lambda c, a=A, b=B, k=kn: (lambda s, t, u: (ConstantMulLinearOperator(SumLinearOperator(DenseLinearOperator(s), DenseLinearOperator(t)), u), (a + b) * k.unsqueeze(-1).unsqueeze(-1), [s, t, u]))(c(a), c(b), c(k)))
    # ---- extra variants (opt-in: `extra=True`; includes instances that hit known defects, tagged "defect:<id>") ----
    if extra and not psd:
        Uu = L.mT.clone()
        add("Chol[upper]", lambda c, U=Uu: (lambda t: (CholLinearOperator(TriangularLinearOperator(t, upper=True), upper=True), U.mT @ U, [t]))(c(U)))
        mkU = lambda t: CholLinearOperator(TriangularLinearOperator(t, upper=True), upper=True)
        KU = ri(rng, (*batch, 2, 2), dtype=dtype)
        add("Kronecker(Chol[upper],Dense)", lambda c, U=Uu, k=KU: (lambda s, t: (KroneckerProductLinearOperator(mkU(s), DenseLinearOperator(t)), kron(U.mT @ U, k), [s, t]))(c(U), c(k)))
        add("Kronecker(Dense,Chol[upper])", lambda c, U=Uu, k=KU: (lambda s, t: (KroneckerProductLinearOperator(DenseLinearOperator(t), mkU(s)), kron(k, U.mT @ U), [s, t]))(c(U), c(k)))
        add("Sum(Chol[upper],Dense)", lambda c, U=Uu, a=A: (lambda s, t: (SumLinearOperator(mkU(s), DenseLinearOperator(t)), U.mT @ U + a, [s, t]))(c(U), c(a)))
        add("BatchRepeat(Chol[upper])", lambda c, U=Uu: (lambda s: (BatchRepeatLinearOperator(mkU(s), batch_repeat=torch.Size(rep)), (U.mT @ U).repeat(*rep, 1, 1), [s]))(c(U)))
        Ub = torch.triu(ri(rng, (*batch, 2, n, n), -2, 2, dtype))
        add("BlockDiag(Chol[upper])", lambda c, U=Ub: (lambda s: (BlockDiagLinearOperator(mkU(s)), block_diag_dense(U.mT @ U), [s]))(c(U)))
        add("BlockInterleaved(Chol[upper])", lambda c, U=Ub: (lambda s: (BlockInterleavedLinearOperator(mkU(s)), block_interleaved_dense(U.mT @ U), [s]))(c(U)))
        UM = _user_minimal_class()
        add("UserMinimal", lambda c, A=A: (lambda t: (UM(t), A, [t]))(c(A)))
        Rw = ri(rng, (*batch, n, n + 2), dtype=dtype)
        add("UserMinimal[wide]", lambda c, R=Rw: (lambda t: (UM(t), R, [t]))(c(R)), tags=("rect",))
        add("UserMinimal[tall]", lambda c, R=Rw: (lambda t: (UM(t.mT), R.mT, [t]))(c(R)), tags=("rect",))
        from linear_operator.operators import KeOpsLinearOperator
        Xk, Yk = ri(rng, (*batch, n, 2), -2, 2, dtype), ri(rng, (*batch, n + 1, 2), -2, 2, dtype)
        add("KeOps", lambda c, x=Xk, y=Yk: (lambda s, t: (KeOpsLinearOperator(s, t, poly_kernel), x @ y.mT, [s, t]))(c(x), c(y)), tags=("rect",))
        add("KeOps[params]", lambda c, x=Xk, y=Yk: (lambda s, t: (KeOpsLinearOperator(s, t, poly_kernel, c=2.0), x @ y.mT + 2.0, [s, t]))(c(x), c(y)), tags=("rect",))
        C3a, C3b, C3c = ri(rng, (*batch, 1, n), dtype=dtype), ri(rng, (*batch, n, n), dtype=dtype), ri(rng, (*batch, 2, n), dtype=dtype)
        add("Cat[rows3]", lambda c, a=C3a, b=C3b, e=C3c: (lambda s, t, u: (CatLinearOperator(DenseLinearOperator(s), DenseLinearOperator(t), DenseLinearOperator(u), dim=-2),
                                                                      torch.cat([a, b, e], -2), [s, t, u]))(c(a), c(b), c(e)), tags=("rect",))
        add("Cat[cols3]", lambda c, a=C3a, b=C3b, e=C3c: (lambda s, t, u: (CatLinearOperator(DenseLinearOperator(s.mT), DenseLinearOperator(t.mT), DenseLinearOperator(u.mT), dim=-1),
                                                                      torch.cat([a.mT, b.mT, e.mT], -1), [s, t, u]))(c(a), c(b), c(e)), tags=("rect",))
        Q1, Q2, Q3 = ri(rng, (*batch, 1, 1), 1, 3, dtype), ri(rng, (*batch, n, 2), dtype=dtype), ri(rng, (*batch, 1, 2), dtype=dtype)
        add("Kronecker[1x1,rect,row]", lambda c, a=Q1, b=Q2, e=Q3: (lambda s, t, u: (KroneckerProductLinearOperator(s, t, u), kron(kron(a, b), e), [s, t, u]))(c(a), c(b), c(e)), tags=("rect",))
        S1, S2, S3 = ri(rng, (*batch, 2, 2), dtype=dtype), ri(rng, (*batch, n, n), dtype=dtype), ri(rng, (*batch, 2, 2), dtype=dtype)
        add("Kronecker[sq3]", lambda c, a=S1, b=S2, e=S3: (lambda s, t, u: (KroneckerProductLinearOperator(s, t, u), kron(kron(a, b), e), [s, t, u]))(c(a), c(b), c(e)))
        Br = ri(rng, (*batch, 3, n, n + 1), dtype=dtype)
        add("BlockDiag[k3]", lambda c, a=Br[..., :n].clone(): (lambda t: (BlockDiagLinearOperator(DenseLinearOperator(t)), block_diag_dense(a), [t]))(c(a)))
        add("BlockInterleaved[rect,k3]", lambda c, a=Br: (lambda t: (BlockInterleavedLinearOperator(DenseLinearOperator(t)), block_interleaved_dense(a), [t]))(c(a)), tags=("rect",))
        add("SumBatch[rect,k3]", lambda c, a=Br: (lambda t: (SumBatchLinearOperator(DenseLinearOperator(t)), a.sum(-3), [t]))(c(a)), tags=("rect",))
        add("BlockDiag[k1]", lambda c, a=Br[..., :1, :, :n].clone(): (lambda t: (BlockDiagLinearOperator(DenseLinearOperator(t)), block_diag_dense(a), [t]))(c(a)))
        Rr2 = ri(rng, (*batch, n, n + 1), dtype=dtype)
        rep3 = (3,) if not batch else (3,) + (1,) * (len(batch) - 1) + (2,)
        add("BatchRepeat[rect]", lambda c, a=Rr2: (lambda t: (BatchRepeatLinearOperator(DenseLinearOperator(t), batch_repeat=torch.Size(rep)), a.repeat(*rep, 1, 1), [t]))(c(a)), tags=("rect",))
        add("BatchRepeat[rep3]", lambda c, a=A: (lambda t: (BatchRepeatLinearOperator(DenseLinearOperator(t), batch_repeat=torch.Size(rep3)), a.repeat(*rep3, 1, 1), [t]))(c(a)))
        di = torch.tensor([[rng.randrange(nb)] * 2 + [rng.randrange(nb)] for _ in range(n)]).expand(*batch, n, 3).contiguous()
        dv = ri(rng, (*batch, n, 3), -2, 2, dtype)
        Gd = ri(rng, (*batch, nb, nb), dtype=dtype)
        add("Interpolated[dup]", lambda c, a=Gd, i=di, v=dv: (lambda s, t: (InterpolatedLinearOperator(DenseLinearOperator(s), i.clone(), t, i.clone(), t.clone()),
                                                                        interp_matrix(i, v, nb) @ a @ interp_matrix(i, v, nb).mT, [s, t]))(c(a), c(v)))
        add("Interpolated[default-right]", lambda c, a=Gd, i=di, v=dv: (lambda s, t: (InterpolatedLinearOperator(DenseLinearOperator(s), i.clone(), t),
                                                                                  interp_matrix(i, v, nb) @ a, [s, t]))(c(a), c(v)), tags=("rect",))
        add("LowRankRootAddedDiag[const]", lambda c, r=Rr, e=cv: (lambda s, t: (LowRankRootAddedDiagLinearOperator(LowRankRootLinearOperator(s), ConstantDiagLinearOperator(t, diag_shape=n)),
                                                                            r @ r.mT + e.unsqueeze(-1) * eye(n), [s, t]))(c(r), c(e)), True)
        add("Root(Kronecker)", lambda c, a=G1 if n else None, b=G2: (lambda s, t: (RootLinearOperator(KroneckerProductLinearOperator(s, t)), kron(a, b) @ kron(a, b).mT, [s, t]))(c(a), c(b)))
        add("Sum3", lambda c, a=A, b=B, e=dn: (lambda s, t, u: (SumLinearOperator(DenseLinearOperator(s), DenseLinearOperator(t), DiagLinearOperator(u)), a + b + torch.diag_embed(e), [s, t, u]))(c(a), c(b), c(e)))
        # ---- Block*/SumBatch built with every admissible block_dim (positive and negative, also non-adjacent):
        # canonical data C has shape (*batch, k, n, n); the base handed to the constructor has the block dim at
        # batch position p (explicit permutation, the other batch dims keep their order); dense is defined from C.
        kb = 4
        Cb = ri(rng, (*batch, kb, n, n), dtype=dtype)
        nbat = len(batch)
        for pos in range(nbat + 1):
            order = list(range(pos)) + [nbat] + list(range(pos, nbat)) + [nbat + 1, nbat + 2]
            Tb = Cb.permute(*order).contiguous()
            for bd in (pos, pos - (nbat + 3)):
                add(f"BlockDiag[block_dim={bd}]", lambda c, T=Tb, C=Cb, bd=bd: (lambda t: (BlockDiagLinearOperator(DenseLinearOperator(t), block_dim=bd), block_diag_dense(C), [t]))(c(T)))
                add(f"BlockInterleaved[block_dim={bd}]", lambda c, T=Tb, C=Cb, bd=bd: (lambda t: (BlockInterleavedLinearOperator(DenseLinearOperator(t), block_dim=bd), block_interleaved_dense(C), [t]))(c(T)))
                add(f"SumBatch[block_dim={bd}]", lambda c, T=Tb, C=Cb, bd=bd: (lambda t: (SumBatchLinearOperator(DenseLinearOperator(t), block_dim=bd), C.sum(-3), [t]))(c(T)))
            # the same move reached through LinearOperator.sum(dim) on a structured (non-dense) operator
            colT = ri(rng, (*Tb.shape[:-2], n), 0, 2, dtype)
            add(f"Toeplitz.sum(dim={pos})", lambda c, a=colT, pos=pos: (lambda t: (ToeplitzLinearOperator(t).sum(pos), toeplitz_dense(a).sum(pos), [t]))(c(a)), tags=("fft",))
            add(f"Toeplitz.sum(dim={pos - (nbat + 3)})", lambda c, a=colT, pos=pos: (lambda t: (ToeplitzLinearOperator(t).sum(pos - (nbat + 3)), toeplitz_dense(a).sum(pos), [t]))(c(a)), tags=("fft",))
        add("Mul(Root,Dense-root)", lambda c, a=R1, b=Bpsd: (lambda s, t: (MulLinearOperator(RootLinearOperator(s), DenseLinearOperator(t)), (a @ a.mT) * b, [s, t]))(c(a), c(b)), tags=("fft",))  # root of the dense factor via Cholesky: toleranced
    return out


_UM = []


def _user_minimal_class():
    """A user subclass that supplies only multiplication, size and transpose."""
    if _UM:
        return _UM[0]
    from linear_operator.operators import LinearOperator

    class UserMinimalOperator(LinearOperator):
        def __init__(self, mat):
            super().__init__(mat)
            self.mat = mat

        def _matmul(self, rhs):
            return self.mat.matmul(rhs)

        def _size(self):
            return self.mat.shape

        def _transpose_nonbatch(self):
            return UserMinimalOperator(self.mat.mT)

    _UM.append(UserMinimalOperator)
    return UserMinimalOperator


def wrap(rng, it, dtype, kinds=None):
    """Depth+1 nestings: every constructor that accepts a sub-operator, applied to instance `it`.
    Returns a list of Inst whose `.dense` is computed from `it.dense` with plain torch."""
    from linear_operator.operators import (
        AddedDiagLinearOperator, BatchRepeatLinearOperator, BlockDiagLinearOperator, BlockInterleavedLinearOperator,
        CatLinearOperator, ConstantMulLinearOperator, DenseLinearOperator, DiagLinearOperator, InterpolatedLinearOperator,
        KroneckerProductLinearOperator, MaskedLinearOperator, MatmulLinearOperator, RootLinearOperator, SumBatchLinearOperator,
        SumLinearOperator,
    )
    D = it.dense
    *batch, M, N = D.shape
    batch = tuple(batch)
    dt = D.dtype
    out = []
    tags = tuple(t for t in it.tags if t.startswith("defect:") or t in ("fft", "f32only", "nobatch"))

    def add(kind, make, extra_tags=()):
        if kinds is not None and kind not in kinds:
            return
        try:
            out.append(Inst(f"{kind}({it.name})", make, tags=tags + tuple(extra_tags)))
        except Exception as e:  # constructor refuses this nesting: record it
            out.append(("ctor-error", f"{kind}({it.name})", f"{type(e).__name__}: {e}"[:200]))

    def sub(c):
        return it.build(c), list(it.last_tensors)

    k = ri(rng, batch, -3, -1, dt)
    add("ConstantMul", lambda c: (lambda o, t: (ConstantMulLinearOperator(o[0], t), D * k.unsqueeze(-1).unsqueeze(-1), o[1] + [t]))(sub(c), c(k)))
    E = ri(rng, (*batch, M, N), dtype=dt)
    add("Sum", lambda c: (lambda o, t: (SumLinearOperator(o[0], DenseLinearOperator(t)), D + E, o[1] + [t]))(sub(c), c(E)))
    add("SumRev", lambda c: (lambda o, t: (SumLinearOperator(DenseLinearOperator(t), o[0]), D + E, o[1] + [t]))(sub(c), c(E)))
    F = ri(rng, (*batch, N, 2), dtype=dt)
    add("MatmulL", lambda c: (lambda o, t: (MatmulLinearOperator(o[0], DenseLinearOperator(t)), D @ F, o[1] + [t]))(sub(c), c(F)), ("rect",))
    Gm = ri(rng, (*batch, 2, M), dtype=dt)
    add("MatmulR", lambda c: (lambda o, t: (MatmulLinearOperator(DenseLinearOperator(t), o[0]), Gm @ D, o[1] + [t]))(sub(c), c(Gm)), ("rect",))
    rm = torch.tensor([rng.random() < 0.6 for _ in range(M - 1)] + [True])
    cm = torch.tensor([True] + [rng.random() < 0.6 for _ in range(N - 1)])
    add("Masked", lambda c: (lambda o: (MaskedLinearOperator(o[0], rm.clone(), cm.clone()), D[..., rm, :][..., :, cm], o[1]))(sub(c)), ("rect",))
    rep = (2,) + (1,) * len(batch)
    add("BatchRepeat", lambda c: (lambda o: (BatchRepeatLinearOperator(o[0], batch_repeat=torch.Size(rep)), D.repeat(*rep, 1, 1), o[1]))(sub(c)))
    li = torch.tensor([[rng.randrange(M) for _ in range(2)] for _ in range(3)]).expand(*batch, 3, 2).contiguous()
    lv = ri(rng, (*batch, 3, 2), -2, 2, dt)
    rix = torch.tensor([[rng.randrange(N) for _ in range(2)] for _ in range(2)]).expand(*batch, 2, 2).contiguous()
    rv = ri(rng, (*batch, 2, 2), -2, 2, dt)
    add("Interpolated", lambda c: (lambda o, t, u: (InterpolatedLinearOperator(o[0], li.clone(), t, rix.clone(), u),
                                                   interp_matrix(li, lv, M) @ D @ interp_matrix(rix, rv, N).mT, o[1] + [t, u]))(sub(c), c(lv), c(rv)), ("rect",))
    H = ri(rng, (*batch, 2, N), dtype=dt)
    add("CatRows", lambda c: (lambda o, t: (CatLinearOperator(o[0], DenseLinearOperator(t), dim=-2), torch.cat([D, H], -2), o[1] + [t]))(sub(c), c(H)), ("rect",))
    Hc = ri(rng, (*batch, M, 2), dtype=dt)
    add("CatCols", lambda c: (lambda o, t: (CatLinearOperator(DenseLinearOperator(t), o[0], dim=-1), torch.cat([Hc, D], -1), o[1] + [t]))(sub(c), c(Hc)), ("rect",))
    if M == N:
        dd = ri(rng, (*batch, N), 1, 3, dt)
        add("AddedDiag", lambda c: (lambda o, t: (AddedDiagLinearOperator(o[0], DiagLinearOperator(t)), D + torch.diag_embed(dd), o[1] + [t]))(sub(c), c(dd)))
    Kf = ri(rng, (*batch, 2, 2), dtype=dt)
    add("KroneckerL", lambda c: (lambda o, t: (KroneckerProductLinearOperator(o[0], DenseLinearOperator(t)), kron(D, Kf), o[1] + [t]))(sub(c), c(Kf)))
    add("KroneckerR", lambda c: (lambda o, t: (KroneckerProductLinearOperator(DenseLinearOperator(t), o[0]), kron(Kf, D), o[1] + [t]))(sub(c), c(Kf)))
    add("Root", lambda c: (lambda o: (RootLinearOperator(o[0]), D @ D.mT, o[1]))(sub(c)))
    add("Transpose", lambda c: (lambda o: (o[0].mT, D.mT.contiguous(), o[1]))(sub(c)))
    if len(batch) >= 1:
        if M == N:
            add("BlockDiag", lambda c: (lambda o: (BlockDiagLinearOperator(o[0]), block_diag_dense(D), o[1]))(sub(c)))
        add("BlockInterleaved", lambda c: (lambda o: (BlockInterleavedLinearOperator(o[0]), block_interleaved_dense(D), o[1]))(sub(c)))
        add("SumBatch", lambda c: (lambda o: (SumBatchLinearOperator(o[0]), D.sum(-3), o[1]))(sub(c)))
    return out


def self_test(seed=0):
    """to_dense() of every catalogue instance against its independent dense definition."""
    import random
    rng = random.Random(seed)
    bad = []
    for dtype in (torch.float64, torch.float32):
        for batch in ((), (2,), (2, 3)):
            for it in instances(rng, dtype, batch, 3, depth=2):
                if "nobatch" in it.tags and batch:
                    continue
                try:
                    op = it.build()
                    got = op.to_dense()
                    want = it.dense.to(got.dtype)
                    ok = torch.equal(got, want) if it.exact else torch.allclose(got, want, atol=1e-4 if dtype == torch.float32 else 1e-10)
                    if got.shape != want.shape or not ok:
                        bad.append((it.name, str(dtype), batch, "value/shape", tuple(got.shape), tuple(want.shape)))
                except Exception as e:
                    bad.append((it.name, str(dtype), batch, f"{type(e).__name__}: {e}"[:200]))
    return bad


if __name__ == "__main__":
    for b in self_test():
        print(b)
    print("self-test done")
