"""Run every translator (source -> lean/LinOp/Generated/*.lean)."""
import importlib
import pkgutil

from . import extract


def main():
    for m in pkgutil.iter_modules(extract.__path__):
        mod = importlib.import_module(f"harness.extract.{m.name}")
        if hasattr(mod, "generate"):
            mod.generate()
            print("generated", m.name)


if __name__ == "__main__":
    main()
