"""Run every translator (source -> lean/LinOp/Generated/*.lean)."""
import importlib
import pkgutil

from . import extract


def main():
    for m in pkgutil.iter_modules(extract.__path__):
        try:
            mod = importlib.import_module(f"harness.extract.{m.name}")
        except Exception as e:
            print("import failed", m.name, type(e).__name__, e)
            continue
        if hasattr(mod, "generate"):
            try:
                mod.generate()
                print("generated", m.name)
            except Exception as e:  # a translator under construction must not break the others
                print("generate failed", m.name, type(e).__name__, e)


if __name__ == "__main__":
    main()
