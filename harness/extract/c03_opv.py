"""C03 — encoder of real operator objects into the prefix expression of the Lean operator type
(lean/LinOp/C03/Ops.lean, parser LinOp/C03/OpParse.lean) and the correspondence lines built on it:

  opall : Lean `gi` (class-by-class `_get_indices` arithmetic through the whole nesting) vs the REAL
          `op._get_indices(row, col, *batch)` on the full index grid; Lean `den` (the declarative dense value the
          theorems are stated against) vs `op.to_dense()`; Lean `dg` vs the REAL `op._diagonal()`.
  front : Lean `frontEnd` (ellipsis, range check, negative normalisation, dispatch, convert, `_get_indices`,
          `_compute_getitem_size`) vs `dense[idx]` (shape and values) for index tuples that take the tensor-index path.

A class is encoded structurally only if the methods it would run ARE the modelled ones (checked by identity of the
function objects on `type(op)`), otherwise the sub-operator becomes a dense leaf (sound: leaves are data).
(Helper module of harness/checks/c03.py; lives here because of the file-ownership rule; no generate().)"""
import torch

from . import c03_lean


def _ints(t):
    t = t.detach()
    if t.dtype.is_floating_point:
        if t.numel() and float((t - t.round()).abs().max()) > 1e-6:  # 1e-6: FFT noise of Toeplitz matmul in to_dense()
            return None
        t = t.round()
    return [int(v) for v in t.reshape(-1).tolist()]


def _sh(shape):
    return "x".join(str(int(s)) for s in shape) or "-"


def _vals(v):
    return ",".join(map(str, v)) if v else "-"


class Encoder:
    def __init__(self):
        import linear_operator.operators as O
        from linear_operator.operators._linear_operator import LinearOperator
        self.O, self.LO = O, LinearOperator
        self.structural = 0
        self.opaque = 0
        self.classes = set()

    def leaf(self, op, batch, tag="D"):
        d = op.to_dense()
        d = d.expand(*batch, *d.shape[-2:])
        v = _ints(d)
        if v is None:
            return None
        return f"{tag} {_sh(d.shape)} {_vals(v)}"

    def tensor(self, t, shape):
        v = _ints(t.expand(tuple(int(x) for x in shape)))
        return None if v is None else f"{_sh(shape)} {_vals(v)}"

    def enc(self, op, batch):
        batch = tuple(int(b) for b in batch)
        if tuple(op.batch_shape) != batch:
            self.opaque += 1
            return self.leaf(op, batch)
        r = self._enc(op, batch)
        if r is None:
            self.opaque += 1
            return self.leaf(op, batch)
        self.structural += 1
        self.classes.add(type(op).__name__)
        return r

    def _many(self, ops, batch):
        parts = [self.enc(o, batch) for o in ops]
        return None if any(p is None for p in parts) else parts

    def _enc(self, op, batch):
        O, LO = self.O, self.LO
        T = type(op)
        gi, dg = T._get_indices, T._diagonal
        R, C = int(op.shape[-2]), int(op.shape[-1])
        if gi is O.DenseLinearOperator._get_indices and dg is O.DenseLinearOperator._diagonal:
            t = self.tensor(op.tensor, batch + (R, C))
            return t and "D " + t
        if gi is O.DiagLinearOperator._get_indices and dg is O.DiagLinearOperator._diagonal:
            t = self.tensor(op._diag, batch + (R,))
            return t and "G " + t
        if gi is O.ZeroLinearOperator._get_indices and dg is O.ZeroLinearOperator._diagonal:
            return f"Z {R} {C}"
        if gi is O.ToeplitzLinearOperator._get_indices and dg is O.ToeplitzLinearOperator._diagonal:
            t = self.tensor(op.column, batch + (R,))
            return t and "T " + t
        if gi is O.KroneckerProductLinearOperator._get_indices and dg is O.KroneckerProductLinearOperator._diagonal:
            parts = self._many(op.linear_ops, batch)
            return parts and f"K {len(parts)} " + " ".join(parts)
        if isinstance(op, O.BlockLinearOperator) and gi in (O.BlockDiagLinearOperator._get_indices,
                                                            O.BlockInterleavedLinearOperator._get_indices):
            k = int(op.base_linear_op.shape[-3])
            sub = self.enc(op.base_linear_op, batch + (k,))
            if sub is None:
                return None
            if gi is O.BlockDiagLinearOperator._get_indices and dg is O.BlockDiagLinearOperator._diagonal:
                return f"BD {k} {sub}"
            if gi is O.BlockInterleavedLinearOperator._get_indices and dg is O.BlockInterleavedLinearOperator._diagonal:
                return f"BI {k} {sub}"
            return None
        if gi is O.SumBatchLinearOperator._get_indices and dg is O.SumBatchLinearOperator._diagonal:
            k = int(op.base_linear_op.shape[-3])
            sub = self.enc(op.base_linear_op, batch + (k,))
            return sub and f"SB {k} {sub}"
        if gi is O.BatchRepeatLinearOperator._get_indices and dg is LO._diagonal:
            bb = tuple(int(s) for s in op.base_linear_op.batch_shape)
            sub = self.enc(op.base_linear_op, bb)
            return sub and f"BR {_sh(bb)} {sub}"
        if gi is O.CatLinearOperator._get_indices and dg is O.CatLinearOperator._diagonal:
            cd = int(op.cat_dim)
            if cd == -2:
                parts = self._many(op.linear_ops, batch)
                return parts and f"CR {C} {len(parts)} " + " ".join(parts)
            if cd == -1:
                parts = self._many(op.linear_ops, batch)
                return parts and f"CC {R} {len(parts)} " + " ".join(parts)
            pos = len(batch) + cd + 2
            parts = []
            for o in op.linear_ops:
                pb = list(batch)
                pb[pos] = int(o.shape[cd])
                e = self.enc(o, tuple(pb))
                if e is None:
                    return None
                parts.append(f"{pb[pos]} {e}")
            return f"CB {R} {C} {pos} {len(parts)} " + " ".join(parts)
        if gi is O.InterpolatedLinearOperator._get_indices and dg in (O.InterpolatedLinearOperator._diagonal, LO._diagonal):
            li, lv, ri, rv = op.left_interp_indices, op.left_interp_values, op.right_interp_indices, op.right_interp_values
            ls, rs = batch + (R, int(li.shape[-1])), batch + (C, int(ri.shape[-1]))
            a, b, c, d = self.tensor(li, ls), self.tensor(lv, ls), self.tensor(ri, rs), self.tensor(rv, rs)
            base = op.base_linear_op
            if (dg is O.InterpolatedLinearOperator._diagonal and isinstance(base, O.RootLinearOperator)
                    and isinstance(base.root, O.DenseLinearOperator)
                    and type(base.root)._get_indices is O.DenseLinearOperator._get_indices
                    and tuple(base.batch_shape) == batch):
                # the dense-root fast path of InterpolatedLinearOperator._diagonal (Lean: Opv.interpRoot / interpRootDiag)
                rt = self.enc(base.root, batch)
                if None in (a, b, c, d, rt):
                    return None
                self.fastpath = getattr(self, "fastpath", 0) + 1
                return f"IPR {R} {C} {a} {b.split(' ', 1)[1]} {c} {d.split(' ', 1)[1]} {rt}"
            sub = self.enc(base, batch)
            if None in (a, b, c, d, sub):
                return None
            return f"IP {R} {C} {a} {b.split(' ', 1)[1]} {c} {d.split(' ', 1)[1]} {sub}"
        if gi is O.TriangularLinearOperator._get_indices and dg is O.TriangularLinearOperator._diagonal:
            sub = self.enc(op._tensor, batch)
            return sub and f"TR {sub}"
        if gi is O.RootLinearOperator._get_indices and dg is O.RootLinearOperator._diagonal:
            sub = self.enc(op.root, batch)
            return sub and f"RT {1 if isinstance(op.root, O.DenseLinearOperator) else 0} {sub}"
        if T is O.CholLinearOperator and not op.upper:
            sub = self.enc(op.root, batch)
            return sub and f"RT 1 {sub}"
        if gi is O.MatmulLinearOperator._get_indices and dg is O.MatmulLinearOperator._diagonal:
            A, B = op.left_linear_op, op.right_linear_op
            if isinstance(A, O.DenseLinearOperator) and isinstance(B, O.DenseLinearOperator):
                mode = 0
            elif isinstance(A, O.DiagLinearOperator) or isinstance(B, O.DiagLinearOperator):
                mode = 1
            else:
                mode = 2
            parts = self._many([A, B], batch)
            return parts and f"MM {mode} {parts[0]} {parts[1]}"
        if gi is O.SumLinearOperator._get_indices and dg is O.SumLinearOperator._diagonal:
            parts = self._many(op.linear_ops, batch)
            return parts and f"SU {R} {C} {len(parts)} " + " ".join(parts)
        if gi is O.ConstantMulLinearOperator._get_indices and dg is O.ConstantMulLinearOperator._diagonal:
            c = self.tensor(op._constant, batch)
            sub = self.enc(op.base_linear_op, batch)
            return c and sub and f"CM {c} {sub}"
        if gi is O.MulLinearOperator._get_indices and dg is O.MulLinearOperator._diagonal:
            parts = self._many([op.left_linear_op, op.right_linear_op], batch)
            return parts and f"MU {parts[0]} {parts[1]}"
        if gi is O.MaskedLinearOperator._get_indices and dg is O.MaskedLinearOperator._diagonal:
            rm = torch.arange(op.base.size(-2))[op.row_mask].tolist()
            cm = torch.arange(op.base.size(-1))[op.col_mask].tolist()
            sub = self.enc(op.base, batch)
            return sub and f"MK {_vals(rm)} {_vals(cm)} {sub}"
        TP = getattr(O, "TransposePermutationLinearOperator", None)
        if TP is None:
            from linear_operator.operators.permutation_linear_operator import TransposePermutationLinearOperator as TP
        if gi is TP._get_indices and dg is LO._diagonal and not batch:
            return f"TP {int(op.m)}"
        if gi is LO._get_indices and dg is LO._diagonal:
            return self.leaf(op, batch, "FB")
        return None


def real_get_indices(op, batch, R, C):
    """the real `_get_indices` on the full (batch x R x C) grid, flattened index tensors of equal length"""
    grids = torch.meshgrid(*[torch.arange(s) for s in (*batch, R, C)], indexing="ij")
    flat = [g.reshape(-1) for g in grids]
    return op._get_indices(flat[-2], flat[-1], *flat[:-2])


class OpvLines:
    def __init__(self, chk, lines: "c03_lean.Lines"):
        self.chk, self.lines = chk, lines
        self.enc = Encoder()
        self.cur = None

    def add_instance(self, name, batch, op, dense):
        self.cur = None
        if not self.lines.enabled:
            return
        try:
            expr = self.enc.enc(op, tuple(batch))
        except Exception as e:  # noqa  encoder must never break the run
            self.chk.count("opv:encode-error:" + type(e).__name__)
            return
        if expr is None:
            self.chk.count("opv:not-integer")
            return
        self.cur = expr
        self.chk.count("opv:top:" + expr.split(" ", 1)[0])
        R, C = int(dense.shape[-2]), int(dense.shape[-1])
        want_den = _ints(dense)
        if want_den is None:
            self.chk.count("opv:not-integer")
            self.cur = None
            return
        try:
            g = real_get_indices(op, tuple(batch), R, C)
            want_gi = _ints(g)
        except Exception as e:  # noqa
            self.chk.count("opv:real-get_indices-raise:" + type(e).__name__)
            want_gi = None
        want_dg = None
        if R == C:
            try:
                want_dg = _ints(op._diagonal().expand(*batch, R))
            except NotImplementedError:
                want_dg = None
        cellb = f"b={'x'.join(map(str, batch)) or '-'}"
        if want_gi is not None and want_gi != want_den:
            self.chk.violation(f"C03/{name}/{cellb}/get_indices-grid",
                               f"{name} batch={tuple(batch)}: _get_indices on the full index grid differs from to_dense()",
                               {"kind": "gigrid", "name": name, "batch": list(batch)})

        def check(out, name=name, want_gi=want_gi, want_den=want_den, want_dg=want_dg):
            f = dict(p.split("=", 1) for p in out.split("|"))
            prs = lambda s: [] if s == "-" else [int(x) for x in s.split(",")]
            bad = []
            if prs(f["den"]) != want_den:
                bad.append("den")
            if want_gi is not None and prs(f["gi"]) != want_gi:
                bad.append("gi")
            if want_dg is not None and prs(f["dg"]) != want_dg:
                bad.append("dg")
            if int(f["R"]) != R or int(f["C"]) != C:
                bad.append("size")
            check.bad = bad
            return not bad
        self.lines.add(f"opall {_sh(batch)} | {expr}", ("fn", check), f"C03/lean/opv/{name}")

    def add_front(self, name, batch, dense, idx):
        if not self.lines.enabled or self.cur is None:
            return
        exp = dense[idx]
        v = _ints(exp)
        if v is None:
            return
        want = f"S={c03_lean.fmt(exp.shape)}|V={_vals(v)}"
        items = " ".join(c03_lean.enc_item(i) for i in idx)
        self.lines.add(f"front {_sh(batch)} {items} | {self.cur}", want, f"C03/lean/front/{name}")
        self.chk.count("opv:front")
