"""Translator for C15: linear_operator/operators/*.py -> lean/LinOp/Generated/C15Tables.lean.

Extracted with Python `ast` from /repo's working tree on every run (file rewritten only when its text changes):

* `handledFirst` / `handledSecond` — the registered-function tables built by the decorators
  `@_implements`, `@_implements_second_arg`, `@_implements_symmetric` (torch function, written as the
  dotted source expression, e.g. `torch.linalg.cholesky`, -> method *name*), emulating the decorator
  application order (bottom-up per function, class body top-down; a later registration of the same
  function overwrites the name but keeps the dict position);
* `classes` — every class defined in operators/*.py that is (transitively) a subclass of
  `LinearOperator`, plus every class that occurs as a base (`object`, `_TriangularLinearOperatorBase`,
  ...): name, bases in source order, and the names it defines **projected on the names of interest**
  (the ranges of the two tables plus the binary dunders) — method resolution of a name only ever asks
  whether a class defines *that* name, so the projection is faithful for those names;
* `sigs` — parameter names of every definition of a name of interest (to know whether a handler
  accepts `alpha=`).

`dynamic_crosscheck()` compares all of it against the run-time objects.
"""
import ast
import glob
import os

from ..common import LEAN, REPO

DECOS = ("_implements", "_implements_second_arg", "_implements_symmetric")
DUNDERS = ["__add__", "__radd__", "__sub__", "__rsub__", "__mul__", "__rmul__", "__matmul__", "__rmatmul__",
           "__truediv__", "__rtruediv__", "__neg__", "__torch_function__"]
ROOT = "LinearOperator"


def lean_str(s):
    return '"' + s.replace("\\", "\\\\").replace('"', '\\"') + '"'


def _base_name(b):
    if isinstance(b, ast.Name):
        return b.id
    if isinstance(b, ast.Attribute):
        return b.attr
    return ast.unparse(b)


def _params(fn):
    a = fn.args
    ps = [x.arg for x in a.posonlyargs + a.args]
    if a.vararg:
        ps.append("*" + a.vararg.arg)
    ps += [x.arg for x in a.kwonlyargs]
    if a.kwarg:
        ps.append("**" + a.kwarg.arg)
    return ps


def _files():
    d = os.path.join(REPO, "linear_operator", "operators")
    fs = sorted(glob.glob(os.path.join(d, "*.py")))
    first = os.path.join(d, "_linear_operator.py")
    return [first] + [f for f in fs if f != first and not f.endswith("__init__.py")]


def extract():
    raw = {}        # class name -> dict(bases, body defs, file)
    order = []
    first, second = {}, {}
    flags = {"kw_normalised": False}
    for path in _files():
        tree = ast.parse(open(path).read())
        for node in tree.body:
            if not isinstance(node, ast.ClassDef):
                continue
            bases = [_base_name(b) for b in node.bases] or ["object"]
            defines, sigs = [], {}
            for st in node.body:
                if isinstance(st, (ast.FunctionDef, ast.AsyncFunctionDef)):
                    if st.name not in defines:
                        defines.append(st.name)
                    sigs[st.name] = _params(st)
                    if node.name == ROOT and st.name == "__torch_function__":
                        # keyword operands (`other=op`, `input=x`) are moved into the positional tuple iff the body pops from kwargs
                        flags["kw_normalised"] = any(isinstance(x, ast.Call) and isinstance(x.func, ast.Attribute) and x.func.attr == "pop"
                                                     for x in ast.walk(st))
                    # decorators are applied bottom-up
                    for dec in reversed(st.decorator_list):
                        if isinstance(dec, ast.Call) and isinstance(dec.func, ast.Name) and dec.func.id in DECOS and dec.args:
                            key = ast.unparse(dec.args[0])
                            if dec.func.id in ("_implements", "_implements_symmetric"):
                                first[key] = st.name
                            if dec.func.id in ("_implements_second_arg", "_implements_symmetric"):
                                second[key] = st.name
                elif isinstance(st, ast.Assign):
                    for t in st.targets:
                        if isinstance(t, ast.Name) and t.id not in defines:
                            defines.append(t.id)
                elif isinstance(st, ast.AnnAssign) and st.value is not None and isinstance(st.target, ast.Name):
                    if st.target.id not in defines:
                        defines.append(st.target.id)
            if node.name in raw:
                continue
            raw[node.name] = {"bases": bases, "defines": defines, "sigs": sigs, "file": os.path.basename(path)}
            order.append(node.name)

    # keep subclasses of LinearOperator and everything reachable through bases
    def reaches_root(c, seen=()):
        if c == ROOT:
            return True
        if c not in raw or c in seen:
            return False
        return any(reaches_root(b, seen + (c,)) for b in raw[c]["bases"])

    keep = [c for c in order if reaches_root(c)]
    extra = []

    def add_bases(c):
        for b in raw[c]["bases"] if c in raw else []:
            if b not in keep and b not in extra:
                extra.append(b)
                add_bases(b)

    for c in list(keep):
        add_bases(c)
    interest = sorted(set(first.values()) | set(second.values()) | set(DUNDERS))
    classes = []
    for c in extra + keep:
        if c in raw:
            info = raw[c]
            classes.append({"name": c, "bases": info["bases"], "defines": [d for d in info["defines"] if d in interest],
                            "all_defines": info["defines"], "sigs": {k: v for k, v in info["sigs"].items() if k in interest},
                            "file": info["file"], "operator": c in keep})
        else:  # `object` or a class from outside operators/
            classes.append({"name": c, "bases": [] if c == "object" else ["object"], "defines": [], "all_defines": [],
                            "sigs": {}, "file": None, "operator": False})
    # `object` first, then bases before subclasses where the source order allows; order is irrelevant to the model
    classes.sort(key=lambda k: 0 if k["name"] == "object" else 1)
    return {"first": list(first.items()), "second": list(second.items()), "classes": classes, "interest": interest,
            "kw_normalised": flags["kw_normalised"]}


def render(tab):
    out = ["-- GENERATED by harness/extract/c15_dispatch.py from /repo linear_operator/operators/*.py",
           "-- Do not edit: regenerated on every check run.",
           "namespace LinOp.Generated.C15", "",
           "/-- `_HANDLED_FUNCTIONS`: torch function (source expression) ↦ method name. -/",
           "def handledFirst : List (String × String) := ["]
    out.append(",\n".join(f"  ({lean_str(k)}, {lean_str(v)})" for k, v in tab["first"]) + "]")
    out += ["", "/-- `_HANDLED_SECOND_ARG_FUNCTIONS`. -/", "def handledSecond : List (String × String) := ["]
    out.append(",\n".join(f"  ({lean_str(k)}, {lean_str(v)})" for k, v in tab["second"]) + "]")
    out += ["", "/-- (class, bases in source order, defined names ∩ names of interest). -/",
            "def classes : List (String × List String × List String) := ["]
    rows = []
    for c in tab["classes"]:
        rows.append(f"  ({lean_str(c['name'])}, [{', '.join(map(lean_str, c['bases']))}], [{', '.join(map(lean_str, c['defines']))}])")
    out.append(",\n".join(rows) + "]")
    out += ["", "/-- Concrete or abstract subclasses of `LinearOperator` (incl. itself). -/", "def operatorClasses : List String := ["]
    out.append("  " + ", ".join(lean_str(c["name"]) for c in tab["classes"] if c["operator"]) + "]")
    out += ["", "/-- (class, method, parameter names) for every definition of a name of interest. -/",
            "def sigs : List (String × String × List String) := ["]
    rows = []
    for c in tab["classes"]:
        for m, ps in c["sigs"].items():
            rows.append(f"  ({lean_str(c['name'])}, {lean_str(m)}, [{', '.join(map(lean_str, ps))}])")
    out.append(",\n".join(rows) + "]")
    out += ["", "/-- `__torch_function__` moves operands passed by keyword (`input=`, `other=`) into the positional tuple. -/",
            f"def kwNormalised : Bool := {'true' if tab['kw_normalised'] else 'false'}"]
    out += ["", "end LinOp.Generated.C15", ""]
    return "\n".join(out)


def generate():
    tab = extract()
    text = render(tab)
    path = os.path.join(LEAN, "LinOp", "Generated", "C15Tables.lean")
    if not os.path.exists(path) or open(path).read() != text:
        with open(path, "w") as fh:
            fh.write(text)
    return tab


def resolve_torch_name(expr):
    """`torch.linalg.cholesky` -> the function object (names come from the decorator source)."""
    import torch
    obj = {"torch": torch}[expr.split(".")[0]]
    for comp in expr.split(".")[1:]:
        obj = getattr(obj, comp)
    return obj


def runtime_classes():
    """All subclasses of LinearOperator defined in linear_operator.operators.* (incl. itself)."""
    import importlib
    import pkgutil
    import warnings
    import linear_operator.operators as ops
    from linear_operator.operators._linear_operator import LinearOperator
    with warnings.catch_warnings():
        warnings.simplefilter("ignore")
        for m in pkgutil.iter_modules(ops.__path__):
            importlib.import_module(f"linear_operator.operators.{m.name}")
    res, todo = [], [LinearOperator]
    while todo:
        c = todo.pop(0)
        if c in res:
            continue
        res.append(c)
        todo += c.__subclasses__()
    return [c for c in res if c.__module__.startswith("linear_operator.operators")]


def dynamic_crosscheck(tab):
    """Compare the extracted tables with the run-time objects.  Returns a list of mismatch descriptions."""
    from linear_operator.operators import _linear_operator as L
    bad = []
    for name, table, rt in (("first", tab["first"], L._HANDLED_FUNCTIONS), ("second", tab["second"], L._HANDLED_SECOND_ARG_FUNCTIONS)):
        try:
            mine = [(resolve_torch_name(k), v) for k, v in table]
        except AttributeError as e:
            bad.append(f"{name}: cannot resolve a registered torch function name: {e}")
            continue
        theirs = list(rt.items())
        if len(mine) != len(theirs) or any(a is not c or b != d for (a, b), (c, d) in zip(mine, theirs)):
            bad.append(f"{name}-arg table differs from run time: extracted {table} vs run-time "
                       f"{[(getattr(f, '__name__', str(f)), n) for f, n in theirs]}")
    byname = {c["name"]: c for c in tab["classes"]}
    rcs = runtime_classes()
    rnames = sorted(c.__name__ for c in rcs)
    enames = sorted(c["name"] for c in tab["classes"] if c["operator"])
    if rnames != enames:
        bad.append(f"operator class set differs from run time: {sorted(set(rnames) ^ set(enames))}")
    for k in rcs:
        c = byname.get(k.__name__)
        if c is None:
            continue
        if [b.__name__ for b in k.__bases__] != c["bases"]:
            bad.append(f"bases of {k.__name__}: extracted {c['bases']} run-time {[b.__name__ for b in k.__bases__]}")
        for m in ("__getattr__", "__getattribute__"):
            if m in k.__dict__ or (type(k).__module__.startswith("linear_operator") and m in type(k).__dict__):
                bad.append(f"{k.__name__} (or its metaclass) defines {m}: attribute lookup is no longer plain MRO resolution")
        for m in tab["interest"]:
            if (m in k.__dict__) != (m in c["defines"]):
                bad.append(f"{k.__name__}.{m}: defined at run time = {m in k.__dict__}, extracted = {m in c['defines']}")
    return bad


if __name__ == "__main__":
    t = generate()
    print(len(t["first"]), len(t["second"]), len(t["classes"]))
    print(dynamic_crosscheck(t))
