"""Translator for C11: literals, defaults and statement texts of `linear_operator/utils/minres.py`,
`utils/contour_integral_quad.py`, `functions/_sqrt_inv_matmul.py`, the MINRES/CIQ defaults of `settings.py` and the
`sqrt_inv_matmul` / CIQ-sampling code of the operators  ->  lean/LinOp/Generated/C11Consts.lean.
Regenerated from the working tree on every run (file rewritten only when its text changes).

Extracted with Python `ast` (no execution):
  * `eps` default of `minres`, the literal of `rhs_norm.lt(·)`, `K` of `(i + 1) % K == 0`, `E` of `range(max_iter + E)`,
    `S` of `min(max_iter, rhs.size(-2) + S)`
  * the buffer-rotation block of the loop as a list of tuple assignments between names (the subject of
    `buffer_rotation_no_alias`), and the set of names rotated
  * statement lists (normalised text) of `minres` before / inside / after the loop, of `_jit_minres_updates`,
    of `contour_integral_quad` (incl. the nested closure), of `SqrtInvMatmul.forward`, of
    `LinearOperator.sqrt_inv_matmul`, the Diag / Identity overrides and the CIQ branch of `zero_mean_mvn_samples`
  * `value` passed to `minres` by `contour_integral_quad`, `max_lanczos_iter` default, `shift_offset` default
  * settings defaults `minres_tolerance`, `max_cg_iterations`, `num_contour_quadrature`, `ciq_samples`
Anything not recognised is emitted as "?" / -1 so that the Lean obligations over the file fail.
"""
import ast
import os
from fractions import Fraction

from ..common import LEAN, REPO

OUT = os.path.join(LEAN, "LinOp", "Generated", "C11Consts.lean")


def lean_str(s):
    return '"' + str(s).replace("\\", "\\\\").replace('"', '\\"').replace("\n", " ") + '"'


def lean_rat(fr):
    if fr is None:
        return "(-1 : Rat)"
    fr = Fraction(fr)
    if fr.denominator == 1:
        return f"({fr.numerator} : Rat)"
    return f"(({fr.numerator} : Rat) / {fr.denominator})"


def _num(node):
    try:
        if isinstance(node, ast.UnaryOp) and isinstance(node.op, ast.USub):
            v = _num(node.operand)
            return None if v is None else -v
        if isinstance(node, ast.Constant) and isinstance(node.value, (int, float)) and not isinstance(node.value, bool):
            return Fraction(ast.unparse(node).replace("_", ""))
    except Exception:
        pass
    return None


def _func(tree, name, cls=None):
    for n in ast.walk(tree):
        if cls is not None:
            if isinstance(n, ast.ClassDef) and n.name == cls:
                for m in n.body:
                    if isinstance(m, ast.FunctionDef) and m.name == name:
                        return m
        elif isinstance(n, ast.FunctionDef) and n.name == name:
            return n
    return None


def _class_attr(tree, cls, attr):
    for n in tree.body:
        if isinstance(n, ast.ClassDef) and n.name == cls:
            for st in n.body:
                if isinstance(st, ast.Assign) and any(isinstance(t, ast.Name) and t.id == attr for t in st.targets):
                    return st.value
    return None


def _stmts(body):
    res = []
    for st in body:
        if isinstance(st, ast.Expr) and isinstance(st.value, ast.Constant) and isinstance(st.value.value, str):
            continue
        res.append(" ".join(ast.unparse(st).split()))
    return res


def _defaults(f):
    args = f.args.args
    defaults = [None] * (len(args) - len(f.args.defaults)) + list(f.args.defaults)
    return {a.arg: dv for a, dv in zip(args, defaults)}, [(a.arg, ast.unparse(dv) if dv is not None else "<required>") for a, dv in zip(args, defaults)]


def _read(rel):
    return ast.parse(open(os.path.join(REPO, rel)).read())


def module_state(rel):
    """Module-level mutable state / memoisation in a solver module: anything at module level other than imports, function and
    class definitions and docstrings; caching decorators; `global` / `nonlocal`; attribute stores on functions; mutable
    default arguments.  Returns a list of descriptions (empty = none)."""
    tree = _read(rel)
    base = os.path.basename(rel)
    out = []
    fnames = {n.name for n in tree.body if isinstance(n, (ast.FunctionDef, ast.ClassDef))}
    for st in tree.body:
        if isinstance(st, (ast.Import, ast.ImportFrom, ast.FunctionDef, ast.ClassDef)):
            continue
        if isinstance(st, ast.Expr) and isinstance(st.value, ast.Constant) and isinstance(st.value.value, str):
            continue
        out.append(f"{base}:{st.lineno}: module-level statement `{' '.join(ast.unparse(st).split())[:80]}`")
    for n in ast.walk(tree):
        if isinstance(n, (ast.FunctionDef, ast.ClassDef)):
            for dec in n.decorator_list:
                t = ast.unparse(dec)
                if any(w in t for w in ("cache", "memo", "lru")):
                    out.append(f"{base}:{n.lineno}: decorator `{t}` on {n.name}")
        if isinstance(n, ast.FunctionDef):
            for dv in list(n.args.defaults) + [x for x in n.args.kw_defaults if x is not None]:
                if isinstance(dv, (ast.Dict, ast.List, ast.Set, ast.Call, ast.DictComp, ast.ListComp, ast.SetComp)):
                    out.append(f"{base}:{n.lineno}: mutable default `{ast.unparse(dv)[:40]}` of {n.name}")
        if isinstance(n, (ast.Global, ast.Nonlocal)) and isinstance(n, ast.Global):
            out.append(f"{base}:{n.lineno}: `global {', '.join(n.names)}`")
        if isinstance(n, (ast.Assign, ast.AugAssign, ast.AnnAssign)):
            tgts = n.targets if isinstance(n, ast.Assign) else [n.target]
            for tg in tgts:
                if isinstance(tg, ast.Attribute) and isinstance(tg.value, ast.Name) and tg.value.id in fnames:
                    out.append(f"{base}:{n.lineno}: attribute store `{ast.unparse(tg)}` on a module-level function/class")
        if isinstance(n, ast.Call) and ast.unparse(n.func) in ("setattr",) and n.args and isinstance(n.args[0], ast.Name) and n.args[0].id in fnames:
            out.append(f"{base}:{n.lineno}: setattr on {n.args[0].id}")
    return out


def extract():
    d = {}
    d["module_state"] = []
    for rel in ("linear_operator/utils/minres.py", "linear_operator/utils/contour_integral_quad.py", "linear_operator/functions/_sqrt_inv_matmul.py"):
        d["module_state"] += module_state(rel)
    tree = _read("linear_operator/utils/minres.py")
    f = _func(tree, "minres")
    dm, d["params"] = _defaults(f)
    d["eps"] = _num(dm.get("eps"))
    # rhs_norm.lt(C)
    d["zero_thresh"] = None
    for n in ast.walk(f):
        if isinstance(n, ast.Call) and isinstance(n.func, ast.Attribute) and n.func.attr == "lt" \
                and ast.unparse(n.func.value) == "rhs_norm" and len(n.args) == 1:
            d["zero_thresh"] = _num(n.args[0])
    # min(max_iter, rhs.size(-2) + S)
    d["size_slack"] = None
    for n in ast.walk(f):
        if isinstance(n, ast.Call) and getattr(n.func, "id", None) == "min" and len(n.args) == 2 \
                and ast.unparse(n.args[0]) == "max_iter" and isinstance(n.args[1], ast.BinOp) \
                and isinstance(n.args[1].op, ast.Add) and ast.unparse(n.args[1].left) == "rhs.size(-2)":
            d["size_slack"] = _num(n.args[1].right)
    loop = None
    for n in ast.walk(f):
        if isinstance(n, ast.For) and isinstance(n.target, ast.Name) and n.target.id == "i":
            loop = n
    d["loop_iter"] = ast.unparse(loop.iter) if loop else "?"
    d["extra_iters"] = None
    if loop and isinstance(loop.iter, ast.Call) and getattr(loop.iter.func, "id", None) == "range" and len(loop.iter.args) == 1:
        a = loop.iter.args[0]
        if isinstance(a, ast.BinOp) and isinstance(a.op, ast.Add) and ast.unparse(a.left) == "max_iter":
            d["extra_iters"] = _num(a.right)
    d["check_every"], d["check_test"], d["check_body"] = None, "?", []
    d["loop_body"], d["rotation"] = [], []
    if loop:
        seen_check = False
        for st in loop.body:
            if isinstance(st, ast.If) and "%" in ast.unparse(st.test):
                seen_check = True
                d["check_test"] = " ".join(ast.unparse(st.test).split())
                d["check_body"] = _stmts(st.body)
                t = st.test
                if isinstance(t, ast.Compare) and isinstance(t.left, ast.BinOp) and isinstance(t.left.op, ast.Mod) \
                        and ast.unparse(t.left.left) == "i + 1" and isinstance(t.ops[0], ast.Eq) and _num(t.comparators[0]) == 0:
                    d["check_every"] = _num(t.left.right)
                continue
            if seen_check:
                # rotation block: (tuple) assignments between names
                if isinstance(st, ast.Assign) and len(st.targets) == 1:
                    tg, vl = st.targets[0], st.value
                    lhs = [tg] if isinstance(tg, ast.Name) else (list(tg.elts) if isinstance(tg, ast.Tuple) else None)
                    rhs = [vl] if isinstance(vl, ast.Name) else (list(vl.elts) if isinstance(vl, ast.Tuple) else None)
                    if lhs and rhs and all(isinstance(x, ast.Name) for x in lhs + rhs) and len(lhs) == len(rhs):
                        d["rotation"].append(([x.id for x in lhs], [x.id for x in rhs]))
                        continue
                d["rotation"].append((["?"], [" ".join(ast.unparse(st).split())]))
            else:
                d["loop_body"].append(" ".join(ast.unparse(st).split()))
    pre, post, seen = [], [], False
    for st in f.body:
        if st is loop:
            seen = True
            continue
        (post if seen else pre).extend(_stmts([st]))
    d["before_loop"], d["after_loop"] = pre, post
    k = _func(tree, "_jit_minres_updates")
    d["kernel"] = _stmts(k.body) if k else ["?"]
    d["kernel_params"] = [a.arg for a in k.args.args] if k else ["?"]
    # the call's argument names must line up with the kernel's parameter names
    d["kernel_call_args"] = ["?"]
    if loop:
        for n in ast.walk(loop):
            if isinstance(n, ast.Call) and getattr(n.func, "id", None) == "_jit_minres_updates":
                d["kernel_call_args"] = [ast.unparse(a) for a in n.args]
    # ---- contour_integral_quad
    ctree = _read("linear_operator/utils/contour_integral_quad.py")
    cf = _func(ctree, "contour_integral_quad")
    cdm, d["ciq_params"] = _defaults(cf)
    d["max_lanczos_iter"] = _num(cdm.get("max_lanczos_iter"))
    d["shift_offset"] = _num(cdm.get("shift_offset"))
    d["ciq_body"] = _stmts(cf.body)
    d["ciq_value"] = None
    d["ciq_minres_call"] = "?"
    for n in ast.walk(cf):
        if isinstance(n, ast.Call) and getattr(n.func, "id", None) == "minres":
            d["ciq_minres_call"] = " ".join(ast.unparse(n).split())
            for kw in n.keywords:
                if kw.arg == "value":
                    d["ciq_value"] = _num(kw.value)
    # ---- SqrtInvMatmul.forward
    stree = _read("linear_operator/functions/_sqrt_inv_matmul.py")
    sf = _func(stree, "forward", cls="SqrtInvMatmul")
    d["sim_forward"] = _stmts(sf.body) if sf else ["?"]
    # ---- operators
    lo = _read("linear_operator/operators/_linear_operator.py")
    m = _func(lo, "sqrt_inv_matmul", cls="LinearOperator")
    d["op_sqrt_inv_matmul"] = _stmts(m.body) if m else ["?"]
    zm = _func(lo, "zero_mean_mvn_samples", cls="LinearOperator")
    d["ciq_sampling"] = ["?"]
    if zm:
        for n in ast.walk(zm):
            if isinstance(n, ast.If) and "ciq_samples" in ast.unparse(n.test):
                d["ciq_sampling"] = _stmts(n.body)
    dg = _func(_read("linear_operator/operators/diag_linear_operator.py"), "sqrt_inv_matmul", cls="DiagLinearOperator")
    d["diag_sqrt_inv_matmul"] = _stmts(dg.body) if dg else ["?"]
    idn = _func(_read("linear_operator/operators/identity_linear_operator.py"), "sqrt_inv_matmul", cls="IdentityLinearOperator")
    d["identity_sqrt_inv_matmul"] = _stmts(idn.body) if idn else ["?"]
    # ---- settings
    st_tree = _read("linear_operator/settings.py")
    d["minres_tolerance"] = _num(_class_attr(st_tree, "minres_tolerance", "_global_value"))
    d["max_cg_iterations"] = _num(_class_attr(st_tree, "max_cg_iterations", "_global_value"))
    d["num_contour_quadrature"] = _num(_class_attr(st_tree, "num_contour_quadrature", "_global_value"))
    tv = _class_attr(st_tree, "ciq_samples", "_default")
    d["ciq_samples"] = ast.unparse(tv) if tv is not None else "?"
    return d


def render(d):
    def sl(xs):
        return "[" + ", ".join(lean_str(x) for x in xs) + "]"

    def nat(fr):
        return str(int(fr)) if fr is not None and Fraction(fr).denominator == 1 and fr >= 0 else "0 -- ?"

    names = []
    for lhs, rhs in d["rotation"]:
        for x in lhs + rhs:
            if x not in names:
                names.append(x)
    L = []
    L.append("-- GENERATED by harness/extract/c11_minres.py from /repo linear_operator/utils/minres.py, utils/contour_integral_quad.py,")
    L.append("-- functions/_sqrt_inv_matmul.py, settings.py, operators/{_linear_operator,diag_linear_operator,identity_linear_operator}.py")
    L.append("-- Do not edit: regenerated on every check run.")
    L.append("import LinOp.C11.Model")
    L.append("namespace LinOp.Generated.C11")
    L.append("open LinOp.C11")
    L.append("")
    L.append("/-- default of the `eps` parameter of `minres` (sentinel -1 if not a literal) -/")
    L.append(f"def eps : Rat := {lean_rat(d['eps'])}")
    L.append("/-- `C` of `rhs_norm.lt(C)` -/")
    L.append(f"def zeroThresh : Rat := {lean_rat(d['zero_thresh'])}")
    L.append("/-- `K` of `(i + 1) % K == 0` -/")
    L.append(f"def checkEvery : Nat := {nat(d['check_every'])}")
    L.append("/-- `E` of `range(max_iter + E)` -/")
    L.append(f"def extraIters : Nat := {nat(d['extra_iters'])}")
    L.append("/-- `S` of `min(max_iter, rhs.size(-2) + S)` -/")
    L.append(f"def sizeSlack : Nat := {nat(d['size_slack'])}")
    L.append(f"def literalsFound : Bool := {'true' if all(d[k] is not None for k in ('eps', 'zero_thresh', 'check_every', 'extra_iters', 'size_slack', 'ciq_value')) else 'false'}")
    L.append(f"def minresTolerance : Rat := {lean_rat(d['minres_tolerance'])}")
    L.append(f"def maxCgIterations : Nat := {nat(d['max_cg_iterations'])}")
    L.append(f"def numContourQuadrature : Nat := {nat(d['num_contour_quadrature'])}")
    L.append(f"def ciqSamples : String := {lean_str(d['ciq_samples'])}")
    L.append("/-- `value=` passed to `minres` by `contour_integral_quad` -/")
    L.append(f"def ciqValue : Rat := {lean_rat(d['ciq_value'])}")
    L.append(f"def maxLanczosIter : Nat := {nat(d['max_lanczos_iter'])}")
    L.append(f"def shiftOffset : Rat := {lean_rat(d['shift_offset'])}")
    L.append("def params : List (String × String) := [" + ", ".join(f"({lean_str(a)}, {lean_str(b)})" for a, b in d["params"]) + "]")
    L.append("def ciqParams : List (String × String) := [" + ", ".join(f"({lean_str(a)}, {lean_str(b)})" for a, b in d["ciq_params"]) + "]")
    L.append("/-- module-level mutable state / memoisation found in minres.py, contour_integral_quad.py, _sqrt_inv_matmul.py")
    L.append("    (module-level non-definition statements, caching decorators, `global`, attribute stores on functions, mutable defaults) -/")
    L.append(f"def moduleState : List String := {sl(d['module_state'])}")
    L.append("/-- the buffer-rotation block at the end of the loop body -/")
    L.append("def rotation : List TupleAssign := [" + ", ".join("{ lhs := " + sl(a) + ", rhs := " + sl(b) + " }" for a, b in d["rotation"]) + "]")
    L.append(f"def rotNames : List String := {sl(names)}")
    perm = [(a, b) for a, b in d["rotation"] if sorted(a) == sorted(b) and len(set(a)) == len(a)]
    pnames = [x for a, _ in perm for x in a]
    L.append("/-- the assignments of the rotation block that permute buffers written in place (`out=` kernels); the remaining ones")
    L.append("    (`zvec_*`, `qvec_*`) shift in tensors that are freshly allocated in every iteration -/")
    L.append("def rotPerm : List TupleAssign := [" + ", ".join("{ lhs := " + sl(a) + ", rhs := " + sl(b) + " }" for a, b in perm) + "]")
    L.append(f"def rotPermNames : List String := {sl(pnames)}")
    L.append("def rotShift : List TupleAssign := [" + ", ".join("{ lhs := " + sl(a) + ", rhs := " + sl(b) + " }" for a, b in d["rotation"] if (a, b) not in perm) + "]")
    L.append(f"def loopIter : String := {lean_str(d['loop_iter'])}")
    L.append(f"def checkTest : String := {lean_str(d['check_test'])}")
    L.append(f"def checkBody : List String := {sl(d['check_body'])}")
    L.append(f"def loopBody : List String := {sl(d['loop_body'])}")
    L.append(f"def beforeLoop : List String := {sl(d['before_loop'])}")
    L.append(f"def afterLoop : List String := {sl(d['after_loop'])}")
    L.append(f"def kernelParams : List String := {sl(d['kernel_params'])}")
    L.append(f"def kernelCallArgs : List String := {sl(d['kernel_call_args'])}")
    L.append(f"def kernel : List String := {sl(d['kernel'])}")
    L.append(f"def ciqMinresCall : String := {lean_str(d['ciq_minres_call'])}")
    L.append(f"def ciqBody : List String := {sl(d['ciq_body'])}")
    L.append(f"def simForward : List String := {sl(d['sim_forward'])}")
    L.append(f"def opSqrtInvMatmul : List String := {sl(d['op_sqrt_inv_matmul'])}")
    L.append(f"def ciqSampling : List String := {sl(d['ciq_sampling'])}")
    L.append(f"def diagSqrtInvMatmul : List String := {sl(d['diag_sqrt_inv_matmul'])}")
    L.append(f"def identitySqrtInvMatmul : List String := {sl(d['identity_sqrt_inv_matmul'])}")
    L.append("")
    L.append("end LinOp.Generated.C11")
    return "\n".join(L) + "\n"


def generate():
    d = extract()
    text = render(d)
    old = open(OUT).read() if os.path.exists(OUT) else None
    if old != text:
        with open(OUT, "w") as fh:
            fh.write(text)
    return d


if __name__ == "__main__":
    import json
    print(json.dumps(generate(), indent=1, default=str))
