"""Translator for C20: source-level facts of the utility kernels -> lean/LinOp/Generated/C20Facts.lean.

Extracted with Python `ast` (no execution) from /repo's working tree on every run (file rewritten only when its text changes):

  * inventory: every top-level function (and method of a top-level class) of the modules C20 covers
    (`utils/{toeplitz,interpolation,sparse,permutation,qr,pinverse,broadcasting}.py`, `functions/_dsmm.py`);
  * `bdsmm`: the branch tests, the unpacking of the repeated sparse shape, the repeat-size expression, the batch multiplication
    factor, the two in-place offset additions `indices[k].add_(batch_assignment, alpha=…)`, the size of `sparse_2d`, the reshape of
    the dense operand, the final `view`, the 2-D×batched branch's transposes;
  * `sparse_repeat`: loop iterator, guard, the offset factor multiplying `arange(repeat_size)`, the new size expression;
  * `sparse_getitem`: loop iterator (reversed enumeration), negative-int normalisation, int mask, slice mask, `slice.indices`
    call, subtraction of `start`, step test, scalar return;
  * `toeplitz_getitem`: `index = i - j`, test, the two returns;
  * `DSMM.backward`: the returned tuple; `DSMM.forward`: the returned call;
  * `stable_qr`: the zero threshold literal(s) as exact rationals.
Anything that cannot be recognised is emitted as "?" so that the Lean obligations (`decide +kernel` in
LinOp/Properties/C20.lean) fail.  `dynamic_crosscheck()` compares the inventory with the imported modules.
"""
import ast
import os
from fractions import Fraction

from ..common import LEAN, REPO

MODULES = [("toeplitz", "linear_operator/utils/toeplitz.py"), ("interpolation", "linear_operator/utils/interpolation.py"),
           ("sparse", "linear_operator/utils/sparse.py"), ("permutation", "linear_operator/utils/permutation.py"),
           ("qr", "linear_operator/utils/qr.py"), ("pinverse", "linear_operator/utils/pinverse.py"),
           ("broadcasting", "linear_operator/utils/broadcasting.py"), ("_dsmm", "linear_operator/functions/_dsmm.py")]


def lean_str(s):
    return '"' + str(s).replace("\\", "\\\\").replace('"', '\\"').replace("\n", " ") + '"'


def _u(node):
    return ast.unparse(node).replace("\n", " ") if node is not None else "?"


def _func(tree, name):
    for n in tree.body:
        if isinstance(n, ast.FunctionDef) and n.name == name:
            return n
    return None


def _method(tree, cls, name):
    for n in tree.body:
        if isinstance(n, ast.ClassDef) and n.name == cls:
            for k in n.body:
                if isinstance(k, ast.FunctionDef) and k.name == name:
                    return k
    return None


def inventory():
    out = []
    for mod, rel in MODULES:
        tree = ast.parse(open(os.path.join(REPO, rel)).read())
        for n in tree.body:
            if isinstance(n, ast.FunctionDef):
                out.append((mod, n.name))
            if isinstance(n, ast.ClassDef):
                for k in n.body:
                    if isinstance(k, ast.FunctionDef):
                        out.append((mod, f"{n.name}.{k.name}"))
    return out


def _assign_value(fn, target):
    """unparsed values of every `target = …` assignment (by unparsed target text) in source order"""
    res = []
    for n in ast.walk(fn):
        if isinstance(n, ast.Assign) and len(n.targets) == 1 and _u(n.targets[0]) == target:
            res.append((n.lineno, _u(n.value)))
    return [v for _, v in sorted(res)]


def _calls(fn, attr):
    res = []
    for n in ast.walk(fn):
        if isinstance(n, ast.Call) and isinstance(n.func, ast.Attribute) and n.func.attr == attr:
            res.append((n.lineno, n.col_offset, n))
    return [c for _, _, c in sorted(res, key=lambda t: (t[0], t[1]))]


def extract_sparse(src):
    f = {}
    tree = ast.parse(src)
    bd = _func(tree, "bdsmm")
    f["bdsmmBranchTests"] = []
    f["bdsmmOffsets"] = []
    for k in ("bdsmmUnpack", "bdsmmRepeatExpr", "bdsmmFactor", "bdsmmSparse2dSize", "bdsmmDense2d", "bdsmmView", "bdsmmExpandDense",
              "bdsmm2dDense", "bdsmm2dResult", "bdsmmAssignment"):
        f[k] = "?"
    if bd is not None:
        node = next((n for n in bd.body if isinstance(n, ast.If)), None)
        while node is not None:
            f["bdsmmBranchTests"].append(_u(node.test))
            node = node.orelse[0] if len(node.orelse) == 1 and isinstance(node.orelse[0], ast.If) else None
        first = next((n for n in bd.body if isinstance(n, ast.If)), None)
        if first is not None:
            br = ast.Module(body=first.body, type_ignores=[])
            for n in ast.walk(br):
                if isinstance(n, ast.Assign) and isinstance(n.targets[0], ast.Tuple) and any(isinstance(e, ast.Starred) for e in n.targets[0].elts):
                    f["bdsmmUnpack"] = _u(n.targets[0]) + " = " + _u(n.value)
                if isinstance(n, ast.GeneratorExp) and isinstance(n.elt, ast.BinOp) and isinstance(n.elt.op, ast.FloorDiv):
                    f["bdsmmRepeatExpr"] = _u(n.elt) + " | " + " ".join(_u(g.target) + " in " + _u(g.iter) for g in n.generators)
                if isinstance(n, ast.ListComp) and "numel" in _u(n.elt):
                    f["bdsmmFactor"] = _u(n)
            for c in _calls(br, "add_"):
                alpha = next((_u(k.value) for k in c.keywords if k.arg == "alpha"), "?")
                f["bdsmmOffsets"].append((_u(c.func.value), alpha, ",".join(_u(a) for a in c.args)))
            for c in _calls(br, "sparse_coo_tensor"):
                if len(c.args) >= 3:
                    f["bdsmmSparse2dSize"] = _u(c.args[2])
            v = _assign_value(br, "dense_2d")
            f["bdsmmDense2d"] = v[0] if v else "?"
            v = _assign_value(br, "res")
            f["bdsmmView"] = " ; ".join(v) if v else "?"
            v = _assign_value(br, "dense")
            f["bdsmmExpandDense"] = v[0] if v else "?"
            v = _assign_value(br, "batch_assignment")
            f["bdsmmAssignment"] = v[-1] if v else "?"
            second = first.orelse[0] if len(first.orelse) == 1 and isinstance(first.orelse[0], ast.If) else None
            if second is not None:
                br2 = ast.Module(body=second.body, type_ignores=[])
                for c in ast.walk(br2):
                    if isinstance(c, ast.Call) and _u(c.func) == "torch.dsmm" and len(c.args) == 2:
                        f["bdsmm2dDense"] = _u(c.args[1])
                v = _assign_value(br2, "res")
                f["bdsmm2dResult"] = " ; ".join(v) if v else "?"
    rp = _func(tree, "sparse_repeat")
    for k in ("repeatLoopIter", "repeatGuard", "repeatFactor", "repeatNewSize", "repeatNewDimsTest"):
        f[k] = "?"
    if rp is not None:
        loop = next((n for n in rp.body if isinstance(n, ast.For)), None)
        if loop is not None:
            f["repeatLoopIter"] = _u(loop.target) + " in " + _u(loop.iter)
            g = next((n for n in loop.body if isinstance(n, ast.If)), None)
            if g is not None:
                f["repeatGuard"] = _u(g.test)
                v = _assign_value(g, "adding_factor")
                if v:
                    f["repeatFactor"] = v[0]
                for c in _calls(g, "sparse_coo_tensor"):
                    if len(c.args) >= 3:
                        f["repeatNewSize"] = _u(c.args[2])
        tests = [n for n in rp.body if isinstance(n, ast.If)]
        if len(tests) >= 2:
            f["repeatNewDimsTest"] = _u(tests[1].test)
    gi = _func(tree, "sparse_getitem")
    for k in ("getitemLoopIter", "getitemNegTest", "getitemNegFix", "getitemIntMask", "getitemSliceMask", "getitemSliceIndices",
              "getitemStepTest", "getitemStartSub", "getitemScalarReturn", "getitemRankTest", "getitemLenTest"):
        f[k] = "?"
    if gi is not None:
        loop = next((n for n in gi.body if isinstance(n, ast.For)), None)
        tests = [n for n in gi.body if isinstance(n, ast.If)]
        for t in tests:
            if "ndimension() <= 2" in _u(t.test) or "ndimension()" in _u(t.test) and "len(" not in _u(t.test):
                f["getitemRankTest"] = _u(t.test)
            if "len(idxs) >" in _u(t.test):
                f["getitemLenTest"] = _u(t.test)
        if loop is not None:
            f["getitemLoopIter"] = _u(loop.target) + " in " + _u(loop.iter)
            top = next((n for n in loop.body if isinstance(n, ast.If)), None)
            if top is not None and "int" in _u(top.test):
                ib = ast.Module(body=top.body, type_ignores=[])
                neg = next((n for n in top.body if isinstance(n, ast.If)), None)
                if neg is not None and len(neg.body) == 1:
                    f["getitemNegTest"] = _u(neg.test)
                    f["getitemNegFix"] = _u(neg.body[0])
                v = _assign_value(ib, "mask")
                f["getitemIntMask"] = v[0] if v else "?"
                for n in ast.walk(ib):
                    if isinstance(n, ast.Return):
                        f["getitemScalarReturn"] = _u(n.value)
                sl = top.orelse[0] if len(top.orelse) == 1 and isinstance(top.orelse[0], ast.If) else None
                if sl is not None and "slice" in _u(sl.test):
                    sb = ast.Module(body=sl.body, type_ignores=[])
                    v = _assign_value(sb, "mask")
                    f["getitemSliceMask"] = v[0] if v else "?"
                    v = _assign_value(sb, "(start, stop, step)") or _assign_value(sb, "start, stop, step")
                    f["getitemSliceIndices"] = v[0] if v else "?"
                    st = next((n for n in sl.body if isinstance(n, ast.If) and any(isinstance(b, ast.Raise) for b in n.body)), None)
                    f["getitemStepTest"] = _u(st.test) if st is not None else "?"
                    subs = _calls(sb, "sub_")
                    f["getitemStartSub"] = _u(subs[0]) if subs else "?"
    return f


def extract_toeplitz(src):
    f = {"tgIndex": "?", "tgTest": "?", "tgNegReturn": "?", "tgPosReturn": "?"}
    fn = _func(ast.parse(src), "toeplitz_getitem")
    if fn is not None:
        v = _assign_value(fn, "index")
        f["tgIndex"] = v[0] if v else "?"
        t = next((n for n in fn.body if isinstance(n, ast.If)), None)
        if t is not None and len(t.body) == 1 and len(t.orelse) == 1 and isinstance(t.body[0], ast.Return) and isinstance(t.orelse[0], ast.Return):
            f["tgTest"] = _u(t.test)
            f["tgNegReturn"] = _u(t.body[0].value)
            f["tgPosReturn"] = _u(t.orelse[0].value)
    return f


def extract_dsmm(src):
    f = {"dsmmBackwardReturn": "?", "dsmmForwardReturn": "?", "dsmmForwardSaves": "?"}
    tree = ast.parse(src)
    bw = _method(tree, "DSMM", "backward")
    fw = _method(tree, "DSMM", "forward")
    if bw is not None:
        r = [n for n in ast.walk(bw) if isinstance(n, ast.Return)]
        if len(r) == 1:
            f["dsmmBackwardReturn"] = _u(r[0].value)
    if fw is not None:
        r = [n for n in ast.walk(fw) if isinstance(n, ast.Return)]
        if len(r) == 1:
            f["dsmmForwardReturn"] = _u(r[0].value)
        v = _assign_value(fw, "ctx.sparse")
        f["dsmmForwardSaves"] = v[0] if v else "?"
    return f


def extract_qr(src):
    """every float literal of stable_qr, as exact rationals from the source text"""
    fn = _func(ast.parse(src), "stable_qr")
    lits = []
    if fn is not None:
        for n in ast.walk(fn):
            if isinstance(n, ast.Constant) and isinstance(n.value, float):
                try:
                    lits.append((n.lineno, n.col_offset, Fraction(ast.unparse(n))))
                except Exception:
                    lits.append((n.lineno, n.col_offset, Fraction(-1)))
    return {"qrFloatLiterals": [v for _, _, v in sorted(lits)]}


def extract():
    rd = lambda rel: open(os.path.join(REPO, rel)).read()  # noqa
    facts = {"inventory": inventory()}
    facts.update(extract_sparse(rd("linear_operator/utils/sparse.py")))
    facts.update(extract_toeplitz(rd("linear_operator/utils/toeplitz.py")))
    facts.update(extract_dsmm(rd("linear_operator/functions/_dsmm.py")))
    facts.update(extract_qr(rd("linear_operator/utils/qr.py")))
    return facts


def render(f):
    def strs(xs):
        return "[" + ", ".join(lean_str(x) for x in xs) + "]"

    def rat(fr):
        return f"(({fr.numerator} : Rat) / {fr.denominator})"
    out = ["-- GENERATED by harness/extract/c20_kernels.py from /repo linear_operator/utils/*.py and functions/_dsmm.py",
           "-- Do not edit: regenerated on every check run.",
           "namespace LinOp.Generated.C20", "",
           "/-- (module, function) of every top-level function / method of the covered modules, in source order -/",
           "def publicFunctions : List (String × String) := [" + ", ".join(f"({lean_str(a)}, {lean_str(b)})" for a, b in f["inventory"]) + "]",
           "", "/-! `bdsmm` -/",
           f"def bdsmmBranchTests : List String := {strs(f['bdsmmBranchTests'])}",
           f"def bdsmmUnpack : String := {lean_str(f['bdsmmUnpack'])}",
           f"def bdsmmRepeatExpr : String := {lean_str(f['bdsmmRepeatExpr'])}",
           f"def bdsmmExpandDense : String := {lean_str(f['bdsmmExpandDense'])}",
           f"def bdsmmFactor : String := {lean_str(f['bdsmmFactor'])}",
           f"def bdsmmAssignment : String := {lean_str(f['bdsmmAssignment'])}",
           "/-- (written tensor, `alpha`, positional args) of every in-place `add_` of the first branch, in source order -/",
           "def bdsmmOffsets : List (String × String × String) := [" + ", ".join(f"({lean_str(a)}, {lean_str(b)}, {lean_str(c)})" for a, b, c in f["bdsmmOffsets"]) + "]",
           f"def bdsmmSparse2dSize : String := {lean_str(f['bdsmmSparse2dSize'])}",
           f"def bdsmmDense2d : String := {lean_str(f['bdsmmDense2d'])}",
           f"def bdsmmView : String := {lean_str(f['bdsmmView'])}",
           f"def bdsmm2dDense : String := {lean_str(f['bdsmm2dDense'])}",
           f"def bdsmm2dResult : String := {lean_str(f['bdsmm2dResult'])}",
           "", "/-! `sparse_repeat` -/",
           f"def repeatNewDimsTest : String := {lean_str(f['repeatNewDimsTest'])}",
           f"def repeatLoopIter : String := {lean_str(f['repeatLoopIter'])}",
           f"def repeatGuard : String := {lean_str(f['repeatGuard'])}",
           f"def repeatFactor : String := {lean_str(f['repeatFactor'])}",
           f"def repeatNewSize : String := {lean_str(f['repeatNewSize'])}",
           "", "/-! `sparse_getitem` -/",
           f"def getitemRankTest : String := {lean_str(f['getitemRankTest'])}",
           f"def getitemLenTest : String := {lean_str(f['getitemLenTest'])}",
           f"def getitemLoopIter : String := {lean_str(f['getitemLoopIter'])}",
           f"def getitemNegTest : String := {lean_str(f['getitemNegTest'])}",
           f"def getitemNegFix : String := {lean_str(f['getitemNegFix'])}",
           f"def getitemIntMask : String := {lean_str(f['getitemIntMask'])}",
           f"def getitemScalarReturn : String := {lean_str(f['getitemScalarReturn'])}",
           f"def getitemSliceIndices : String := {lean_str(f['getitemSliceIndices'])}",
           f"def getitemStepTest : String := {lean_str(f['getitemStepTest'])}",
           f"def getitemSliceMask : String := {lean_str(f['getitemSliceMask'])}",
           f"def getitemStartSub : String := {lean_str(f['getitemStartSub'])}",
           "", "/-! `toeplitz_getitem` -/",
           f"def tgIndex : String := {lean_str(f['tgIndex'])}",
           f"def tgTest : String := {lean_str(f['tgTest'])}",
           f"def tgNegReturn : String := {lean_str(f['tgNegReturn'])}",
           f"def tgPosReturn : String := {lean_str(f['tgPosReturn'])}",
           "", "/-! `DSMM` -/",
           f"def dsmmForwardSaves : String := {lean_str(f['dsmmForwardSaves'])}",
           f"def dsmmForwardReturn : String := {lean_str(f['dsmmForwardReturn'])}",
           f"def dsmmBackwardReturn : String := {lean_str(f['dsmmBackwardReturn'])}",
           "", "/-! `stable_qr`: every float literal, exact -/",
           "def qrFloatLiterals : List Rat := [" + ", ".join(rat(v) for v in f["qrFloatLiterals"]) + "]",
           "", "end LinOp.Generated.C20", ""]
    return "\n".join(out)


def generate():
    f = extract()
    text = render(f)
    path = os.path.join(LEAN, "LinOp", "Generated", "C20Facts.lean")
    if not os.path.exists(path) or open(path).read() != text:
        with open(path, "w") as fh:
            fh.write(text)
    return f


def dynamic_crosscheck(f):
    """the `ast` inventory against the imported modules -> list of mismatch descriptions"""
    import importlib
    import inspect
    bad = []
    names = {"toeplitz": "linear_operator.utils.toeplitz", "interpolation": "linear_operator.utils.interpolation",
             "sparse": "linear_operator.utils.sparse", "permutation": "linear_operator.utils.permutation", "qr": "linear_operator.utils.qr",
             "pinverse": "linear_operator.utils.pinverse", "broadcasting": "linear_operator.utils.broadcasting",
             "_dsmm": "linear_operator.functions._dsmm"}
    inv = set(f["inventory"])
    for short, modname in names.items():
        mod = importlib.import_module(modname)
        for nm, obj in vars(mod).items():
            if inspect.isfunction(obj) and obj.__module__ == modname and (short, nm) not in inv:
                bad.append(f"{modname}.{nm} exists at run time but is not in the ast inventory")
            if inspect.isclass(obj) and obj.__module__ == modname:
                for k, v in vars(obj).items():
                    if (inspect.isfunction(v) or isinstance(v, (staticmethod, classmethod))) and (short, f"{nm}.{k}") not in inv:
                        bad.append(f"{modname}.{nm}.{k} exists at run time but is not in the ast inventory")
        for (m, nm) in inv:
            if m == short:
                obj = mod
                for part in nm.split("."):
                    obj = getattr(obj, part, None)
                if obj is None:
                    bad.append(f"{modname}.{nm} is in the ast inventory but missing at run time")
    return bad


if __name__ == "__main__":
    import json
    print(json.dumps({k: str(v) for k, v in generate().items()}, indent=1))
