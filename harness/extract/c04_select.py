"""Translator for C04: the facts that drive solve-method selection, extracted from /repo's working tree with
`ast` -> lean/LinOp/Generated/C04Select.lean (rewritten only when the text changes).

  * the branch structure of `functions/_solve.py::_solve` and `functions/_inv_quad.py::_solve`
    (isinstance tuple, every `if` test, every returned expression, in source order);
  * the defaults of the settings read on the way (max_cholesky_size, fast solves / log_prob flags,
    cg_tolerance, max_cg_iterations, max_preconditioner_size, min_preconditioning_size);
  * which operator classes define the solve-related hooks (solve, _solve, _cholesky_solve, _cholesky,
    inverse, _solve_preconditioner, _preconditioner, inv_quad, inv_quad_logdet);
  * the stopping-rule constants of `linear_cg` (defaults eps, stop_updating_after; the `min(10, max_iter - 1)` guard);
  * the preconditioner switch of AddedDiagLinearOperator._preconditioner;
  * which `settings._linalg_dtype_*` value every operator method reads (eigen-structured solves <-> symeig dtype).
"""
import ast
import os

from ..common import LEAN, REPO

HOOKS = ("solve", "_solve", "_cholesky_solve", "_cholesky", "inverse", "_solve_preconditioner", "_preconditioner",
         "inv_quad", "inv_quad_logdet", "_inv_matmul")


def lean_str(s):
    return '"' + s.replace("\\", "\\\\").replace('"', '\\"') + '"'


def _func(path, name):
    tree = ast.parse(open(os.path.join(REPO, path)).read())
    for node in tree.body:
        if isinstance(node, ast.FunctionDef) and node.name == name:
            return node
    return None


def _branches(fn):
    """(tests, returns) of a selection function in source order."""
    tests, rets = [], []
    if fn is None:
        return tests, rets
    for node in ast.walk(fn):
        if isinstance(node, ast.If):
            tests.append(ast.unparse(node.test))
    for node in ast.walk(fn):
        if isinstance(node, ast.Return) and node.value is not None:
            rets.append(ast.unparse(node.value))
    # ast.walk is breadth-first: sort by line number for a stable source order
    tests = [t for _, t in sorted((n.lineno, ast.unparse(n.test)) for n in ast.walk(fn) if isinstance(n, ast.If))]
    rets = [t for _, t in sorted((n.lineno, ast.unparse(n.value)) for n in ast.walk(fn)
                                 if isinstance(n, ast.Return) and n.value is not None)]
    return tests, rets


def _settings_defaults():
    tree = ast.parse(open(os.path.join(REPO, "linear_operator/settings.py")).read())
    out = {}
    for node in tree.body:
        if isinstance(node, ast.ClassDef):
            for st in node.body:
                if isinstance(st, ast.Assign):
                    for t in st.targets:
                        if isinstance(t, ast.Name) and t.id in ("_global_value", "_default"):
                            out[node.name] = ast.unparse(st.value)
    fc = {}
    for node in tree.body:
        if isinstance(node, ast.ClassDef) and node.name == "fast_computations":
            for st in node.body:
                if isinstance(st, ast.Assign) and isinstance(st.value, ast.Name):
                    fc[st.targets[0].id] = st.value.id
    return out, fc


def _class_table():
    d = os.path.join(REPO, "linear_operator/operators")
    rows = []
    for fn in sorted(os.listdir(d)):
        if not fn.endswith(".py"):
            continue
        tree = ast.parse(open(os.path.join(d, fn)).read())
        for node in tree.body:
            if isinstance(node, ast.ClassDef):
                defs = [st.name for st in node.body if isinstance(st, ast.FunctionDef) and st.name in HOOKS]
                bases = [ast.unparse(b) for b in node.bases]
                if defs:
                    rows.append((node.name, bases, sorted(set(defs))))
    return sorted(rows)


def _cg_facts():
    fn = _func("linear_operator/utils/linear_cg.py", "linear_cg")
    facts = {"eps": "?", "stop_updating_after": "?", "stop_tests": []}
    if fn is None:
        return facts
    args = fn.args
    names = [a.arg for a in args.args]
    defaults = [None] * (len(names) - len(args.defaults)) + list(args.defaults)
    for n, dflt in zip(names, defaults):
        if n in ("eps", "stop_updating_after", "tolerance", "max_iter") and dflt is not None:
            facts[n] = ast.unparse(dflt)
    for node in ast.walk(fn):
        if isinstance(node, ast.If) and "tolerance" in ast.unparse(node.test) and "residual_norm" in ast.unparse(node.test):
            facts["stop_tests"].append(" ".join(ast.unparse(node.test).split()))
    facts["n_iter"] = next((" ".join(ast.unparse(n.value).split()) for n in ast.walk(fn) if isinstance(n, ast.Assign)
                            and isinstance(n.targets[0], ast.Name) and n.targets[0].id == "n_iter"
                            and isinstance(n.value, ast.IfExp)), "?")
    return facts


def _precond_switch():
    tree = ast.parse(open(os.path.join(REPO, "linear_operator/operators/added_diag_linear_operator.py")).read())
    for node in ast.walk(tree):
        if isinstance(node, ast.FunctionDef) and node.name == "_preconditioner":
            for st in ast.walk(node):
                if isinstance(st, ast.If) and "min_preconditioning_size" in ast.unparse(st.test):
                    return " ".join(ast.unparse(st.test).split())
    return "?"


def _dtype_reads():
    """(class, method, sorted settings._linalg_dtype_* names read) for every operator method reading one."""
    d = os.path.join(REPO, "linear_operator/operators")
    rows = []
    for fn in sorted(os.listdir(d)):
        if not fn.endswith(".py"):
            continue
        tree = ast.parse(open(os.path.join(d, fn)).read())
        for node in tree.body:
            if not isinstance(node, ast.ClassDef):
                continue
            for st in node.body:
                if isinstance(st, ast.FunctionDef):
                    names = sorted({sub.attr for sub in ast.walk(st) if isinstance(sub, ast.Attribute) and sub.attr.startswith("_linalg_dtype")})
                    if names:
                        rows.append((node.name, st.name, names))
    return sorted(rows)


def extract():
    st, sr = _branches(_func("linear_operator/functions/_solve.py", "_solve"))
    it, ir = _branches(_func("linear_operator/functions/_inv_quad.py", "_solve"))
    dflt, fc = _settings_defaults()
    return {"solve_tests": st, "solve_returns": sr, "invquad_tests": it, "invquad_returns": ir, "defaults": dflt,
            "fast": fc, "classes": _class_table(), "cg": _cg_facts(), "precond": _precond_switch(),
            "dtype_reads": _dtype_reads()}


def _nat(s, fallback=0):
    try:
        return str(int(s))
    except Exception:
        return str(fallback)


def generate():
    f = extract()
    d = f["defaults"]
    fast_solves_cls = f["fast"].get("solves", "_fast_solves")
    fast_lp_cls = f["fast"].get("log_prob", "_fast_log_prob")
    out = ["-- GENERATED by harness/extract/c04_select.py from /repo (functions/_solve.py, functions/_inv_quad.py, settings.py,",
           "-- operators/*.py, utils/linear_cg.py).  Do not edit: regenerated on every check run.",
           "namespace LinOp.Generated.C04", "",
           "/-- `if` tests of functions/_solve.py::_solve in source order -/",
           f"def solveTests : List String := [{', '.join(lean_str(x) for x in f['solve_tests'])}]",
           "/-- returned expressions of functions/_solve.py::_solve in source order -/",
           f"def solveReturns : List String := [{', '.join(lean_str(x) for x in f['solve_returns'])}]",
           f"def invQuadTests : List String := [{', '.join(lean_str(x) for x in f['invquad_tests'])}]",
           f"def invQuadReturns : List String := [{', '.join(lean_str(x) for x in f['invquad_returns'])}]", "",
           f"def maxCholeskySizeDefault : Nat := {_nat(d.get('max_cholesky_size'))}",
           f"def fastSolvesDefault : Bool := {'true' if d.get(fast_solves_cls) == 'True' else 'false'}",
           f"def fastLogProbDefault : Bool := {'true' if d.get(fast_lp_cls) == 'True' else 'false'}",
           f"def maxPreconditionerSizeDefault : Nat := {_nat(d.get('max_preconditioner_size'))}",
           f"def minPreconditioningSizeDefault : Nat := {_nat(d.get('min_preconditioning_size'))}",
           f"def maxCgIterationsDefault : Nat := {_nat(d.get('max_cg_iterations'))}",
           f"def cgToleranceDefault : String := {lean_str(str(d.get('cg_tolerance')))}",
           f"def terminateCgBySizeDefault : Bool := {'true' if d.get('terminate_cg_by_size') == 'True' else 'false'}", "",
           f"def cgEps : String := {lean_str(f['cg'].get('eps', '?'))}",
           f"def cgStopUpdatingAfter : String := {lean_str(f['cg'].get('stop_updating_after', '?'))}",
           f"def cgStopTests : List String := [{', '.join(lean_str(x) for x in f['cg']['stop_tests'])}]",
           f"def cgNIter : String := {lean_str(f['cg'].get('n_iter', '?'))}",
           f"def precondSwitch : String := {lean_str(f['precond'])}", "",
           "/-- (class, method, the `settings._linalg_dtype_*` values it reads) for every operator method reading one -/",
           "def linalgDtypeReads : List (String × String × List String) := ["
           + ", ".join(f"({lean_str(c)}, {lean_str(m)}, [{', '.join(lean_str(x) for x in ns)}])" for c, m, ns in f["dtype_reads"]) + "]", "",
           "/-- (class, solve-related hooks it defines) for every operator class defining at least one -/",
           "def hookTable : List (String × List String) := ["]
    rows = [f"  ({lean_str(c)}, [{', '.join(lean_str(h) for h in hs)}])" for c, _, hs in f["classes"]]
    out.append(",\n".join(rows) + "]")
    out += ["", "end LinOp.Generated.C04", ""]
    text = "\n".join(out)
    path = os.path.join(LEAN, "LinOp", "Generated", "C04Select.lean")
    old = open(path).read() if os.path.exists(path) else None
    if old != text:
        with open(path, "w") as fh:
            fh.write(text)
    return f


if __name__ == "__main__":
    import json
    print(json.dumps(generate(), indent=1, default=str))
