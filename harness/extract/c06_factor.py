"""Translator for C06 -> lean/LinOp/Generated/C06Consts.lean (regenerated every run; rewritten only on change).

Extracted with Python `ast` from the working tree (no execution):
  * the table of operator classes that define a factorization hook in their class body
    (`_cholesky`, `cholesky`, `_root_decomposition`, `root_decomposition`, `_root_inv_decomposition`,
    `root_inv_decomposition`, `_symeig`, `_svd`, `diagonalization`, `_root_decomposition_size`, `eigh`, `eigvalsh`, `svd`)
  * `_choose_root_method`: the cache names probed (in order), the comparison against `max_cholesky_size`,
    the feature flag consulted and the two fall-through results
  * the method strings each dispatch chain of `root_decomposition` / `root_inv_decomposition` / `diagonalization` compares against
  * numeric literals: clamp constants in the symeig/svd based (inverse) roots and in `_symeig`, the Lanczos
    thresholds (`tol`, breakdown threshold, re-orthogonalisation rounds), settings defaults
Anything not recognised becomes "?" / -1 so that the Lean obligations over the table fail.
"""
import ast
import os
from fractions import Fraction

from ..common import LEAN, REPO

HOOKS = ["_cholesky", "cholesky", "_root_decomposition", "root_decomposition", "_root_inv_decomposition",
         "root_inv_decomposition", "_symeig", "_svd", "diagonalization", "_root_decomposition_size", "eigh",
         "eigvalsh", "svd"]


def lean_str(s):
    return '"' + str(s).replace("\\", "\\\\").replace('"', '\\"') + '"'


def lean_rat(fr):
    if fr is None:
        return "(-1 : Rat)"
    fr = Fraction(fr)
    return f"({fr.numerator} : Rat)" if fr.denominator == 1 else f"(({fr.numerator} : Rat) / {fr.denominator})"


def _num(node):
    try:
        return Fraction(ast.unparse(node).replace("_", ""))
    except Exception:
        return None


def _classes(path):
    tree = ast.parse(open(path).read())
    return [n for n in tree.body if isinstance(n, ast.ClassDef)], tree


def _method(cls, name):
    for n in cls.body:
        if isinstance(n, ast.FunctionDef) and n.name == name:
            return n
    return None


def override_table():
    d = os.path.join(REPO, "linear_operator", "operators")
    table = []
    for f in sorted(os.listdir(d)):
        if not f.endswith(".py"):
            continue
        classes, _ = _classes(os.path.join(d, f))
        for c in classes:
            hooks = [n.name for n in c.body if isinstance(n, ast.FunctionDef) and n.name in HOOKS]
            if hooks and c.name != "LinearOperator":
                table.append((c.name, sorted(set(hooks), key=HOOKS.index)))
    return sorted(table)


CACHE_NAMES = ["cholesky", "root_decomposition", "root_inv_decomposition", "diagonalization", "svd", "symeig", "lanczos"]


def cache_tables():
    """(cached entries, cache writers) of the factorization caches in operators/*.py.
    entry  = (class, function, cache name, ignore_args, function has a `method` parameter)
    writer = ("Class.function", cache name) for every add_to_cache(<obj>, "<name>", …) call"""
    d = os.path.join(REPO, "linear_operator", "operators")
    entries, writers = [], []
    for f in sorted(os.listdir(d)):
        if not f.endswith(".py"):
            continue
        classes, _ = _classes(os.path.join(d, f))
        for c in classes:
            for fn in c.body:
                if not isinstance(fn, ast.FunctionDef):
                    continue
                for dec in fn.decorator_list:
                    nm, ign = None, False
                    if isinstance(dec, ast.Name) and dec.id == "cached":
                        nm = fn.name
                    elif isinstance(dec, ast.Call) and getattr(dec.func, "id", "") == "cached":
                        nm = fn.name
                        for kw in dec.keywords:
                            if kw.arg == "name" and isinstance(kw.value, ast.Constant):
                                nm = kw.value.value
                            if kw.arg == "ignore_args":
                                ign = bool(getattr(kw.value, "value", True))
                    if nm is not None and (nm in CACHE_NAMES or fn.name in HOOKS):
                        has_m = any(a.arg == "method" for a in fn.args.args + fn.args.kwonlyargs)
                        entries.append((c.name, fn.name, nm, ign, has_m))
                for n in ast.walk(fn):
                    if isinstance(n, ast.Call) and getattr(n.func, "id", "") == "add_to_cache" and len(n.args) >= 2 \
                            and isinstance(n.args[1], ast.Constant) and n.args[1].value in CACHE_NAMES:
                        writers.append((f"{c.name}.{fn.name}", n.args[1].value))
    return sorted(entries), sorted(writers)


def _method_strings(fn):
    """String literals compared with `method ==` in source order."""
    out = []
    for n in ast.walk(fn):
        if isinstance(n, ast.Compare) and isinstance(n.left, ast.Name) and n.left.id == "method" and len(n.ops) == 1 \
                and isinstance(n.ops[0], ast.Eq) and isinstance(n.comparators[0], ast.Constant):
            out.append((n.lineno, n.col_offset, n.comparators[0].value))
    return [s for _, _, s in sorted(out)]


def _clamps(fn):
    out = []
    for n in ast.walk(fn):
        if isinstance(n, ast.Call) and isinstance(n.func, ast.Attribute) and n.func.attr in ("clamp_min", "clamp") and n.args:
            out.append((n.lineno, n.col_offset, _num(n.args[0])))
    return [v for _, _, v in sorted(out)]


def extract():
    ce, cw = cache_tables()
    facts = {"overrides": override_table(), "cachedEntries": ce, "cacheWriters": cw, "probes": [], "sizeCmp": "?", "flag": "?", "small": "?", "large": "?",
             "rootMethods": [], "rootInvMethods": [], "diagMethods": [], "rootClamps": [], "rootInvClamps": [],
             "symeigClamps": [], "lanczosTol": None, "lanczosBreak": None, "lanczosRounds": -1, "lanczosSmallEig": -1,
             "settings": {}, "cholUpperViaTranspose": False, "kronRootInvForwardsMethod": False,
             "pivCholRootReceiver": "?", "postprocessSelect": "?", "postprocessReturn": "?", "postprocessResidual": "?"}
    classes, _ = _classes(os.path.join(REPO, "linear_operator", "operators", "_linear_operator.py"))
    lo = next((c for c in classes if c.name == "LinearOperator"), None)
    if lo is not None:
        ch = _method(lo, "_choose_root_method")
        if ch is not None:
            for st in ch.body:
                if isinstance(st, ast.If):
                    t = st.test
                    if isinstance(t, ast.Call) and getattr(t.func, "id", "") == "_is_in_cache_ignore_all_args":
                        ret = st.body[0].value.value if isinstance(st.body[0], ast.Return) and isinstance(st.body[0].value, ast.Constant) else "?"
                        facts["probes"].append((t.args[1].value if isinstance(t.args[1], ast.Constant) else "?", ret))
                    elif isinstance(t, ast.BoolOp) and isinstance(t.op, ast.Or) and len(t.values) == 2:
                        a, b = t.values
                        if isinstance(a, ast.Compare) and len(a.ops) == 1:
                            facts["sizeCmp"] = f"{ast.unparse(a.left)} {type(a.ops[0]).__name__} {ast.unparse(a.comparators[0])}"
                        facts["flag"] = ast.unparse(b)
                        if isinstance(st.body[0], ast.Return) and isinstance(st.body[0].value, ast.Constant):
                            facts["small"] = st.body[0].value.value
                elif isinstance(st, ast.Return) and isinstance(st.value, ast.Constant):
                    facts["large"] = st.value.value
        for key, name, ck in (("rootMethods", "root_decomposition", "rootClamps"), ("rootInvMethods", "root_inv_decomposition", "rootInvClamps"),
                              ("diagMethods", "diagonalization", None), (None, "_symeig", "symeigClamps")):
            fn = _method(lo, name)
            if fn is None:
                continue
            if key:
                facts[key] = _method_strings(fn)
            if ck:
                facts[ck] = _clamps(fn)
        rd = _method(lo, "root_decomposition")
        if rd is not None:
            # receiver of `.pivoted_cholesky(...)` in the `method == "pivoted_cholesky"` branch: the operator is densified
            # first, so the pivots are chosen from the exact diagonal (`_approx_diagonal` of a dense operator)
            recv = [ast.unparse(n.func.value) for n in ast.walk(rd)
                    if isinstance(n, ast.Call) and isinstance(n.func, ast.Attribute) and n.func.attr == "pivoted_cholesky"]
            facts["pivCholRootReceiver"] = recv[0] if len(recv) == 1 else "?" + "|".join(recv)
        chol = _method(lo, "cholesky")
        if chol is not None:
            src = ast.unparse(chol)
            facts["cholUpperViaTranspose"] = "self._cholesky(upper=False)" in src and "_transpose_nonbatch()" in src
    kclasses, _ = _classes(os.path.join(REPO, "linear_operator", "operators", "kronecker_product_linear_operator.py"))
    kp = next((c for c in kclasses if c.name == "KroneckerProductLinearOperator"), None)
    if kp is not None and _method(kp, "root_inv_decomposition") is not None:
        src = ast.unparse(_method(kp, "root_inv_decomposition"))
        src1 = src.replace(" ", "").replace("\n", "")
        facts["kronRootInvForwardsMethod"] = "method=method)" in src1.split("root_list")[0].split("super().root_inv_decomposition(")[-1] \
            and "lt.root_inv_decomposition(method=method)" in src1
    # lanczos
    ltree = ast.parse(open(os.path.join(REPO, "linear_operator", "utils", "lanczos.py")).read())
    lt = next((n for n in ltree.body if isinstance(n, ast.FunctionDef) and n.name == "lanczos_tridiag"), None)
    if lt is not None:
        names = [a.arg for a in lt.args.args]
        defaults = dict(zip(names[len(names) - len(lt.args.defaults):], lt.args.defaults))
        if "tol" in defaults:
            facts["lanczosTol"] = _num(defaults["tol"])
        for n in ast.walk(lt):
            if isinstance(n, ast.Compare) and "beta_curr.abs()" in ast.unparse(n.left) and isinstance(n.ops[0], ast.Gt):
                facts["lanczosBreak"] = _num(n.comparators[0])
            if isinstance(n, ast.For) and isinstance(n.iter, ast.Call) and getattr(n.iter.func, "id", "") == "range" \
                    and len(n.iter.args) == 1 and isinstance(n.iter.args[0], ast.Constant) and isinstance(n.target, ast.Name) and n.target.id == "_":
                facts["lanczosRounds"] = n.iter.args[0].value
    pp = next((n for n in ltree.body if isinstance(n, ast.FunctionDef) and n.name == "_postprocess_lanczos_root_inv_decomp"), None)
    if pp is not None:
        for n in ast.walk(pp):
            if isinstance(n, ast.Assign) and "best_solve_index" in ast.unparse(n.targets[0]):
                facts["postprocessSelect"] = ast.unparse(n.value)
            if isinstance(n, ast.Assign) and ast.unparse(n.targets[0]) == "inv_root":
                facts["postprocessReturn"] = ast.unparse(n.value)
            if isinstance(n, ast.Assign) and ast.unparse(n.targets[0]) == "residuals" and "norm" in ast.unparse(n.value):
                facts["postprocessResidual"] = ast.unparse(n.value)
    ld = next((n for n in ltree.body if isinstance(n, ast.FunctionDef) and n.name == "lanczos_tridiag_to_diag"), None)
    if ld is not None:
        for n in ast.walk(ld):
            if isinstance(n, ast.Compare) and "t_mat.size(-1)" in ast.unparse(n.left) and isinstance(n.comparators[0], ast.Constant):
                facts["lanczosSmallEig"] = n.comparators[0].value
    # settings defaults
    stree = ast.parse(open(os.path.join(REPO, "linear_operator", "settings.py")).read())
    want = {"max_cholesky_size": "_global_value", "max_root_decomposition_size": "_global_value", "tridiagonal_jitter": "_global_value",
            "cholesky_max_tries": "_global_value", "preconditioner_tolerance": "_global_value"}
    for c in stree.body:
        if isinstance(c, ast.ClassDef) and c.name in want:
            for st in c.body:
                if isinstance(st, ast.Assign) and getattr(st.targets[0], "id", "") == want[c.name]:
                    facts["settings"][c.name] = _num(st.value)
        if isinstance(c, ast.ClassDef) and c.name == "cholesky_jitter":
            for st in c.body:
                if isinstance(st, ast.Assign) and getattr(st.targets[0], "id", "") in ("_global_float_value", "_global_double_value"):
                    facts["settings"]["cholesky_jitter" + st.targets[0].id] = _num(st.value)
        if isinstance(c, ast.ClassDef) and c.name == "_linalg_dtype_symeig":
            for st in c.body:
                if isinstance(st, ast.Assign) and getattr(st.targets[0], "id", "") == "_global_value":
                    facts["settings"]["symeig_dtype"] = ast.unparse(st.value)
    return facts


def render(f):
    L = ["-- GENERATED by harness/extract/c06_factor.py from /repo (operators/*.py, utils/lanczos.py, settings.py)",
         "-- Do not edit: regenerated on every check run.", "namespace LinOp.Generated.C06", ""]
    L.append("/-- classes (other than `LinearOperator`) defining a factorization hook in their body, with the hooks -/")
    L.append("def overrides : List (String × List String) := [")
    L.append(",\n".join("  (" + lean_str(c) + ", [" + ", ".join(lean_str(h) for h in hs) + "])" for c, hs in f["overrides"]))
    L.append("]")
    L.append("/-- `@cached` entries of the factorization caches: (class, function, cache name, ignore_args, has a `method` parameter) -/")
    L.append("def cachedEntries : List (String × String × String × Bool × Bool) := [")
    L.append(",\n".join(f"  ({lean_str(a)}, {lean_str(b)}, {lean_str(c)}, {'true' if d else 'false'}, {'true' if e else 'false'})" for a, b, c, d, e in f["cachedEntries"]))
    L.append("]")
    L.append("/-- `add_to_cache(obj, name, …)` call sites writing a factorization cache: (Class.function, cache name) -/")
    L.append("def cacheWriters : List (String × String) := [" + ", ".join(f"({lean_str(a)}, {lean_str(b)})" for a, b in f["cacheWriters"]) + "]")
    L.append("/-- `_choose_root_method`: (cache name probed, method returned), in source order -/")
    L.append("def probes : List (String × String) := [" + ", ".join(f"({lean_str(a)}, {lean_str(b)})" for a, b in f["probes"]) + "]")
    L.append(f"def sizeCmp : String := {lean_str(f['sizeCmp'])}")
    L.append(f"def flag : String := {lean_str(f['flag'])}")
    L.append(f"def smallMethod : String := {lean_str(f['small'])}")
    L.append(f"def largeMethod : String := {lean_str(f['large'])}")
    for k in ("rootMethods", "rootInvMethods", "diagMethods"):
        L.append(f"def {k} : List String := [" + ", ".join(lean_str(s) for s in f[k]) + "]")
    for k in ("rootClamps", "rootInvClamps", "symeigClamps"):
        L.append(f"def {k} : List Rat := [" + ", ".join(lean_rat(v) for v in f[k]) + "]")
    L.append(f"def lanczosTol : Rat := {lean_rat(f['lanczosTol'])}")
    L.append(f"def lanczosBreak : Rat := {lean_rat(f['lanczosBreak'])}")
    L.append(f"def lanczosRounds : Int := {f['lanczosRounds']}")
    L.append(f"def lanczosSmallEig : Int := {f['lanczosSmallEig']}")
    s = f["settings"]
    L.append(f"def maxCholeskySize : Rat := {lean_rat(s.get('max_cholesky_size'))}")
    L.append(f"def maxRootDecompositionSize : Rat := {lean_rat(s.get('max_root_decomposition_size'))}")
    L.append(f"def tridiagonalJitter : Rat := {lean_rat(s.get('tridiagonal_jitter'))}")
    L.append(f"def choleskyMaxTries : Rat := {lean_rat(s.get('cholesky_max_tries'))}")
    L.append(f"def preconditionerTolerance : Rat := {lean_rat(s.get('preconditioner_tolerance'))}")
    L.append(f"def choleskyJitterFloat : Rat := {lean_rat(s.get('cholesky_jitter_global_float_value'))}")
    L.append(f"def choleskyJitterDouble : Rat := {lean_rat(s.get('cholesky_jitter_global_double_value'))}")
    L.append(f"def symeigDtype : String := {lean_str(s.get('symeig_dtype', '?'))}")
    L.append(f"def cholUpperViaTranspose : Bool := {'true' if f['cholUpperViaTranspose'] else 'false'}")
    L.append(f"def kronRootInvForwardsMethod : Bool := {'true' if f['kronRootInvForwardsMethod'] else 'false'}")
    L.append("/-- receiver of `.pivoted_cholesky(…)` in `LinearOperator.root_decomposition` -/")
    L.append(f"def pivCholRootReceiver : String := {lean_str(f['pivCholRootReceiver'])}")
    L.append("/-- `_postprocess_lanczos_root_inv_decomp`: residual, selection and returned expression -/")
    L.append(f"def postprocessResidual : String := {lean_str(f['postprocessResidual'])}")
    L.append(f"def postprocessSelect : String := {lean_str(f['postprocessSelect'])}")
    L.append(f"def postprocessReturn : String := {lean_str(f['postprocessReturn'])}")
    L += ["", "end LinOp.Generated.C06", ""]
    return "\n".join(L)


def generate():
    facts = extract()
    text = render(facts)
    path = os.path.join(LEAN, "LinOp", "Generated", "C06Consts.lean")
    old = open(path).read() if os.path.exists(path) else None
    if old != text:
        with open(path, "w") as fh:
            fh.write(text)
    return facts


if __name__ == "__main__":
    import json
    print(json.dumps(generate(), indent=1, default=str))
