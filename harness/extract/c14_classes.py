"""Translator for C14 (1): constructor layouts of every operator class -> lean/LinOp/Generated/C14Classes.lean.

For each class in linear_operator/operators/*.py the `__init__` that runs is located along the (C3) MRO, the chain of
`super().__init__(...)` / `super(X, self).__init__(...)` / `LinearOperator.__init__(self, ...)` calls is followed
symbolically down to `LinearOperator.__init__(*args, **kwargs)`, and every constructor parameter is classified:
  stored positionally | stored as keyword (same name) | forwarded **kwargs | hidden (only kept as an attribute,
  never reaches `_args`/`_kwargs`, so every copy / rebuild resets it) | consumed (used and dropped).
Regenerated from /repo's working tree on every run (file rewritten only when content changes)."""
import ast
import os

from ..common import LEAN, REPO

OPDIR = "linear_operator/operators"
BASE = "LinearOperator"


def lean_str(s):
    return '"' + s.replace("\\", "\\\\").replace('"', '\\"') + '"'


def c3(name, bases_of, memo):
    if name in memo:
        return memo[name]
    bases = [b for b in bases_of.get(name, []) if b in bases_of]
    seqs = [list(c3(b, bases_of, memo)) for b in bases] + [list(bases)]
    res = [name]
    while any(seqs):
        for s in seqs:
            if not s:
                continue
            cand = s[0]
            if not any(cand in t[1:] for t in seqs):
                break
        else:
            raise RuntimeError("inconsistent MRO for " + name)
        res.append(cand)
        for s in seqs:
            if s and s[0] == cand:
                del s[0]
    memo[name] = res
    return res


def parse_classes():
    classes = {}
    for fn in sorted(os.listdir(os.path.join(REPO, OPDIR))):
        if not fn.endswith(".py"):
            continue
        tree = ast.parse(open(os.path.join(REPO, OPDIR, fn)).read())
        for node in tree.body:
            if isinstance(node, ast.ClassDef):
                bases = [b.id if isinstance(b, ast.Name) else ast.unparse(b) for b in node.bases]
                init = next((st for st in node.body if isinstance(st, ast.FunctionDef) and st.name == "__init__"), None)
                overrides = sorted(st.name for st in node.body if isinstance(st, ast.FunctionDef)
                                   and st.name in ("to", "type", "clone", "detach", "cpu", "double", "float", "half", "dtype", "device",
                                                   "representation", "representation_tree", "_set_requires_grad", "evaluate_kernel",
                                                   "requires_grad", "detach_"))
                classes[node.name] = {"name": node.name, "bases": bases, "init": init, "file": fn, "overrides": overrides}
    return classes


def const_val(node):
    """default expression -> ('int', i) | ('bool', b) | ('none',) | ('ints', [...]) | ('dt', tag) | ('str', src)"""
    src = ast.unparse(node)
    if isinstance(node, ast.Constant):
        if node.value is None:
            return ("none",)
        if isinstance(node.value, bool):
            return ("bool", node.value)
        if isinstance(node.value, int):
            return ("int", node.value)
    if isinstance(node, ast.UnaryOp) and isinstance(node.op, ast.USub) and isinstance(node.operand, ast.Constant) \
            and isinstance(node.operand.value, int):
        return ("int", -node.operand.value)
    if isinstance(node, ast.Tuple) and all(isinstance(e, ast.Constant) and isinstance(e.value, int) for e in node.elts):
        return ("ints", [e.value for e in node.elts])
    if isinstance(node, ast.Call) and ast.unparse(node.func) == "torch.Size" and len(node.args) == 1 \
            and isinstance(node.args[0], (ast.Tuple, ast.List)):
        return ("ints", [e.value for e in node.args[0].elts])
    if src in ("torch.float", "torch.float32"):
        return ("dt", "f32")
    if src in ("torch.double", "torch.float64"):
        return ("dt", "f64")
    return ("str", src)


def signature(init):
    a = init.args
    pos = [x.arg for x in a.posonlyargs + a.args][1:]  # drop self
    ndef = len(a.defaults)
    defaults = {}
    for name, d in zip(pos[len(pos) - ndef:], a.defaults):
        defaults[name] = const_val(d)
    kwonly = [x.arg for x in a.kwonlyargs]
    for name, d in zip(kwonly, a.kw_defaults):
        if d is not None:
            defaults[name] = const_val(d)
    return {"pos": pos, "vararg": a.vararg.arg if a.vararg else None, "kwonly": kwonly,
            "varkw": a.kwarg.arg if a.kwarg else None, "defaults": defaults}


def find_super_call(init):
    """Return (kind, X, call) for the first call of the form super().__init__ / super(X, self).__init__ / Base.__init__(self, ..)."""
    for sub in ast.walk(init):
        if isinstance(sub, ast.Call) and isinstance(sub.func, ast.Attribute) and sub.func.attr == "__init__":
            v = sub.func.value
            if isinstance(v, ast.Call) and isinstance(v.func, ast.Name) and v.func.id == "super":
                if v.args:
                    return ("after", v.args[0].id if isinstance(v.args[0], ast.Name) else ast.unparse(v.args[0]), sub)
                return ("after", None, sub)
            if isinstance(v, ast.Name):
                return ("direct", v.id, sub)
    return None


def sym_of(expr, env):
    """symbolic value of a call argument in terms of the *outermost* constructor parameters"""
    if isinstance(expr, ast.Name):
        return env.get(expr.id, ("opaque", expr.id))
    if isinstance(expr, ast.Call) and isinstance(expr.func, ast.Name) and expr.func.id == "to_linear_operator" \
            and len(expr.args) == 1:
        return sym_of(expr.args[0], env)
    return ("opaque", ast.unparse(expr))


def layout_of(cname, classes, memo):
    mro = c3(cname, {k: v["bases"] for k, v in classes.items()}, memo)
    issues = []
    owner = next((k for k in mro if classes[k]["init"] is not None), None)
    if owner is None or owner == BASE:
        return None, mro, ["abstract: inherits LinearOperator.__init__"]
    sig = signature(classes[owner]["init"])
    # symbolic environment of the outermost __init__
    env = {p: ("param", p) for p in sig["pos"] + sig["kwonly"]}
    if sig["vararg"]:
        env[sig["vararg"]] = ("star", sig["vararg"])
    if sig["varkw"]:
        env[sig["varkw"]] = ("kwdict", [], True)  # (explicit pairs, carries the caller's **kwargs)
    cur = owner
    hidden_sources = [classes[owner]["init"]]
    final_pos, final_kw, final_varkw = None, None, False
    for _ in range(12):
        if cur == BASE:
            # LinearOperator.__init__(self, *args, **kwargs): env holds args / kwargs
            final_pos = env.get("args", ("starlist", []))[1]
            kd = env.get("kwargs", ("kwdict", [], False))
            final_kw, final_varkw = kd[1], kd[2]
            break
        init = classes[cur]["init"]
        sc = find_super_call(init)
        if sc is None:
            issues.append(f"{cur}.__init__ does not call a base __init__")
            break
        kind, X, call = sc
        if kind == "direct":
            nxt = X
            args = call.args[1:]
        else:
            start = X or cur
            if start not in mro:
                issues.append(f"super({start}, self) not in MRO of {cname}")
                break
            nxt = next((k for k in mro[mro.index(start) + 1:] if classes[k]["init"] is not None), None)
            args = call.args
        if nxt is None:
            issues.append(f"no base __init__ after {cur}")
            break
        pos_syms, kw_syms, star_kw = [], [], False
        for a in args:
            if isinstance(a, ast.Starred):
                s = sym_of(a.value, env)
                if s[0] == "star":
                    pos_syms.append(s)
                elif s[0] == "starlist":
                    pos_syms += s[1]
                else:
                    pos_syms.append(("opaque", ast.unparse(a)))
            else:
                pos_syms.append(sym_of(a, env))
        for k in call.keywords:
            if k.arg is None:
                s = sym_of(k.value, env)
                if s[0] == "kwdict":
                    kw_syms += s[1]
                    star_kw = star_kw or s[2]
                else:
                    star_kw = True  # a dict derived from the caller's **kwargs (e.g. tensor_params / nontensor_params)
            else:
                kw_syms.append((k.arg, sym_of(k.value, env)))
        # bind to the next __init__
        if nxt == BASE:
            env = {"args": ("starlist", pos_syms), "kwargs": ("kwdict", kw_syms, star_kw)}
        else:
            nsig = signature(classes[nxt]["init"])
            hidden_sources.append(classes[nxt]["init"])
            nenv = {}
            names = list(nsig["pos"])
            rest = list(pos_syms)
            # a `*x` symbol swallows the remaining named parameters only if it comes first; our classes never mix
            while names and rest and rest[0][0] != "star":
                nenv[names.pop(0)] = rest.pop(0)
            if nsig["vararg"]:
                nenv[nsig["vararg"]] = ("starlist", rest)
            elif rest:
                issues.append(f"{nxt}.__init__ receives extra positionals from {cur}")
            extra = []
            for k, s in kw_syms:
                if k in nsig["pos"] or k in nsig["kwonly"]:
                    nenv[k] = s
                else:
                    extra.append((k, s))
            for p in nsig["pos"] + nsig["kwonly"]:
                if p not in nenv:
                    nenv[p] = ("default", nsig["defaults"].get(p, ("str", "<required>")))
            if nsig["varkw"]:
                nenv[nsig["varkw"]] = ("kwdict", extra, star_kw)
            elif extra or star_kw:
                issues.append(f"{nxt}.__init__ receives extra keywords from {cur}")
            env = nenv
        cur = nxt
    if final_pos is None:
        return None, mro, issues or ["chain did not reach LinearOperator.__init__"]
    # classify the outermost parameters
    stored_pos, vararg = [], False
    for s in final_pos:
        if s[0] == "param":
            stored_pos.append(s[1])
        elif s[0] == "star":
            vararg = True
        else:
            issues.append(f"opaque positional {s}")
    if stored_pos != sig["pos"][:len(stored_pos)]:
        issues.append(f"stored positionals {stored_pos} are not a prefix of the parameters {sig['pos']}")
    if vararg and stored_pos:
        issues.append("named positionals mixed with *args")
    kw_stored = []
    for k, s in final_kw:
        if s[0] == "param" and s[1] == k:
            kw_stored.append(k)
        else:
            issues.append(f"keyword {k} forwarded from {s}")
    forwarded = set(stored_pos) | set(kw_stored)
    hidden, consumed = [], []
    for p in sig["pos"] + sig["kwonly"]:
        if p in forwarded:
            continue
        kept = False
        for init in hidden_sources[:1]:
            for sub in ast.walk(init):
                if isinstance(sub, ast.Assign) and any(isinstance(t, ast.Attribute) and isinstance(t.value, ast.Name)
                                                       and t.value.id == "self" for t in sub.targets):
                    if any(isinstance(n, ast.Name) and n.id == p for n in ast.walk(sub.value)):
                        kept = True
        (hidden if kept else consumed).append(p)
    lay = {"name": cname, "owner": owner, "npos": len(stored_pos), "vararg": vararg, "posNames": sig["pos"],
           "kwStored": [(k, sig["defaults"].get(k)) for k in kw_stored], "varkw": bool(final_varkw and sig["varkw"]),
           "hidden": [(h, sig["defaults"].get(h, ("none",))) for h in hidden], "consumed": consumed,
           "kwonly": sig["kwonly"], "defaults": sig["defaults"], "sig_vararg": sig["vararg"], "sig_varkw": sig["varkw"],
           "overrides": classes[cname]["overrides"]}
    return lay, mro, issues


def lean_val(v):
    if v is None:
        return "none"
    return "(some " + lean_val1(v) + ")"


def lean_val1(v):
    k = v[0]
    if k == "int":
        return f"(.int ({v[1]}))"
    if k == "bool":
        return f"(.bool {'true' if v[1] else 'false'})"
    if k == "none":
        return ".none"
    if k == "ints":
        return "(.ints [" + ", ".join(str(i) for i in v[1]) + "])"
    if k == "dt":
        return f"(.dt .{v[1]})"
    return f"(.str {lean_str(v[1])})"


def extract():
    classes = parse_classes()
    memo = {}
    layouts, issues, mros = [], {}, {}
    for cname in sorted(classes):
        if cname == BASE or cname.startswith("_") or cname == "LinearOperatorRepresentationTree":
            continue
        if BASE not in c3(cname, {k: v["bases"] for k, v in classes.items()}, memo):
            continue
        lay, mro, iss = layout_of(cname, classes, memo)
        mros[cname] = mro
        if lay is None:
            if not iss[0].startswith("abstract"):
                issues[cname] = iss
            continue
        if iss:
            issues[cname] = iss
        layouts.append(lay)
    return layouts, issues, mros


def generate():
    layouts, issues, mros = extract()
    out = ["-- GENERATED by harness/extract/c14_classes.py from /repo linear_operator/operators/*.py",
           "-- Do not edit: regenerated on every check run.",
           "import LinOp.C14.Model", "namespace LinOp.Generated.C14", "open LinOp.C14", "",
           "/-- (class, layout of its constructor down to `LinearOperator.__init__`) -/",
           "def classes : List (String × Layout) := ["]
    rows = []
    for L in layouts:
        kws = ", ".join(f"({lean_str(k)}, {lean_val(d)})" for k, d in L["kwStored"])
        hid = ", ".join(f"({lean_str(k)}, {lean_val1(d)})" for k, d in L["hidden"])
        rows.append(f"  ({lean_str(L['name'])}, ⟨{L['npos']}, {'true' if L['vararg'] else 'false'}, "
                    f"[{', '.join(lean_str(p) for p in L['posNames'])}], [{kws}], {'true' if L['varkw'] else 'false'}, "
                    f"[{hid}], [{', '.join(lean_str(c) for c in L['consumed'])}]⟩)")
    out.append(",\n".join(rows) + "]")
    out += ["", "/-- classes whose constructor chain the translator could not express as a layout (with the reason) -/",
            "def issues : List (String × String) := ["]
    out.append(",\n".join(f"  ({lean_str(c)}, {lean_str('; '.join(v))})" for c, v in sorted(issues.items())) + "]")
    out += ["", "/-- conversion / copy methods overridden per class -/",
            "def overrides : List (String × List String) := ["]
    out.append(",\n".join(f"  ({lean_str(L['name'])}, [{', '.join(lean_str(o) for o in L['overrides'])}])"
                          for L in layouts if L["overrides"]) + "]")
    out += ["", "/-- classes defined by the harness itself (a minimal user subclass with operator- and tensor-valued keyword",
            "arguments: `super().__init__(base, extra_op=extra_op, scale=scale, index=index, mask=mask)`), so that the driver can rebuild them -/",
            "def harnessClasses : List (String × Layout) := [",
            '  ("UserWrapLinearOperator", ⟨1, false, ["base", "extra_op", "scale", "index", "mask"], [("extra_op", (some .none)), ("scale", (some .none)), ("index", (some .none)), ("mask", (some .none))], false, [], []⟩)]']
    guard = False
    base_src = ast.parse(open(os.path.join(REPO, OPDIR, "_linear_operator.py")).read())
    for node in base_src.body:
        if isinstance(node, ast.ClassDef) and node.name == BASE:
            for st in node.body:
                if isinstance(st, ast.FunctionDef) and st.name == "to":
                    guard = any(isinstance(n, ast.Attribute) and n.attr == "is_floating_point" for n in ast.walk(st))
    out += ["", "/-- `LinearOperator.to` tests `is_floating_point` before casting a tensor (false: it casts every tensor) -/",
            f"def baseToGuardsKind : Bool := {'true' if guard else 'false'}"]
    out += ["", "def layoutOf (c : String) : Option Layout := ((classes ++ harnessClasses).find? (·.1 = c)).map (·.2)", "",
            "end LinOp.Generated.C14", ""]
    text = "\n".join(out)
    path = os.path.join(LEAN, "LinOp", "Generated", "C14Classes.lean")
    if not os.path.exists(path) or open(path).read() != text:
        with open(path, "w") as fh:
            fh.write(text)
    return layouts, issues, mros


if __name__ == "__main__":
    lays, iss, _ = generate()
    for L in lays:
        print(L["name"], L["npos"], L["vararg"], L["posNames"], L["kwStored"], L["varkw"], "hidden", L["hidden"], "consumed", L["consumed"], L["overrides"])
    print(iss)
