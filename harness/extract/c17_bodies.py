"""Translator for C17 (session 5): method bodies of settings.py's context classes -> lean/LinOp/Generated/C17Bodies.lean.

For the three base classes (`_feature_flag`, `_value_context`, `_dtype_value_context`) and for every setting class that
defines one of the protocol methods itself (today: `deterministic_probes._set_state`), the statement list of
`__init__` / `__enter__` / `__exit__` / `_set_state` / `_set_value` is translated from the Python `ast` into the IR of
`lean/LinOp/C17/IR.lean`; anything the translator does not recognise becomes `Stmt.other "<source>"`, which can never be equal
to a canonical body.  Reader methods (`value`, `on`, `off`, `is_default`) and the composite classes' methods are emitted as
normalised source text (`ast.unparse`, docstrings and comments dropped).  Regenerated from /repo's working tree on every run.
"""
import ast
import os

from ..common import LEAN, REPO

BASES = ("_feature_flag", "_value_context", "_dtype_value_context")
PROTOCOL = ("_set_value", "_set_state", "__init__", "__enter__", "__exit__")
READERS = ("value", "is_default", "on", "off")

G = {"_state": "a", "_global_value": "a", "_global_float_value": "a", "_global_double_value": "b",
     "_global_half_value": "c", "probe_vectors": "b"}
SAVED = {"prev": "a", "_orig_value": "a", "_orig_float_value": "a", "_orig_double_value": "b", "_orig_half_value": "c"}
INST = {"state": "a", "_instance_value": "a", "_instance_float_value": "a", "_instance_double_value": "b",
        "_instance_half_value": "c"}
DTYPES = {"torch.float": "a", "torch.double": "b", "torch.half": "c"}
SLOTS = "abc"


def lean_str(s):
    return '"' + s.replace("\\", "\\\\").replace('"', '\\"').replace("\n", "\\n") + '"'


def _is_cls(e, first):
    """`cls` (in a classmethod) or `self.__class__`."""
    if isinstance(e, ast.Name) and e.id == "cls" and first == "cls":
        return True
    return (isinstance(e, ast.Attribute) and e.attr == "__class__" and isinstance(e.value, ast.Name)
            and e.value.id == "self" and first == "self")


def _loc(e, first, params):
    if isinstance(e, ast.Attribute):
        if _is_cls(e.value, first) and e.attr in G:
            return f"Loc.g Slot.{G[e.attr]}"
        if isinstance(e.value, ast.Name) and e.value.id == "self" and first == "self":
            if e.attr in SAVED:
                return f"Loc.saved Slot.{SAVED[e.attr]}"
            if e.attr in INST:
                return f"Loc.inst Slot.{INST[e.attr]}"
    if isinstance(e, ast.Name) and e.id in params and params.index(e.id) < 3:
        return f"Loc.arg Slot.{SLOTS[params.index(e.id)]}"
    return None


def _expr(e, first, params):
    if isinstance(e, ast.Constant) and e.value is None:
        return "Expr.none"
    if isinstance(e, ast.Constant) and e.value is False:
        return "Expr.falseLit"
    if isinstance(e, ast.Call) and isinstance(e.func, ast.Attribute) and e.func.attr == "value" and _is_cls(e.func.value, first):
        if not e.args and not e.keywords:
            return "Expr.valueOf Slot.a"
        if not e.args and len(e.keywords) == 1 and e.keywords[0].arg == "dtype" and ast.unparse(e.keywords[0].value) in DTYPES:
            return f"Expr.valueOf Slot.{DTYPES[ast.unparse(e.keywords[0].value)]}"
        if len(e.args) == 1 and not e.keywords and ast.unparse(e.args[0]) in DTYPES:
            return f"Expr.valueOf Slot.{DTYPES[ast.unparse(e.args[0])]}"
        return None
    l = _loc(e, first, params)
    return None if l is None else f"Expr.loc ({l})"


def _stmt(st, first, params):
    other = f"Stmt.other {lean_str(ast.unparse(st))}"
    if isinstance(st, ast.Assign) and len(st.targets) == 1:
        dst, e = _loc(st.targets[0], first, params), _expr(st.value, first, params)
        if dst is not None and e is not None and not dst.startswith("Loc.arg"):
            return f"Stmt.assign ({dst}) ({e})"
        return other
    if isinstance(st, ast.If) and not st.orelse and len(st.body) == 1 and isinstance(st.test, ast.Compare) \
            and len(st.test.ops) == 1 and isinstance(st.test.ops[0], ast.IsNot) \
            and isinstance(st.test.comparators[0], ast.Constant) and st.test.comparators[0].value is None:
        src = _loc(st.test.left, first, params)
        b = st.body[0]
        if src is not None and isinstance(b, ast.Assign) and len(b.targets) == 1:
            dst, vsrc = _loc(b.targets[0], first, params), _loc(b.value, first, params)
            if dst is not None and vsrc == src:
                return f"Stmt.assignIfNotNone ({dst}) ({src})"
        return other
    if isinstance(st, ast.Expr) and isinstance(st.value, ast.Call) and isinstance(st.value.func, ast.Attribute) \
            and st.value.func.attr in ("_set_state", "_set_value") and not st.value.keywords:
        args = [_expr(a, first, params) for a in st.value.args]
        if all(a is not None for a in args):
            tgt = st.value.func.value
            if _is_cls(tgt, first):
                return f"Stmt.callSetter [{', '.join(args)}]"
            if isinstance(tgt, ast.Call) and isinstance(tgt.func, ast.Name) and tgt.func.id == "super" and not tgt.args:
                return f"Stmt.callSuperSetter [{', '.join(args)}]"
        return other
    if isinstance(st, ast.Return) and st.value is not None:
        e = _expr(st.value, first, params)
        if e is not None:
            return f"Stmt.ret ({e})"
    return other


def _is_doc(st):
    return isinstance(st, ast.Expr) and isinstance(st.value, ast.Constant) and isinstance(st.value.value, str)


def _params(fn):
    a = fn.args
    names = [x.arg for x in a.posonlyargs + a.args]
    texts = []
    pos = a.posonlyargs + a.args
    defaults = [None] * (len(pos) - len(a.defaults)) + list(a.defaults)
    for x, d in zip(pos, defaults):
        texts.append(x.arg if d is None else f"{x.arg}={ast.unparse(d)}")
    if a.vararg:
        texts.append("*" + a.vararg.arg)
    for x, d in zip(a.kwonlyargs, a.kw_defaults):
        texts.append(x.arg if d is None else f"{x.arg}={ast.unparse(d)}")
    if a.kwarg:
        texts.append("**" + a.kwarg.arg)
    return names, texts


def extract():
    """-> (methods, readers, composite_methods); each a list of (class, method, params_text, body)."""
    methods, readers, comps = [], [], []
    for fn in ("linear_operator/settings.py", "linear_operator/beta_features.py"):
        tree = ast.parse(open(os.path.join(REPO, fn)).read())
        for node in tree.body:
            if not isinstance(node, ast.ClassDef):
                continue
            bases = [b.id if isinstance(b, ast.Name) else ast.unparse(b) for b in node.bases]
            is_setting = node.name in BASES or any(b in BASES for b in bases)
            defs = [st for st in node.body if isinstance(st, (ast.FunctionDef, ast.AsyncFunctionDef))]
            is_comp = (not is_setting) and {"__enter__", "__exit__", "__init__"} <= {d.name for d in defs}
            for d in defs:
                names, texts = _params(d)
                first = names[0] if names else ""
                decos = [ast.unparse(x) for x in d.decorator_list]
                body = [st for st in d.body if not _is_doc(st)]
                if is_setting and d.name in PROTOCOL:
                    ok_deco = decos == (["classmethod"] if d.name.startswith("_set") else [])
                    stmts = [_stmt(st, first, names[1:]) for st in body]
                    if not ok_deco or first != ("cls" if d.name.startswith("_set") else "self"):
                        stmts.append(f"Stmt.other {lean_str('decorators/first parameter: ' + ','.join(decos) + ' ' + first)}")
                    methods.append((node.name, d.name, texts[1:], stmts))
                elif is_setting:
                    readers.append((node.name, d.name, ["@" + x for x in decos] + texts, [ast.unparse(st) for st in body]))
                elif is_comp:
                    comps.append((node.name, d.name, texts, [ast.unparse(st) for st in body]))
    return methods, readers, comps


def generate():
    methods, readers, comps = extract()
    out = ["-- GENERATED by harness/extract/c17_bodies.py from /repo linear_operator/settings.py, beta_features.py",
           "-- Do not edit: regenerated on every check run.",
           "import LinOp.C17.IR",
           "namespace LinOp.Generated.C17",
           "open LinOp.C17 LinOp.C17.IR", "",
           "def methods : List Method := ["]
    rows = []
    for c, m, ps, body in methods:
        rows.append(f"  ⟨{lean_str(c)}, {lean_str(m)}, [{', '.join(map(lean_str, ps))}],\n    [" + ",\n     ".join(body) + "]⟩")
    out.append(",\n".join(rows) + "]")
    for name, table in (("readers", readers), ("compositeMethods", comps)):
        out += ["", f"def {name} : List (String × String × List String × List String) := ["]
        rows = []
        for c, m, ps, body in table:
            rows.append(f"  ({lean_str(c)}, {lean_str(m)}, [{', '.join(map(lean_str, ps))}], [{', '.join(map(lean_str, body))}])")
        out.append(",\n".join(rows) + "]")
    out += ["", "end LinOp.Generated.C17", ""]
    text = "\n".join(out)
    path = os.path.join(LEAN, "LinOp", "Generated", "C17Bodies.lean")
    if not os.path.exists(path) or open(path).read() != text:
        with open(path, "w") as fh:
            fh.write(text)
    return methods, readers, comps


if __name__ == "__main__":
    for t in generate():
        for row in t:
            print(row)
