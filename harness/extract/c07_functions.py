"""C07 translator: Python `ast` of /repo -> lean/LinOp/Generated/C07Funcs.lean.

Two tables, regenerated on every run:

* `funcs` — for every autograd Function of linear_operator/functions/*.py: the number of named positional parameters of
  `forward` (after ctx), whether it takes *args, for every tuple-returning `return` of `backward` the number of LEADING FIXED
  entries (before the first variable-length part; a returned local name is resolved through its assignments in `backward`)
  and how many of them are literal `None`; whether the forward stores `ctx._linear_op` under `settings.memory_efficient.off()`,
  whether the backward uses `ctx._linear_op if hasattr(ctx, "_linear_op") else ctx.representation_tree(*...)`, whether it
  rebuilds unconditionally, whether the forward keeps `ctx.linear_op` unconditionally, the number of `_bilinear_derivative`
  calls in `backward`, and where `settings.skip_logdet_forward` is read.
* `providers` — for every class of linear_operator/operators/*.py: the class whose `_bilinear_derivative` it resolves to
  (left-to-right depth-first through the bases named in the source; cross-checked against the run-time MRO by the check).
"""
import ast
import os

from ..common import LEAN, REPO

FUNC_FILES = ["_matmul.py", "_solve.py", "_inv_quad.py", "_inv_quad_logdet.py", "_root_decomposition.py", "_diagonalization.py",
              "_pivoted_cholesky.py", "_sqrt_inv_matmul.py", "_dsmm.py"]


def lean_str(s):
    return '"' + s.replace("\\", "\\\\").replace('"', '\\"') + '"'


def _attr_chain(node):
    parts = []
    while isinstance(node, ast.Attribute):
        parts.append(node.attr)
        node = node.value
    if isinstance(node, ast.Name):
        parts.append(node.id)
    return ".".join(reversed(parts))


def _leading(expr, assigns, depth=0):
    """Returns a set of (leading_fixed, leading_none, closed) alternatives for a tuple/list-valued expression.
    closed = the whole expression has fixed length (no variable-length part met)."""
    if depth > 4:
        return {(0, 0, False)}
    if isinstance(expr, ast.Call) and isinstance(expr.func, ast.Name) and expr.func.id == "tuple" and len(expr.args) == 1:
        return _leading(expr.args[0], assigns, depth)
    if isinstance(expr, (ast.List, ast.Tuple)):
        k = nn = 0
        still_none = True
        for e in expr.elts:
            if isinstance(e, ast.Starred):
                return {(k, nn, False)}
            k += 1
            if still_none and isinstance(e, ast.Constant) and e.value is None:
                nn += 1
            else:
                still_none = False
        return {(k, nn, True)}
    if isinstance(expr, ast.BinOp) and isinstance(expr.op, ast.Mult) and isinstance(expr.left, ast.List) \
            and isinstance(expr.right, ast.Constant) and isinstance(expr.right.value, int):
        res = set()
        for (k, nn, cl) in _leading(expr.left, assigns, depth):
            c = expr.right.value
            res.add((k * c, nn * c if nn == k else nn, cl))
        return res
    if isinstance(expr, ast.BinOp) and isinstance(expr.op, ast.Add):
        res = set()
        for (k, nn, cl) in _leading(expr.left, assigns, depth):
            if not cl:
                res.add((k, nn, False))
                continue
            for (k2, nn2, cl2) in _leading(expr.right, assigns, depth):
                res.add((k + k2, nn + nn2 if nn == k else nn, cl2))
        return res
    if isinstance(expr, ast.Name) and expr.id in assigns:
        res = set()
        for e in assigns[expr.id]:
            res |= _leading(e, assigns, depth + 1)
        return res
    return {(0, 0, False)}  # list(...), comprehension, call: variable length


def _func_info(cls):
    info = {"name": cls.name, "fwdFixed": 0, "fwdVarargs": False, "bwdLeading": [], "bwdLeadingNone": [], "storesOp": False,
            "keepOrRebuild": False, "rebuilds": False, "alwaysKeeps": False, "bilinearCalls": 0, "skipFwd": False, "skipBwd": False}
    for fn in cls.body:
        if not isinstance(fn, ast.FunctionDef):
            continue
        if fn.name == "forward":
            info["fwdFixed"] = len(fn.args.args) - 1
            info["fwdVarargs"] = fn.args.vararg is not None
            for node in ast.walk(fn):
                if isinstance(node, ast.If) and isinstance(node.test, ast.Call) and _attr_chain(node.test.func) == "settings.memory_efficient.off":
                    for st in node.body:
                        if isinstance(st, ast.Assign) and any(_attr_chain(t) == "ctx._linear_op" for t in st.targets):
                            info["storesOp"] = True
                if isinstance(node, ast.Attribute) and _attr_chain(node) == "settings.skip_logdet_forward":
                    info["skipFwd"] = True
            for st in fn.body:  # unconditional (top-level) `ctx.linear_op = ...`
                if isinstance(st, ast.Assign) and any(_attr_chain(t) == "ctx.linear_op" for t in st.targets):
                    info["alwaysKeeps"] = True
        if fn.name == "backward":
            assigns = {}
            for node in ast.walk(fn):
                if isinstance(node, ast.Assign) and len(node.targets) == 1 and isinstance(node.targets[0], ast.Name):
                    assigns.setdefault(node.targets[0].id, []).append(node.value)
            nested =[n for n in ast.walk(fn) if isinstance(n, ast.FunctionDef) and n is not fn]
            nested_returns = {id(r) for n in nested for r in ast.walk(n) if isinstance(r, ast.Return)}
            alts = set()
            for node in ast.walk(fn):
                if isinstance(node, ast.Return) and node.value is not None and id(node) not in nested_returns:
                    alts |= {(k, nn) for (k, nn, _) in _leading(node.value, assigns)}
            info["bwdLeading"] = sorted({k for k, _ in alts})
            info["bwdLeadingNone"] = sorted({nn for _, nn in alts})
            for node in ast.walk(fn):
                if isinstance(node, ast.If) and isinstance(node.test, ast.Call) and isinstance(node.test.func, ast.Name) \
                        and node.test.func.id == "hasattr" and len(node.test.args) == 2 \
                        and isinstance(node.test.args[1], ast.Constant) and node.test.args[1].value == "_linear_op":
                    then_ok = any(isinstance(st, ast.Assign) and _attr_chain(st.value) == "ctx._linear_op" for st in node.body)
                    else_ok = any(isinstance(st, ast.Assign) and isinstance(st.value, ast.Call)
                                  and _attr_chain(st.value.func) == "ctx.representation_tree" for st in node.orelse)
                    if then_ok and else_ok:
                        info["keepOrRebuild"] = True
                if isinstance(node, ast.Call) and isinstance(node.func, ast.Attribute) and node.func.attr == "_bilinear_derivative":
                    info["bilinearCalls"] += 1
                if isinstance(node, ast.Attribute) and _attr_chain(node) == "settings.skip_logdet_forward":
                    info["skipBwd"] = True
            # unconditional rebuild: a statement `x = ctx.representation_tree(*...)` not under an `if hasattr(...)`
            def walk_uncond(stmts):
                for st in stmts:
                    if isinstance(st, ast.Assign) and isinstance(st.value, ast.Call) and _attr_chain(st.value.func) == "ctx.representation_tree":
                        info["rebuilds"] = True
                    if isinstance(st, ast.With):
                        walk_uncond(st.body)
            walk_uncond(fn.body)
    return info


def extract_funcs():
    res = []
    for f in FUNC_FILES:
        tree = ast.parse(open(os.path.join(REPO, "linear_operator", "functions", f)).read())
        for node in tree.body:
            if isinstance(node, ast.ClassDef) and any((isinstance(b, ast.Name) and b.id == "Function") or
                                                      (isinstance(b, ast.Attribute) and b.attr == "Function") for b in node.bases):
                res.append(_func_info(node))
    return res


def extract_providers():
    d = os.path.join(REPO, "linear_operator", "operators")
    classes = {}
    for f in sorted(os.listdir(d)):
        if not f.endswith(".py"):
            continue
        tree = ast.parse(open(os.path.join(d, f)).read())
        for node in tree.body:
            if isinstance(node, ast.ClassDef):
                bases = [b.id if isinstance(b, ast.Name) else (b.attr if isinstance(b, ast.Attribute) else "?") for b in node.bases]
                defines = any(isinstance(x, ast.FunctionDef) and x.name == "_bilinear_derivative" for x in node.body)
                classes[node.name] = (bases, defines)

    def provider(name, seen=()):
        if name not in classes or name in seen:
            return None
        bases, defines = classes[name]
        if defines:
            return name
        for b in bases:
            p = provider(b, seen + (name,))
            if p:
                return p
        return None

    res = []
    for name in sorted(classes):
        p = provider(name)
        if p:
            res.append((name, p))
    return res


def generate():
    funcs = extract_funcs()
    provs = extract_providers()
    b = lambda x: "true" if x else "false"  # noqa
    out = ["-- GENERATED by harness/extract/c07_functions.py from /repo linear_operator/functions/*.py and operators/*.py",
           "-- Do not edit: regenerated on every check run.",
           "namespace LinOp.Generated.C07", "",
           "structure FnInfo where", "  name : String", "  fwdFixed : Nat", "  fwdVarargs : Bool", "  bwdLeading : List Nat",
           "  bwdLeadingNone : List Nat", "  storesOp : Bool", "  keepOrRebuild : Bool", "  rebuilds : Bool", "  alwaysKeeps : Bool",
           "  bilinearCalls : Nat", "  skipFwd : Bool", "  skipBwd : Bool", "  deriving DecidableEq, Repr", "",
           "def funcs : List FnInfo := ["]
    rows = []
    for f in funcs:
        rows.append(f"  ⟨{lean_str(f['name'])}, {f['fwdFixed']}, {b(f['fwdVarargs'])}, {f['bwdLeading']}, {f['bwdLeadingNone']}, "
                    f"{b(f['storesOp'])}, {b(f['keepOrRebuild'])}, {b(f['rebuilds'])}, {b(f['alwaysKeeps'])}, {f['bilinearCalls']}, "
                    f"{b(f['skipFwd'])}, {b(f['skipBwd'])}⟩")
    out.append(",\n".join(rows) + "]")
    out += ["", "/-- (operator class, class providing its `_bilinear_derivative`) -/", "def providers : List (String × String) := ["]
    out.append(",\n".join(f"  ({lean_str(c)}, {lean_str(p)})" for c, p in provs) + "]")
    out += ["", "end LinOp.Generated.C07", ""]
    text = "\n".join(out)
    path = os.path.join(LEAN, "LinOp", "Generated", "C07Funcs.lean")
    if not os.path.exists(path) or open(path).read() != text:
        with open(path, "w") as fh:
            fh.write(text)
    return funcs, provs


if __name__ == "__main__":
    fs, ps = generate()
    for f in fs:
        print(f)
    for p in ps:
        print(p)
