"""Translator for C19: which operator classes override the guarded public methods, whether the override
still reaches the base guard, and whether the base-class guards are present.
/repo linear_operator/operators/*.py, utils/getitem.py  ->  lean/LinOp/Generated/C19Guards.lean
Regenerated from the working tree on every run (file rewritten only when the text changes)."""
import ast
import glob
import os

from ..common import LEAN, REPO

METHODS = ["matmul", "rmatmul", "__matmul__", "__rmatmul__", "solve", "inv_quad", "inv_quad_logdet", "__add__", "__sub__",
           "__radd__", "__rsub__", "add", "sub", "mul", "__mul__", "__rmul__", "add_diagonal", "add_jitter", "expand", "__getitem__"]
INDEX_METHODS = ["_get_indices", "_getitem"]
ROOT = "LinearOperator"
# public entry points that take a second operand / sizes / an index: (defining class, method) pairs
ENTRY_METHODS = ["matmul", "rmatmul", "solve", "inv_quad", "inv_quad_logdet", "sqrt_inv_matmul", "__add__", "__sub__", "mul",
                 "add_diagonal", "expand", "__getitem__", "__matmul__", "__rmatmul__", "__mul__", "__radd__", "__rsub__", "__rmul__",
                 "add", "sub", "add_jitter"]
# delegation chains of the solve-type public methods: which hooks / helpers a method body calls
DELEG_METHODS = ["solve", "inv_quad", "inv_quad_logdet", "sqrt_inv_matmul", "_solve", "_cholesky_solve", "_inv_matmul",
                 "_maybe_reshape_rhs", "solve_triangular"]
DELEG_CALLEES = {"solve", "_solve", "_cholesky_solve", "_inv_matmul", "_maybe_reshape_rhs", "_matmul_broadcast_shape", "inv_quad",
                 "inv_quad_logdet", "matmul", "_matmul", "_t_matmul", "cholesky_solve", "solve_triangular", "linear_cg", "inverse",
                 "sqrt_inv_matmul", "contour_integral_quad", "apply", "cholesky", "_cholesky", "expand", "broadcast_shapes"}


# methods that need a square operator (public API); the table records, per defining class, whether the body carries the
# `if not self.is_square: raise` guard itself (the others reach one through the methods they call, or rely on torch)
SQUARE_METHODS = ["add_diagonal", "add_jitter", "cholesky", "diagonal", "diagonalization", "eigh", "eigvalsh", "inverse", "inv_quad",
                  "inv_quad_logdet", "logdet", "root_decomposition", "root_inv_decomposition", "solve", "sqrt_inv_matmul"]
# methods that dispatch on the class of the second operand (operator-operator shortcuts)
DISPATCH_METHODS = ["matmul", "__add__", "__sub__", "mul", "_mul_matrix", "add_low_rank"]


def _square_guard(fn):
    """the body has an `if` on `.is_square` that raises"""
    for n in ast.walk(fn):
        if isinstance(n, ast.If) and any(isinstance(x, ast.Attribute) and x.attr == "is_square" for x in ast.walk(n.test)) \
                and any(isinstance(x, ast.Raise) for st in n.body for x in ast.walk(st)):
            return True
    return False


def _dispatch_events(fn, meth):
    """in source order: `GUARD` (call of `_matmul_broadcast_shape` / `broadcast_shapes`), `SUPER` (`super().<meth>(...)`),
    `if <test>` for every `if` / `elif` whose test calls `isinstance` or compares shapes."""
    ev = []

    def visit(node):
        if isinstance(node, ast.If):
            t = node.test
            if any((isinstance(x, ast.Call) and isinstance(x.func, ast.Name) and x.func.id == "isinstance")
                   or (isinstance(x, ast.Attribute) and x.attr in ("shape", "diag_shape")) for x in ast.walk(t)):
                ev.append("if " + ast.unparse(t))
            for x in ast.walk(t):
                call(x)
            for st in node.body + node.orelse:
                visit(st)
            return
        if isinstance(node, (ast.FunctionDef, ast.ClassDef)):
            return
        for x in ast.iter_child_nodes(node):
            call(x)
            visit(x)

    def call(x):
        if isinstance(x, ast.Call):
            f = x.func
            name = f.id if isinstance(f, ast.Name) else (f.attr if isinstance(f, ast.Attribute) else None)
            if name in ("_matmul_broadcast_shape", "broadcast_shapes"):
                ev.append("GUARD")
            if isinstance(f, ast.Attribute) and f.attr == meth and isinstance(f.value, ast.Call) \
                    and isinstance(f.value.func, ast.Name) and f.value.func.id == "super":
                ev.append("SUPER")
    for st in fn.body:
        visit(st)
    return ev


def _delegation(fn):
    """sorted list of `callee:U` / `callee:C` — U if some call of it sits in a top-level simple statement of the body that no
    `return` can precede (it is executed on every path), C otherwise (inside a branch / loop, or after a possible early return)."""
    seen = {}
    may_have_returned = False
    for st in fn.body:
        simple = not isinstance(st, (ast.If, ast.For, ast.While, ast.With, ast.Try, ast.FunctionDef))
        for n in ast.walk(st):
            if isinstance(n, ast.Call):
                f = n.func
                name = f.id if isinstance(f, ast.Name) else (f.attr if isinstance(f, ast.Attribute) else None)
                if name in DELEG_CALLEES:
                    flag = "U" if (simple and not may_have_returned) else "C"
                    if seen.get(name) != "U":
                        seen[name] = flag
        if any(isinstance(n, ast.Return) for n in ast.walk(st)):
            may_have_returned = True
    return sorted(f"{k}:{v}" for k, v in seen.items())



def lean_str(s):
    return '"' + s.replace("\\", "\\\\").replace('"', '\\"') + '"'


def _calls(fn):
    """names called inside a function: plain names, attribute names, and `super().x`"""
    names, supers = set(), set()
    for n in ast.walk(fn):
        if isinstance(n, ast.Call):
            f = n.func
            if isinstance(f, ast.Name):
                names.add(f.id)
            elif isinstance(f, ast.Attribute):
                names.add(f.attr)
                v = f.value
                if isinstance(v, ast.Call) and isinstance(v.func, ast.Name) and v.func.id == "super":
                    supers.add(f.attr)
        elif isinstance(n, ast.Attribute):
            names.add("." + n.attr)
    return names, supers


def _nraise(fn):
    return sum(isinstance(n, ast.Raise) for n in ast.walk(fn)) if fn is not None else 0


def _raises(fn, exc):
    if fn is None:
        return False
    for n in ast.walk(fn):
        if isinstance(n, ast.Raise) and isinstance(n.exc, ast.Call) and isinstance(n.exc.func, ast.Name) and n.exc.func.id == exc:
            return True
    return False


def _first_stmt_calls(classes, cls, meth, what):
    """the first statement of the method body (after a docstring) is a call of `what`"""
    fn = classes.get(cls, {}).get("methods", {}).get(meth)
    if fn is None:
        return False
    body = [st for st in fn.body if not (isinstance(st, ast.Expr) and isinstance(st.value, ast.Constant))]
    st = body[0] if body else None
    return isinstance(st, ast.Expr) and isinstance(st.value, ast.Call) and isinstance(st.value.func, ast.Name) and st.value.func.id == what


def parse_classes():
    classes = {}
    for fn in sorted(glob.glob(os.path.join(REPO, "linear_operator", "operators", "*.py"))):
        tree = ast.parse(open(fn).read())
        for node in tree.body:
            if isinstance(node, ast.ClassDef):
                bases = [b.id if isinstance(b, ast.Name) else (b.attr if isinstance(b, ast.Attribute) else ast.unparse(b)) for b in node.bases]
                methods = {st.name: st for st in node.body if isinstance(st, (ast.FunctionDef, ast.AsyncFunctionDef))}
                classes[node.name] = {"bases": bases, "methods": methods, "file": os.path.basename(fn)}
    return classes


def c3(name, classes, memo):
    if name in memo:
        return memo[name]
    if name not in classes:
        memo[name] = [name]
        return memo[name]
    bases = [b for b in classes[name]["bases"]]
    seqs = [list(c3(b, classes, memo)) for b in bases] + [list(bases)]
    res = [name]
    while any(seqs):
        for s in seqs:
            if not s:
                continue
            cand = s[0]
            if not any(cand in t[1:] for t in seqs):
                break
        else:
            raise RuntimeError("inconsistent hierarchy for " + name)
        res.append(cand)
        for t in seqs:
            if t and t[0] == cand:
                del t[0]
    memo[name] = res
    return res


def extract():
    classes = parse_classes()
    memo = {}
    ops = sorted(c for c in classes if ROOT in c3(c, classes, memo) and c != ROOT)
    definers = []
    for c in ops:
        d = next((k for k in c3(c, classes, memo) if k in classes and "matmul" in classes[k]["methods"]), "?")
        definers.append((c, d))
    overrides = []
    for c in ops:
        for m in METHODS:
            fn = classes[c]["methods"].get(m)
            if fn is None:
                continue
            names, supers = _calls(fn)
            guarded = ("_matmul_broadcast_shape" in names) or (m in supers)
            overrides.append((c, m, guarded))
        for m in INDEX_METHODS:
            fn = classes[c]["methods"].get(m)
            if fn is None:
                continue
            names, _ = _calls(fn)
            if m == "_get_indices":
                overrides.append((c, m + ":fmod", "fmod" in names))
    entry = set()
    for c in ops:
        for m in ENTRY_METHODS:
            d = next((k for k in c3(c, classes, memo) if k in classes and m in classes[k]["methods"]), None)
            if d is not None:
                entry.add((d, m))
    extract.entry_points = sorted(entry, key=lambda x: (x[1], x[0]))
    delegations = []
    for c in sorted(set(ops) | {ROOT}):
        for m in DELEG_METHODS:
            fn = classes[c]["methods"].get(m)
            if fn is not None:
                delegations.append((c, m, _delegation(fn)))
    extract.delegations = delegations
    extract.square_guards = [((c, m), _square_guard(classes[c]["methods"][m])) for c in sorted(set(ops) | {ROOT})
                             for m in SQUARE_METHODS if m in classes[c]["methods"]]
    extract.mros = [(c, [k for k in c3(c, classes, memo) if k in classes]) for c in sorted(set(ops) | {ROOT})]
    extract.dispatches = [(c, m, _dispatch_events(classes[c]["methods"][m], m)) for c in sorted(set(ops) | {ROOT})
                          for m in DISPATCH_METHODS if m in classes[c]["methods"]]
    extract.dispatches = [d for d in extract.dispatches if d[2]]
    base = classes[ROOT]["methods"]

    def has(meth, what):
        fn = base.get(meth)
        if fn is None:
            return False
        names, _ = _calls(fn)
        return what in names
    base_guards = [
        ("matmul:_matmul_broadcast_shape", has("matmul", "_matmul_broadcast_shape")),
        ("inv_quad:_matmul_broadcast_shape", has("inv_quad", "_matmul_broadcast_shape")),
        ("inv_quad:is_square", has("inv_quad", ".is_square")),
        ("solve:is_square", has("solve", ".is_square")),
        ("solve:_matmul_broadcast_shape", has("solve", "_matmul_broadcast_shape")),
        ("inv_quad_logdet:is_square", has("inv_quad_logdet", ".is_square")),
        ("add_diagonal:is_square", has("add_diagonal", ".is_square")),
        ("add_diagonal:expand", has("add_diagonal", "expand")),
        ("mul:broadcast_shapes", has("mul", "broadcast_shapes")),
        ("__add__:broadcast_shapes", has("__add__", "broadcast_shapes")),
        ("expand:_expand_batch", has("expand", "_expand_batch")),
        ("expand:raises", any(isinstance(n, ast.Raise) for n in ast.walk(base["expand"])) if "expand" in base else False),
        ("__getitem__:_compute_getitem_size", has("__getitem__", "_compute_getitem_size")),
        ("__getitem__:raises IndexError", _raises(base.get("__getitem__"), "IndexError")),
        ("__getitem__:tensor max/min check", has("__getitem__", "max") and has("__getitem__", "min")),
        ("expand:batch check (>= 2 raises besides the argument-type one)", _nraise(base.get("expand")) >= 3),
    ]

    def chas(cls, meth, what):
        fn = classes.get(cls, {}).get("methods", {}).get(meth)
        return fn is not None and what in _calls(fn)[0]
    base_guards += [
        ("DiagLinearOperator.matmul:_matmul_broadcast_shape", chas("DiagLinearOperator", "matmul", "_matmul_broadcast_shape")),
        ("DiagLinearOperator.matmul:guard is the first statement", _first_stmt_calls(classes, "DiagLinearOperator", "matmul", "_matmul_broadcast_shape")),
        ("DiagLinearOperator.inv_quad_logdet:_matmul_broadcast_shape", chas("DiagLinearOperator", "inv_quad_logdet", "_matmul_broadcast_shape")),
        ("IdentityLinearOperator._maybe_reshape_rhs:_matmul_broadcast_shape", chas("IdentityLinearOperator", "_maybe_reshape_rhs", "_matmul_broadcast_shape")),
        ("IdentityLinearOperator._maybe_reshape_rhs:guard is the first statement", _first_stmt_calls(classes, "IdentityLinearOperator", "_maybe_reshape_rhs", "_matmul_broadcast_shape")),
        ("IdentityLinearOperator.inv_quad_logdet:_matmul_broadcast_shape", chas("IdentityLinearOperator", "inv_quad_logdet", "_matmul_broadcast_shape")),
        ("IdentityLinearOperator:no _mul_matrix override", "_mul_matrix" not in classes.get("IdentityLinearOperator", {}).get("methods", {})),
        ("ZeroLinearOperator.matmul:_matmul_broadcast_shape", chas("ZeroLinearOperator", "matmul", "_matmul_broadcast_shape")),
        ("ZeroLinearOperator.__add__:broadcast_shapes", chas("ZeroLinearOperator", "__add__", "broadcast_shapes")),
        ("LowRankRootAddedDiagLinearOperator.solve:_matmul_broadcast_shape", chas("LowRankRootAddedDiagLinearOperator", "solve", "_matmul_broadcast_shape")),
        ("KroneckerProductTriangularLinearOperator.solve:_matmul_broadcast_shape", chas("KroneckerProductTriangularLinearOperator", "solve", "_matmul_broadcast_shape")),
    ]
    # utils: the guard itself and the range check
    bt = ast.parse(open(os.path.join(REPO, "linear_operator", "utils", "broadcasting.py")).read())
    f = next((n for n in bt.body if isinstance(n, ast.FunctionDef) and n.name == "_matmul_broadcast_shape"), None)
    nraise = sum(isinstance(n, ast.Raise) for n in ast.walk(f)) if f else 0
    base_guards.append(("_matmul_broadcast_shape:raises>=4", nraise >= 4))
    base_guards.append(("_matmul_broadcast_shape:broadcast_shapes", bool(f) and "broadcast_shapes" in _calls(f)[0]))
    gt = ast.parse(open(os.path.join(REPO, "linear_operator", "utils", "getitem.py")).read())
    g = next((n for n in gt.body if isinstance(n, ast.FunctionDef) and n.name == "_compute_getitem_size"), None)
    base_guards.append(("_compute_getitem_size:range", bool(g) and "range" in _calls(g)[0]
                        and any(isinstance(n, ast.Raise) for n in ast.walk(g))))
    return ops, definers, overrides, base_guards


def generate():
    ops, definers, overrides, base_guards = extract()
    b = lambda x: "true" if x else "false"
    out = ["-- GENERATED by harness/extract/c19_guards.py from /repo linear_operator/operators/*.py, utils/{broadcasting,getitem}.py",
           "-- Do not edit: regenerated on every check run.",
           "namespace LinOp.Generated.C19", "",
           "/-- (operator class, class that defines its public `matmul` in the MRO) -/",
           "def matmulDefiners : List (String × String) := ["]
    out.append(",\n".join(f"  ({lean_str(c)}, {lean_str(d)})" for c, d in definers) + "]")
    out += ["", "/-- (class, overridden guarded method, body calls `_matmul_broadcast_shape` or `super().<method>`;",
            "    for `_get_indices:fmod`: body uses `fmod`) -/",
            "def overrides : List (String × String × Bool) := ["]
    out.append(",\n".join(f"  ({lean_str(c)}, {lean_str(m)}, {b(g)})" for c, m, g in overrides) + "]")
    out += ["", "/-- (guard inside a base-class method / utility, present) -/",
            "def baseGuards : List (String × Bool) := ["]
    out.append(",\n".join(f"  ({lean_str(n)}, {b(g)})" for n, g in base_guards) + "]")
    out += ["", "/-- public entry points with a second operand / sizes / an index: (class that defines the method, method) -/",
            "def entryPoints : List (String × String) := ["]
    out.append(",\n".join(f"  ({lean_str(c)}, {lean_str(m)})" for c, m in extract.entry_points) + "]")
    out += ["", "/-- (class, solve-type method or hook, the hooks / helpers its body calls: `name:U` = on every path, `name:C` = on some) -/",
            "def delegations : List (String × String × List String) := ["]
    out.append(",\n".join(f"  ({lean_str(c)}, {lean_str(m)}, [{', '.join(lean_str(x) for x in d)}])" for c, m, d in extract.delegations) + "]")
    out += ["", "/-- ((class that defines the method, square-only public method), body carries `if not self.is_square: raise`) -/",
            "def squareGuards : List ((String × String) × Bool) := ["]
    out.append(",\n".join(f"  (({lean_str(c)}, {lean_str(m)}), {b(g)})" for (c, m), g in extract.square_guards) + "]")
    out += ["", "/-- method resolution order of every operator class (C3, classes of linear_operator/operators only) -/",
            "def mros : List (String × List String) := ["]
    out.append(",\n".join(f"  ({lean_str(c)}, [{', '.join(lean_str(x) for x in l)}])" for c, l in extract.mros) + "]")
    out += ["", "/-- operator-operator dispatch: (class, method, in source order: `GUARD` = shape guard call, `SUPER` = super().<method>,",
            "    `if <test>` = a branch on the other operand's class / shapes, with its exact condition) -/",
            "def dispatches : List (String × String × List String) := ["]
    out.append(",\n".join(f"  ({lean_str(c)}, {lean_str(m)}, [{', '.join(lean_str(x) for x in d)}])" for c, m, d in extract.dispatches) + "]")
    out += ["", "end LinOp.Generated.C19", ""]
    text = "\n".join(out)
    path = os.path.join(LEAN, "LinOp", "Generated", "C19Guards.lean")
    if not os.path.exists(path) or open(path).read() != text:
        with open(path, "w") as fh:
            fh.write(text)
    return ops, definers, overrides, base_guards


if __name__ == "__main__":
    for part in generate():
        print(part)
