"""Translator for C08: thresholds, defaults and structural facts of `linear_operator/utils/linear_cg.py`
and the CG defaults of `settings.py`  ->  lean/LinOp/Generated/C08Consts.lean.
Regenerated from the working tree on every run (file rewritten only when its text changes).

Extracted with Python `ast` (no execution):
  * parameter defaults of `linear_cg` (`eps`, `stop_updating_after`, `n_tridiag`, the `None`s)
  * the literal `F` of the stopping rule `k >= min(F, max_iter - 1)` and the whole rule as text
  * the literal of the tridiagonal switch-off `t_mat[k - 1, k].max() < C`
  * the expressions giving `n_iter`, `n_tridiag_iter`, the limit check, the warning condition, the NaN check,
    the initial-skip condition, the normalisation statements
  * the statement lists (normalised text) of the two TorchScript kernels and of the `precond` branch of the loop
  * `settings.max_cg_iterations`, `max_lanczos_quadrature_iterations`, `cg_tolerance`, `terminate_cg_by_size` defaults
    and the arguments `LinearOperator._solve` passes to `linear_cg`
Anything not recognised is emitted as "?" / -1 so that the Lean obligations over the file fail.
"""
import ast
import os
from fractions import Fraction

from ..common import LEAN, REPO

OUT = os.path.join(LEAN, "LinOp", "Generated", "C08Consts.lean")


def lean_str(s):
    return '"' + str(s).replace("\\", "\\\\").replace('"', '\\"').replace("\n", " ") + '"'


def lean_rat(fr):
    if fr is None:
        return "(-1 : Rat)"
    fr = Fraction(fr)
    if fr.denominator == 1:
        return f"({fr.numerator} : Rat)"
    return f"(({fr.numerator} : Rat) / {fr.denominator})"


def _num(node):
    """Exact rational of a numeric literal from its source text (1e-10 -> 1/10^10)."""
    try:
        if isinstance(node, ast.Constant) and isinstance(node.value, (int, float)) and not isinstance(node.value, bool):
            return Fraction(ast.unparse(node).replace("_", ""))
    except Exception:
        pass
    return None


def _func(tree, name):
    for n in ast.walk(tree):
        if isinstance(n, ast.FunctionDef) and n.name == name:
            return n
    return None


def _class_attr(tree, cls, attr):
    for n in tree.body:
        if isinstance(n, ast.ClassDef) and n.name == cls:
            for st in n.body:
                if isinstance(st, ast.Assign) and any(isinstance(t, ast.Name) and t.id == attr for t in st.targets):
                    return st.value
    return None


def _stmts(body):
    """Normalised text of a statement list (docstrings/comments dropped by ast)."""
    res = []
    for st in body:
        if isinstance(st, ast.Expr) and isinstance(st.value, ast.Constant) and isinstance(st.value.value, str):
            continue
        res.append(" ".join(ast.unparse(st).split()))
    return res


def extract():
    src = open(os.path.join(REPO, "linear_operator/utils/linear_cg.py")).read()
    tree = ast.parse(src)
    f = _func(tree, "linear_cg")
    d = {}
    # ---- parameter defaults
    args = f.args.args
    defaults = [None] * (len(args) - len(f.args.defaults)) + list(f.args.defaults)
    d["params"] = [(a.arg, ast.unparse(dv) if dv is not None else "<required>") for a, dv in zip(args, defaults)]
    dm = {a.arg: dv for a, dv in zip(args, defaults)}
    d["eps"] = _num(dm.get("eps"))
    d["stop_updating_after"] = _num(dm.get("stop_updating_after"))
    d["n_tridiag_default"] = _num(dm.get("n_tridiag"))
    # ---- the loop
    loop = None
    for n in ast.walk(f):
        if isinstance(n, ast.For) and isinstance(n.target, ast.Name) and n.target.id == "k":
            loop = n
    d["loop_iter"] = ast.unparse(loop.iter) if loop else "?"
    d["iter_floor"], d["stop_rule"], d["stop_body"] = None, "?", []
    d["tri_off"], d["tri_off_test"], d["tri_guard"] = None, "?", "?"
    d["precond_branch"], d["noprecond_branch"], d["post_kernel"] = [], [], []
    if loop:
        for st in loop.body:
            if isinstance(st, ast.If):
                txt = " ".join(ast.unparse(st.test).split())
                if "tolerance" in txt:
                    d["stop_rule"] = txt
                    d["stop_body"] = _stmts(st.body)
                    for c in ast.walk(st.test):
                        if isinstance(c, ast.Compare) and isinstance(c.left, ast.Name) and c.left.id == "k" \
                                and isinstance(c.ops[0], ast.GtE) and isinstance(c.comparators[0], ast.Call) \
                                and getattr(c.comparators[0].func, "id", None) == "min":
                            d["iter_floor"] = _num(c.comparators[0].args[0])
                elif "update_tridiag" in txt:
                    d["tri_guard"] = txt
                    d["tri_body"] = _stmts(st.body)
                    for c in ast.walk(st):
                        if isinstance(c, ast.If) and "max()" in ast.unparse(c.test):
                            d["tri_off_test"] = " ".join(ast.unparse(c.test).split())
                            if isinstance(c.test, ast.Compare) and isinstance(c.test.ops[0], ast.Lt):
                                d["tri_off"] = _num(c.test.comparators[0])
                elif txt == "precond":
                    d["precond_branch"] = _stmts(st.body)
                    d["noprecond_branch"] = _stmts(st.orelse)
            elif not (isinstance(st, ast.Assign) and ast.unparse(st.targets[0]) == "mvms"):
                d["post_kernel"].append(" ".join(ast.unparse(st).split()))
        d["mvms"] = next((" ".join(ast.unparse(st).split()) for st in loop.body
                          if isinstance(st, ast.Assign) and ast.unparse(st.targets[0]) == "mvms"), "?")
    # order of the top-level statements of the loop body (which block precedes which)
    d["loop_order"] = []
    if loop:
        for st in loop.body:
            if isinstance(st, ast.If):
                txt = " ".join(ast.unparse(st.test).split())
                d["loop_order"].append("stop-rule" if "tolerance" in txt else "tridiag-block" if "update_tridiag" in txt
                                       else "kernel" if txt == "precond" else "if:" + txt)
            elif isinstance(st, ast.Assign):
                d["loop_order"].append("assign:" + ast.unparse(st.targets[0]))
            else:
                d["loop_order"].append(" ".join(ast.unparse(st).split())[:60])
    # the warning guard after the loop
    d["warn_guard"] = "?"
    for st in f.body:
        if isinstance(st, ast.If) and "warnings.warn" in ast.unparse(st):
            d["warn_guard"] = " ".join(ast.unparse(st.test).split())
    d.setdefault("tri_body", [])
    d.setdefault("mvms", "?")
    # ---- straight-line part: every top-level statement of linear_cg before/after the loop, as text
    pre, post, seen = [], [], False
    for st in f.body:
        if st is loop:
            seen = True
            continue
        (post if seen else pre).extend(_stmts([st]))
    d["before_loop"], d["after_loop"] = pre, post
    # ---- kernels
    k1 = _func(tree, "_jit_linear_cg_updates")
    k2 = _func(tree, "_jit_linear_cg_updates_no_precond")
    d["kernel"] = _stmts(k1.body) if k1 else ["?"]
    d["kernel_no_precond"] = _stmts(k2.body) if k2 else ["?"]
    d["kernel_params"] = [a.arg for a in k1.args.args] if k1 else ["?"]
    d["kernel_no_precond_params"] = [a.arg for a in k2.args.args] if k2 else ["?"]
    dp = _func(tree, "_default_preconditioner")
    d["default_preconditioner"] = _stmts(dp.body) if dp else ["?"]
    # ---- settings
    st_tree = ast.parse(open(os.path.join(REPO, "linear_operator/settings.py")).read())
    d["max_cg_iterations"] = _num(_class_attr(st_tree, "max_cg_iterations", "_global_value"))
    d["max_lanczos_quadrature_iterations"] = _num(_class_attr(st_tree, "max_lanczos_quadrature_iterations", "_global_value"))
    d["cg_tolerance"] = _num(_class_attr(st_tree, "cg_tolerance", "_global_value"))
    tv = _class_attr(st_tree, "terminate_cg_by_size", "_default")
    d["terminate_cg_by_size"] = ast.unparse(tv) if tv is not None else "?"
    # ---- the call in LinearOperator._solve
    lo = ast.parse(open(os.path.join(REPO, "linear_operator/operators/_linear_operator.py")).read())
    d["solve_call"] = "?"
    sv = _func(lo, "_solve")
    if sv:
        for n in ast.walk(sv):
            if isinstance(n, ast.Call) and ast.unparse(n.func).endswith("linear_cg"):
                d["solve_call"] = " ".join(ast.unparse(n).split())
    return d


def render(d):
    def sl(xs):
        return "[" + ", ".join(lean_str(x) for x in xs) + "]"

    def nat(fr):
        return str(int(fr)) if fr is not None and Fraction(fr).denominator == 1 and fr >= 0 else "0 -- ?"

    L = []
    L.append("-- GENERATED by harness/extract/c08_cg.py from /repo linear_operator/utils/linear_cg.py, settings.py, operators/_linear_operator.py")
    L.append("-- Do not edit: regenerated on every check run.")
    L.append("namespace LinOp.Generated.C08")
    L.append("")
    L.append("/-- default of the `eps` parameter of `linear_cg` (sentinel -1 if not a literal) -/")
    L.append(f"def eps : Rat := {lean_rat(d['eps'])}")
    L.append("/-- default of `stop_updating_after` -/")
    L.append(f"def stopUpdatingAfter : Rat := {lean_rat(d['stop_updating_after'])}")
    L.append(f"def nTridiagDefault : Rat := {lean_rat(d['n_tridiag_default'])}")
    L.append("/-- `F` in `k >= min(F, max_iter - 1)` -/")
    L.append(f"def iterFloor : Nat := {nat(d['iter_floor'])}")
    L.append(f"def iterFloorFound : Bool := {'true' if d['iter_floor'] is not None else 'false'}")
    L.append("/-- `C` in `t_mat[k - 1, k].max() < C` -/")
    L.append(f"def triOff : Rat := {lean_rat(d['tri_off'])}")
    L.append(f"def maxCgIterations : Nat := {nat(d['max_cg_iterations'])}")
    L.append(f"def maxLanczosQuadratureIterations : Nat := {nat(d['max_lanczos_quadrature_iterations'])}")
    L.append(f"def cgTolerance : Rat := {lean_rat(d['cg_tolerance'])}")
    L.append(f"def terminateCgBySize : String := {lean_str(d['terminate_cg_by_size'])}")
    L.append(f"def params : List (String × String) := [" + ", ".join(f"({lean_str(a)}, {lean_str(b)})" for a, b in d["params"]) + "]")
    L.append(f"def loopIter : String := {lean_str(d['loop_iter'])}")
    L.append(f"def mvms : String := {lean_str(d['mvms'])}")
    L.append(f"def loopOrder : List String := {sl(d['loop_order'])}")
    L.append(f"def warnGuard : String := {lean_str(d['warn_guard'])}")
    L.append(f"def stopRule : String := {lean_str(d['stop_rule'])}")
    L.append(f"def stopBody : List String := {sl(d['stop_body'])}")
    L.append(f"def triGuard : String := {lean_str(d['tri_guard'])}")
    L.append(f"def triOffTest : String := {lean_str(d['tri_off_test'])}")
    L.append(f"def triBody : List String := {sl(d['tri_body'])}")
    L.append(f"def precondBranch : List String := {sl(d['precond_branch'])}")
    L.append(f"def noPrecondBranch : List String := {sl(d['noprecond_branch'])}")
    L.append(f"def postKernel : List String := {sl(d['post_kernel'])}")
    L.append(f"def kernelParams : List String := {sl(d['kernel_params'])}")
    L.append(f"def kernel : List String := {sl(d['kernel'])}")
    L.append(f"def kernelNoPrecondParams : List String := {sl(d['kernel_no_precond_params'])}")
    L.append(f"def kernelNoPrecond : List String := {sl(d['kernel_no_precond'])}")
    L.append(f"def defaultPreconditioner : List String := {sl(d['default_preconditioner'])}")
    L.append(f"def beforeLoop : List String := {sl(d['before_loop'])}")
    L.append(f"def afterLoop : List String := {sl(d['after_loop'])}")
    L.append(f"def solveCall : String := {lean_str(d['solve_call'])}")
    L.append("")
    L.append("end LinOp.Generated.C08")
    return "\n".join(L) + "\n"


def generate():
    d = extract()
    text = render(d)
    old = open(OUT).read() if os.path.exists(OUT) else None
    if old != text:
        with open(OUT, "w") as fh:
            fh.write(text)
    return d


if __name__ == "__main__":
    import json
    print(json.dumps(generate(), indent=1, default=str))
