"""Translator for C09: constants and structural facts of `linear_operator/utils/lanczos.py`
(`lanczos_tridiag`, `lanczos_tridiag_to_diag`), of the jitter statements in
`functions/_root_decomposition.py` / `functions/_diagonalization.py` and the two settings defaults
-> lean/LinOp/Generated/C09Consts.lean.  Regenerated from the working tree on every run (file rewritten
only when its text changes).  Python `ast`, no execution.  What cannot be recognised is emitted as a
sentinel (`"?"`, -1) so that the Lean obligations over the generated file fail.
"""
import ast
import os
from fractions import Fraction

from ..common import LEAN, REPO

OUT = os.path.join(LEAN, "LinOp", "Generated", "C09Consts.lean")


def lean_str(s):
    return '"' + str(s).replace("\\", "\\\\").replace('"', '\\"') + '"'


def lean_rat(fr):
    if fr is None:
        return "(-1 : Rat)"
    fr = Fraction(fr)
    if fr.denominator == 1:
        return f"({fr.numerator} : Rat)"
    return f"(({fr.numerator} : Rat) / {fr.denominator})"


def _num(node):
    try:
        return Fraction(ast.unparse(node).replace("_", ""))
    except Exception:
        return None


def _func(tree, name):
    for n in ast.walk(tree):
        if isinstance(n, ast.FunctionDef) and n.name == name:
            return n
    return None


def _flat(st):
    return " ".join(ast.unparse(st).split())


def _setting_default(tree, cls):
    for n in tree.body:
        if isinstance(n, ast.ClassDef) and n.name == cls:
            for st in n.body:
                if isinstance(st, ast.Assign) and any(isinstance(t, ast.Name) and t.id == "_global_value" for t in st.targets):
                    return _num(st.value)
    return None


def _compare_const(node):
    """`X > c` / `X.abs() > c` -> (text of X, op name, c)"""
    if isinstance(node, ast.Compare) and len(node.ops) == 1:
        return ast.unparse(node.left), type(node.ops[0]).__name__, _num(node.comparators[0]), ast.unparse(node.comparators[0])
    return None


def extract():
    d = {"tol": None, "extra": None, "break_tol": None, "inner_test": "?", "inner_op": "?", "inner_rhs": "?",
         "break_lhs": "?", "break_op": "?", "break_test": "?", "num_iter": "?", "loop_iter": "?", "reorth_guard": "?",
         "guards_single": False, "first_guard": "?", "trim": "?", "loop_body": [], "reorth_body": [], "extra_body": [], "pre_loop": [], "setup": [],
         "params": [], "multiple_init_vecs": "?", "mask": "?", "mask_fill": None, "mask_fill_text": "?", "evec_mask": "?",
         "eigh_cpu_below": None, "to_diag_body": [], "tridiagonal_jitter": None, "max_root_decomposition_size": None,
         "root_jitter": [], "diag_jitter": [], "root_assembly": [], "post_body": [], "slq_call": "?"}
    src = open(os.path.join(REPO, "linear_operator/utils/lanczos.py")).read()
    tree = ast.parse(src)
    fn = _func(tree, "lanczos_tridiag")
    if fn is not None:
        a = fn.args
        names = [x.arg for x in a.args]
        defaults = [None] * (len(names) - len(a.defaults)) + list(a.defaults)
        d["params"] = [(n, "<required>" if v is None else ast.unparse(v)) for n, v in zip(names, defaults)]
        for n, v in zip(names, defaults):
            if n == "tol" and v is not None:
                d["tol"] = _num(v)
        loop = next((s for s in fn.body if isinstance(s, ast.For)), None)
        for st in fn.body:
            if st is loop:
                break
            if isinstance(st, ast.Assign) and isinstance(st.targets[0], ast.Name):
                if st.targets[0].id == "num_iter":
                    d["num_iter"] = _flat(st.value)
                if st.targets[0].id == "multiple_init_vecs":
                    d["multiple_init_vecs"] = _flat(st.value)
        # statements from `if init_vecs is None:` up to (not including) `q_0_vec = ...`: nothing may touch supplied `init_vecs` there
        in_setup = False
        for st in fn.body:
            if isinstance(st, ast.If) and _flat(st.test) == "init_vecs is None":
                in_setup = True
            if isinstance(st, ast.Assign) and isinstance(st.targets[0], ast.Name):
                if st.targets[0].id == "num_iter":
                    in_setup = True
                if st.targets[0].id == "q_0_vec":
                    break
            if in_setup:
                d["setup"].append(_flat(st))
        # statements between `q_0_vec = ...` and the loop
        started = False
        for st in fn.body:
            if st is loop:
                break
            if isinstance(st, ast.Assign) and isinstance(st.targets[0], ast.Name) and st.targets[0].id == "q_0_vec":
                started = True
            if started:
                d["pre_loop"].append(_flat(st))
                # is the write `t_mat[0, 1]` guarded by a test on num_iter?
                if isinstance(st, ast.If) and "num_iter" in ast.unparse(st.test) and "t_mat[0, 1]" in ast.unparse(st):
                    d["guards_single"] = True
                    d["first_guard"] = _flat(st.test)
        if loop is not None:
            d["loop_iter"] = _flat(loop.iter)
            for st in loop.body:
                if isinstance(st, ast.If) and "num_iter" in ast.unparse(st.test):
                    d["reorth_guard"] = _flat(st.test)
                    for s2 in st.body:
                        if isinstance(s2, ast.For):
                            if isinstance(s2.iter, ast.Call) and ast.unparse(s2.iter.func) == "range" and len(s2.iter.args) == 1:
                                d["extra"] = _num(s2.iter.args[0])
                            for s3 in s2.body:
                                d["extra_body"].append(_flat(s3))
                                if isinstance(s3, ast.If):
                                    d["inner_test"] = _flat(s3.test)
                                    for sub in ast.walk(s3.test):
                                        c = _compare_const(sub)
                                        if c:
                                            d["inner_lhs"], d["inner_op"], _, d["inner_rhs"] = c
                        elif isinstance(s2, ast.If) and any(isinstance(x, ast.Break) for x in s2.body):
                            d["break_test"] = _flat(s2.test)
                            for sub in ast.walk(s2.test):
                                c = _compare_const(sub)
                                if c and c[2] is not None and c[2] != 0:
                                    d["break_lhs"], d["break_op"], d["break_tol"], _ = c
                        else:
                            d["reorth_body"].append(_flat(s2))
                else:
                    d["loop_body"].append(_flat(st))
            after = fn.body[fn.body.index(loop) + 1:]
            for st in after:
                if isinstance(st, ast.Assign) and isinstance(st.targets[0], ast.Name) and st.targets[0].id == "num_iter":
                    d["trim"] = _flat(st)
                d["post_body"].append(_flat(st))
    fn = _func(tree, "lanczos_tridiag_to_diag")
    if fn is not None:
        for st in fn.body:
            if isinstance(st, ast.Expr) and isinstance(st.value, ast.Constant):
                continue
            d["to_diag_body"].append(_flat(st))
            if isinstance(st, ast.If):
                c = _compare_const(st.test)
                if c and c[0] == "t_mat.size(-1)" and c[1] == "Lt":
                    d["eigh_cpu_below"] = c[2]
            if isinstance(st, ast.Assign) and isinstance(st.targets[0], ast.Name):
                if st.targets[0].id == "mask":
                    d["mask"] = _flat(st.value)
                if st.targets[0].id == "evecs":
                    d["evec_mask"] = _flat(st.value)
                if st.targets[0].id == "evals" and isinstance(st.value, ast.Call) and ast.unparse(st.value.func).endswith("masked_fill_"):
                    d["mask_fill_text"] = _flat(st.value)
                    d["mask_fill"] = _num(st.value.args[1]) if len(st.value.args) == 2 else None
    stree = ast.parse(open(os.path.join(REPO, "linear_operator/settings.py")).read())
    d["tridiagonal_jitter"] = _setting_default(stree, "tridiagonal_jitter")
    d["max_root_decomposition_size"] = _setting_default(stree, "max_root_decomposition_size")

    def jitter_stmts(path, cls, keep):
        t = ast.parse(open(os.path.join(REPO, path)).read())
        res = []
        for n in ast.walk(t):
            if isinstance(n, ast.ClassDef) and n.name == cls:
                f = _func(n, "forward")
                for st in (f.body if f else []):
                    if isinstance(st, ast.Assign):
                        tg = ast.unparse(st.targets[0])
                        if any(k in tg for k in keep):
                            res.append(_flat(st))
        return res

    d["root_jitter"] = jitter_stmts("linear_operator/functions/_root_decomposition.py", "RootDecomposition",
                                    ("mins", "jitter_mat", "eigenvalues, eigenvectors"))
    d["root_assembly"] = jitter_stmts("linear_operator/functions/_root_decomposition.py", "RootDecomposition",
                                      ("q_mat", "root_evals"))
    d["diag_jitter"] = jitter_stmts("linear_operator/functions/_diagonalization.py", "Diagonalization",
                                    ("mins", "jitter_val", "jitter_mat", "eigenvalues, eigenvectors"))
    t = ast.parse(open(os.path.join(REPO, "linear_operator/utils/stochastic_lq.py")).read())
    f = _func(t, "lanczos_batch")
    if f is not None:
        d["slq_call"] = _flat(f.body[-1])
    return d


def render(d):
    def sl(xs):
        return "[" + ", ".join(lean_str(x) for x in xs) + "]"

    def nat(fr):
        return str(int(fr)) if fr is not None and Fraction(fr).denominator == 1 and fr >= 0 else "0 -- ?"

    L = ["-- GENERATED by harness/extract/c09_lanczos.py from /repo linear_operator/utils/lanczos.py, settings.py,",
         "-- functions/_root_decomposition.py, functions/_diagonalization.py, utils/stochastic_lq.py",
         "-- Do not edit: regenerated on every check run.",
         "namespace LinOp.Generated.C09", "",
         "/-- default of the `tol` parameter of `lanczos_tridiag` (sentinel -1 if not a literal) -/",
         f"def tol : Rat := {lean_rat(d['tol'])}",
         "/-- `N` in `for _ in range(N)` (extra re-orthogonalisation passes) -/",
         f"def extra : Nat := {nat(d['extra'])}",
         f"def extraFound : Bool := {'true' if d['extra'] is not None else 'false'}",
         "/-- `C` in `beta_curr.abs() > C` -/",
         f"def breakTol : Rat := {lean_rat(d['break_tol'])}",
         f"def breakLhs : String := {lean_str(d['break_lhs'])}",
         f"def breakOp : String := {lean_str(d['break_op'])}",
         f"def breakTest : String := {lean_str(d['break_test'])}",
         f"def innerTest : String := {lean_str(d['inner_test'])}",
         f"def innerLhs : String := {lean_str(d.get('inner_lhs', '?'))}",
         f"def innerOp : String := {lean_str(d['inner_op'])}",
         f"def innerRhs : String := {lean_str(d['inner_rhs'])}",
         f"def numIter : String := {lean_str(d['num_iter'])}",
         f"def loopIter : String := {lean_str(d['loop_iter'])}",
         f"def reorthGuard : String := {lean_str(d['reorth_guard'])}",
         "/-- the writes at index 1 before the loop are guarded by a test on `num_iter` -/",
         f"def guardsSingle : Bool := {'true' if d['guards_single'] else 'false'}",
         f"def firstGuard : String := {lean_str(d['first_guard'])}",
         f"def trim : String := {lean_str(d['trim'])}",
         f"def multipleInitVecs : String := {lean_str(d['multiple_init_vecs'])}",
         f"def params : List (String × String) := [" + ", ".join(f"({lean_str(a)}, {lean_str(b)})" for a, b in d["params"]) + "]",
         "/-- the statements from `if init_vecs is None:` up to the normalisation of the start vector -/",
         f"def setup : List String := {sl(d['setup'])}",
         f"def preLoop : List String := {sl(d['pre_loop'])}",
         f"def loopBody : List String := {sl(d['loop_body'])}",
         f"def reorthBody : List String := {sl(d['reorth_body'])}",
         f"def extraBody : List String := {sl(d['extra_body'])}",
         f"def postBody : List String := {sl(d['post_body'])}",
         "",
         "/-- `lanczos_tridiag_to_diag` -/",
         f"def mask : String := {lean_str(d['mask'])}",
         f"def evecMask : String := {lean_str(d['evec_mask'])}",
         f"def maskFillText : String := {lean_str(d['mask_fill_text'])}",
         f"def maskFill : Rat := {lean_rat(d['mask_fill'])}",
         f"def eighCpuBelow : Rat := {lean_rat(d['eigh_cpu_below'])}",
         f"def toDiagBody : List String := {sl(d['to_diag_body'])}",
         "",
         f"def tridiagonalJitter : Rat := {lean_rat(d['tridiagonal_jitter'])}",
         f"def maxRootDecompositionSize : Nat := {nat(d['max_root_decomposition_size'])}",
         f"def rootJitter : List String := {sl(d['root_jitter'])}",
         f"def rootAssembly : List String := {sl(d['root_assembly'])}",
         f"def diagJitter : List String := {sl(d['diag_jitter'])}",
         f"def slqCall : String := {lean_str(d['slq_call'])}",
         "", "end LinOp.Generated.C09"]
    return "\n".join(L) + "\n"


def generate():
    d = extract()
    text = render(d)
    old = open(OUT).read() if os.path.exists(OUT) else None
    if old != text:
        with open(OUT, "w") as fh:
            fh.write(text)
    return d


if __name__ == "__main__":
    import json
    print(json.dumps(generate(), indent=1, default=str))
