"""C07 — operator instances as small expression trees with THREE interpretations:

  build(node, P)        the library operator, constructed from the tensors P[name] (leaves, possibly
                        broadcast = expanded stride-0 views of smaller leaves)
  dense(node, P)        the dense (batched) matrix as a DIFFERENTIABLE plain-torch function of the leaves
  emit(node, P, midx)   the Lean encoding of batch member `midx` (tokens + scalars tagged with their
                        origin (leaf name, flat index in the leaf) so that gradients can be summed back)

Data are integer valued (exact in float64 for ring expressions).
"""
import itertools

import torch


def ri(rng, shape, lo=-3, hi=3, nonzero=False):
    shape = tuple(shape)
    n = 1
    for s in shape:
        n *= s
    vals = []
    for _ in range(n):
        v = rng.randint(lo, hi)
        while nonzero and v == 0:
            v = rng.randint(lo, hi)
        vals.append(float(v))
    return torch.tensor(vals, dtype=torch.float64).reshape(shape)


def psd_int(rng, batch, n, min_gap=0.04):
    a = None
    for _ in range(200):
        r = ri(rng, (*batch, n, n), -2, 2)
        c = rng.randint(1, 3)
        a = r @ r.mT + c * torch.eye(n, dtype=torch.float64)
        if n == 1:
            return a
        ev = torch.linalg.eigvalsh(a)
        gap = (ev[..., 1:] - ev[..., :-1]).min() / ev.max()
        if float(gap) >= min_gap and float(ev.max() / ev.min()) < 60:
            return a
    return a


def kron(a, b):
    res = a.unsqueeze(-1).unsqueeze(-3) * b.unsqueeze(-2).unsqueeze(-4)
    return res.reshape(*res.shape[:-4], a.shape[-2] * b.shape[-2], a.shape[-1] * b.shape[-1])


def toeplitz_dense(col):
    n = col.shape[-1]
    idx = (torch.arange(n).unsqueeze(0) - torch.arange(n).unsqueeze(1)).abs()
    return col[..., idx]


def block_diag_dense(blocks):
    *b, k, m, n = blocks.shape
    rows = []
    for i in range(k):
        row = [blocks[..., i, :, :] if j == i else torch.zeros(*b, m, n, dtype=blocks.dtype) for j in range(k)]
        rows.append(torch.cat(row, -1))
    return torch.cat(rows, -2)


def block_interleaved_dense(blocks):
    """entry [i*k + b, j*k + b] = blocks[b, i, j]."""
    *b, k, m, n = blocks.shape
    bd = block_diag_dense(blocks)  # index (b*m+i, b*n+j)
    ridx = torch.tensor([(r % k) * m + r // k for r in range(m * k)])
    cidx = torch.tensor([(c % k) * n + c // k for c in range(n * k)])
    return bd[..., ridx, :][..., :, cidx]


def interp_matrix(idx, val, n_base):
    """W[..., r, idx[r,k]] += val[r,k]   (differentiable in val)."""
    oh = torch.nn.functional.one_hot(idx, n_base).to(val.dtype)  # (..., r, k, n_base)
    return (oh * val.unsqueeze(-1)).sum(-2)


def poly_kernel(x1, x2, **params):
    return x1 @ x2.mT


class Node:
    def __init__(self, kind, kids=(), leaves=(), **extra):
        self.kind, self.kids, self.leaves, self.x = kind, list(kids), list(leaves), extra

    def __repr__(self):
        return self.kind + ("(" + ",".join(map(repr, self.kids)) + ")" if self.kids else "")


LEAN_KINDS = {"dense", "diag", "cdiag", "toep", "cmul", "mulc", "mm", "sum", "addeddiag", "masked", "interp", "bdiag", "binter", "sbatch",
              # classes with the default (reverse sweep through `_matmul`) derivative, and Mul's root branch
              "psdsum", "kpad", "sumkron", "root", "lowrankroot", "lrrad", "tri", "chol", "mul", "kron", "kdiag", "mT", "cat",
              # KernelLinearOperator with the catalogue's bilinear covariance closure (encoded by its dense function, see emit)
              "kernel",
              # CatLinearOperator along a batch dimension: each batch member is a member of one part
              "catb"}


def lean_ok(node):
    if node.kind == "mul" and not all(k.kind == "root" for k in node.kids):
        return False
    return node.kind in LEAN_KINDS and all(lean_ok(k) for k in node.kids)


def _full(P, name, nb, core):
    t = P[name]
    tgt = tuple(nb) + tuple(core)
    return t if tuple(t.shape) == tgt else t.expand(tgt)


# ------------------------------------------------------------------------------------------------ shape
def shape_of(node):
    """(n, m) of the node."""
    k, x = node.kind, node.x
    if k in ("dense",):
        return x["n"], x["m"]
    if k in ("diag", "cdiag", "toep", "tri", "chol", "identity"):
        return x["n"], x["n"]
    if k in ("cmul", "mulc", "brep", "sbatch"):
        return shape_of(node.kids[0])
    if k in ("sum", "addeddiag", "psdsum", "mul", "kpad", "sumkron"):
        return shape_of(node.kids[0])
    if k == "mm":
        return shape_of(node.kids[0])[0], shape_of(node.kids[1])[1]
    if k in ("root", "lowrankroot"):
        n = shape_of(node.kids[0])[0] if node.kids else x["n"]
        return n, n
    if k == "lrrad":
        return x["n"], x["n"]
    if k == "masked":
        return int(x["rows"].sum()), int(x["cols"].sum())
    if k == "interp":
        return x["li"].shape[-2], x["ri"].shape[-2]
    if k in ("bdiag", "binter"):
        n, m = shape_of(node.kids[0])
        return x["k"] * n, x["k"] * m
    if k in ("kron", "kdiag"):
        a, b = 1, 1
        for kid in node.kids:
            c, d = shape_of(kid)
            a, b = a * c, b * d
        return a, b
    if k == "mT":
        n, m = shape_of(node.kids[0])
        return m, n
    if k == "kernel":
        return x["n1"], x["n2"]
    if k == "catb":
        return shape_of(node.kids[0])
    if k == "cat":
        (a, b), (c, d) = shape_of(node.kids[0]), shape_of(node.kids[1])
        return (a + c, b) if x["dim"] == -2 else (a, b + d)
    raise KeyError(k)


# ------------------------------------------------------------------------------------------------ build
def build(node, P, nb):
    """Library operator with node batch shape `nb`."""
    import linear_operator.operators as O
    k, x = node.kind, node.x
    kid = lambda i, b=nb: build(node.kids[i], P, b)
    if k == "dense":
        return O.DenseLinearOperator(_full(P, node.leaves[0], nb, (x["n"], x["m"])))
    if k == "diag":
        return O.DiagLinearOperator(_full(P, node.leaves[0], nb, (x["n"],)))
    if k == "cdiag":
        return O.ConstantDiagLinearOperator(_full(P, node.leaves[0], nb, (1,)), diag_shape=x["n"])
    if k == "toep":
        return O.ToeplitzLinearOperator(_full(P, node.leaves[0], nb, (x["n"],)))
    if k == "identity":
        return O.IdentityLinearOperator(x["n"], batch_shape=torch.Size(nb), dtype=torch.float64)
    if k == "cmul":
        c = P[node.leaves[0]] if x.get("raw") else _full(P, node.leaves[0], nb, ())
        return O.ConstantMulLinearOperator(kid(0), c)
    if k == "mulc":  # the public route: op * c.view(*pattern, 1, 1)
        c = P[node.leaves[0]]
        return kid(0) * (c.reshape(*c.shape, 1, 1) if c.dim() else c)
    if k == "mm":
        return O.MatmulLinearOperator(kid(0), kid(1))
    if k == "sum":
        return O.SumLinearOperator(*[kid(i) for i in range(len(node.kids))])
    if k == "psdsum":
        return O.PsdSumLinearOperator(*[kid(i) for i in range(len(node.kids))])
    if k == "addeddiag":
        return O.AddedDiagLinearOperator(kid(0), kid(1))
    if k == "mul":
        return O.MulLinearOperator(kid(0), kid(1))
    if k == "root":
        return O.RootLinearOperator(kid(0))
    if k == "lowrankroot":
        return O.LowRankRootLinearOperator(_full(P, node.leaves[0], nb, (x["n"], x["r"])))
    if k == "lrrad":
        return O.LowRankRootAddedDiagLinearOperator(
            O.LowRankRootLinearOperator(_full(P, node.leaves[0], nb, (x["n"], x["r"]))), kid(0))
    if k == "tri":
        t = _full(P, node.leaves[0], nb, (x["n"], x["n"]))
        return O.TriangularLinearOperator(torch.triu(t) if x.get("upper") else torch.tril(t), upper=bool(x.get("upper")))
    if k == "chol":
        t = _full(P, node.leaves[0], nb, (x["n"], x["n"]))
        return O.CholLinearOperator(O.TriangularLinearOperator(torch.tril(t)))
    if k == "masked":
        return O.MaskedLinearOperator(kid(0), x["rows"].clone(), x["cols"].clone())
    if k == "interp":
        li, ri_ = x["li"], x["ri"]
        lv = _full(P, node.leaves[0], nb, li.shape[-2:])
        rv = _full(P, node.leaves[1], nb, ri_.shape[-2:])
        if x.get("tied"):
            rv = rv.clone()
        return O.InterpolatedLinearOperator(kid(0), li.expand(*nb, *li.shape[-2:]).contiguous(), lv,
                                            ri_.expand(*nb, *ri_.shape[-2:]).contiguous(), rv)
    if k == "bdiag":
        return O.BlockDiagLinearOperator(kid(0, tuple(nb) + (x["k"],)))
    if k == "binter":
        return O.BlockInterleavedLinearOperator(kid(0, tuple(nb) + (x["k"],)))
    if k == "sbatch":
        return O.SumBatchLinearOperator(kid(0, tuple(nb) + (x["k"],)))
    if k == "brep":
        return O.BatchRepeatLinearOperator(kid(0, x["inner"]), batch_repeat=torch.Size(x["rep"]))
    if k == "kron":
        return O.KroneckerProductLinearOperator(*[kid(i) for i in range(len(node.kids))])
    if k == "kdiag":
        return O.KroneckerProductDiagLinearOperator(*[kid(i) for i in range(len(node.kids))])
    if k == "kpad":
        return O.KroneckerProductAddedDiagLinearOperator(kid(0), kid(1))
    if k == "sumkron":
        return O.SumKroneckerLinearOperator(kid(0), kid(1))
    if k == "mT":
        return kid(0).mT
    if k == "kernel":
        x1 = _full(P, node.leaves[0], nb, (x["n1"], x["f"]))
        x2 = x1 if x.get("tied") else _full(P, node.leaves[1], nb, (x["n2"], x["f"]))
        return O.KernelLinearOperator(x1, x2, poly_kernel)
    if k == "catb":  # CatLinearOperator along the FIRST batch dimension: the parts have batch `inner`, the node inner[0]*2
        return O.CatLinearOperator(kid(0, tuple(x["inner"])), kid(1, tuple(x["inner"])), dim=0)
    if k == "cat":
        return O.CatLinearOperator(kid(0), kid(1), dim=x["dim"])
    raise KeyError(k)


# ------------------------------------------------------------------------------------------------ dense
def dense(node, P, nb):
    """Dense matrix of shape nb + (n, m), differentiable in the leaves (plain torch only)."""
    k, x = node.kind, node.x
    kid = lambda i, b=nb: dense(node.kids[i], P, b)
    eye = lambda n: torch.eye(n, dtype=torch.float64)
    if k == "dense":
        return _full(P, node.leaves[0], nb, (x["n"], x["m"]))
    if k == "diag":
        return torch.diag_embed(_full(P, node.leaves[0], nb, (x["n"],)))
    if k == "cdiag":
        return _full(P, node.leaves[0], nb, (1,)).unsqueeze(-1) * eye(x["n"])
    if k == "toep":
        return toeplitz_dense(_full(P, node.leaves[0], nb, (x["n"],)))
    if k == "identity":
        return eye(x["n"]).expand(*nb, x["n"], x["n"])
    if k in ("cmul", "mulc"):
        c = P[node.leaves[0]].expand(nb)
        return kid(0) * c.unsqueeze(-1).unsqueeze(-1)
    if k == "mm":
        return kid(0) @ kid(1)
    if k in ("sum", "psdsum", "addeddiag", "kpad", "sumkron"):
        res = kid(0)
        for i in range(1, len(node.kids)):
            res = res + kid(i)
        return res
    if k == "mul":
        return kid(0) * kid(1)
    if k == "root":
        d = kid(0)
        return d @ d.mT
    if k == "lowrankroot":
        r = _full(P, node.leaves[0], nb, (x["n"], x["r"]))
        return r @ r.mT
    if k == "lrrad":
        r = _full(P, node.leaves[0], nb, (x["n"], x["r"]))
        return r @ r.mT + kid(0)
    if k == "tri":
        t = _full(P, node.leaves[0], nb, (x["n"], x["n"]))
        return torch.triu(t) if x.get("upper") else torch.tril(t)
    if k == "chol":
        t = torch.tril(_full(P, node.leaves[0], nb, (x["n"], x["n"])))
        return t @ t.mT
    if k == "masked":
        return kid(0)[..., x["rows"], :][..., :, x["cols"]]
    if k == "interp":
        li, ri_ = x["li"], x["ri"]
        n, m = shape_of(node.kids[0])
        lv = _full(P, node.leaves[0], nb, li.shape[-2:])
        rv = _full(P, node.leaves[1], nb, ri_.shape[-2:])
        wl = interp_matrix(li.expand(*nb, *li.shape[-2:]), lv, n)
        wr = interp_matrix(ri_.expand(*nb, *ri_.shape[-2:]), rv, m)
        return wl @ kid(0) @ wr.mT
    if k == "bdiag":
        return block_diag_dense(kid(0, tuple(nb) + (x["k"],)))
    if k == "binter":
        return block_interleaved_dense(kid(0, tuple(nb) + (x["k"],)))
    if k == "sbatch":
        return kid(0, tuple(nb) + (x["k"],)).sum(-3)
    if k == "brep":
        return kid(0, x["inner"]).repeat(*x["rep"], 1, 1)
    if k in ("kron", "kdiag"):
        res = kid(0)
        for i in range(1, len(node.kids)):
            res = kron(res, kid(i))
        return res
    if k == "mT":
        return kid(0).mT
    if k == "kernel":
        x1 = _full(P, node.leaves[0], nb, (x["n1"], x["f"]))
        x2 = x1 if x.get("tied") else _full(P, node.leaves[1], nb, (x["n2"], x["f"]))
        return x1 @ x2.mT
    if k == "catb":
        return torch.cat([kid(0, tuple(x["inner"])), kid(1, tuple(x["inner"]))], 0)
    if k == "cat":
        return torch.cat([kid(0), kid(1)], x["dim"])
    raise KeyError(k)


# ------------------------------------------------------------------------------------------------ Lean encoding
def _member(P, name, nb, core, midx):
    """Scalars of batch member `midx` of leaf `name` (broadcast to nb + core): list of (value, name, flat index)."""
    t = P[name]
    lead = t.shape[: t.dim() - len(core)]
    # align the leaf's batch dims to the right of nb
    off = len(nb) - len(lead)
    bidx = tuple((midx[off + i] if lead[i] != 1 else 0) for i in range(len(lead)))
    strides = []
    s = 1
    for d in reversed(t.shape):
        strides.append(s)
        s *= d
    strides = list(reversed(strides))
    out = []
    for cidx in itertools.product(*[range(c) for c in core]):
        full = bidx + cidx
        flat = sum(i * st for i, st in zip(full, strides))
        out.append((float(t[full]) if full else float(t), name, flat))
    return out


def emit(node, P, nb, midx):
    """(tokens, scalars) of batch member midx (a tuple indexing nb)."""
    k, x = node.kind, node.x
    if k == "dense":
        return ["dense", str(x["n"]), str(x["m"])], _member(P, node.leaves[0], nb, (x["n"], x["m"]), midx)
    if k == "diag":
        return ["diag", str(x["n"])], _member(P, node.leaves[0], nb, (x["n"],), midx)
    if k == "cdiag":
        return ["cdiag", str(x["n"])], _member(P, node.leaves[0], nb, (1,), midx)
    if k == "toep":
        return ["toep", str(x["n"])], _member(P, node.leaves[0], nb, (x["n"],), midx)
    if k in ("cmul", "mulc"):
        t, s = emit(node.kids[0], P, nb, midx)
        return ["cmul"] + t, s + _member(P, node.leaves[0], nb, (), midx)
    if k in ("mm", "sum", "addeddiag", "psdsum", "kpad", "sumkron"):
        tag = "mm" if k == "mm" else "sum"  # AddedDiag, PsdSum, KroneckerProductAddedDiag, SumKronecker inherit Sum's derivative
        t, s = emit(node.kids[0], P, nb, midx)
        for kid in node.kids[1:]:
            t2, s2 = emit(kid, P, nb, midx)
            t, s = [tag] + t + t2, s + s2
        return t, s
    if k == "masked":
        t, s = emit(node.kids[0], P, nb, midx)
        rows = [i for i, b in enumerate(x["rows"].tolist()) if b]
        cols = [i for i, b in enumerate(x["cols"].tolist()) if b]
        return ["mask", str(len(rows)), str(len(cols)), ",".join(map(str, rows)), ",".join(map(str, cols))] + t, s
    if k == "interp":
        t, s = emit(node.kids[0], P, nb, midx)
        li, ri_ = x["li"], x["ri"]
        lim = li.expand(*nb, *li.shape[-2:])[midx] if nb else li
        rim = ri_.expand(*nb, *ri_.shape[-2:])[midx] if nb else ri_
        enc = lambda m: ";".join(",".join(str(int(v)) for v in r) for r in m.tolist())
        s = s + _member(P, node.leaves[0], nb, tuple(li.shape[-2:]), midx) + _member(P, node.leaves[1], nb, tuple(ri_.shape[-2:]), midx)
        return ["interp", str(li.shape[-2]), str(ri_.shape[-2]), str(li.shape[-1]), str(ri_.shape[-1]), enc(lim), enc(rim)] + t, s
    if k == "root":
        t, s = emit(node.kids[0], P, nb, midx)
        return ["root"] + t, s
    if k == "lowrankroot":  # LowRankRootLinearOperator(R) = Root(Dense(R))
        return ["root", "dense", str(x["n"]), str(x["r"])], _member(P, node.leaves[0], nb, (x["n"], x["r"]), midx)
    if k == "lrrad":  # LowRankRootAddedDiag: Sum's hand-written derivative over (LowRankRoot, Diag)
        t, s = emit(node.kids[0], P, nb, midx)
        return ["sum", "root", "dense", str(x["n"]), str(x["r"])] + t, _member(P, node.leaves[0], nb, (x["n"], x["r"]), midx) + s
    if k in ("tri", "chol"):
        # the representation tensor is tril/triu(leaf): masked entries are the constant 0 (not tied to the leaf)
        n_ = x["n"]
        keep = (lambda i, j: i <= j) if (k == "tri" and x.get("upper")) else (lambda i, j: i >= j)
        sc = _member(P, node.leaves[0], nb, (n_, n_), midx)
        sc = [(v, name, fl) if keep(q // n_, q % n_) else (0.0, "<masked>", 0) for q, (v, name, fl) in enumerate(sc)]
        return (["root"] if k == "chol" else []) + ["dense", str(n_), str(n_)], sc
    if k == "mul":  # MulLinearOperator(Root(a), Root(b)): the root branch of the hand-written derivative
        ta, sa = emit(node.kids[0].kids[0], P, nb, midx)
        tb, sb = emit(node.kids[1].kids[0], P, nb, midx)
        return ["mulroot"] + ta + tb, sa + sb
    if k in ("kron", "kdiag"):  # P factors = right-nested binary products (the loop of `_matmul` is this recursion)
        parts = [emit(kid, P, nb, midx) for kid in node.kids]
        t, s = parts[-1]
        for t2, s2 in reversed(parts[:-1]):
            t, s = ["kron"] + t2 + t, s2 + s
        return t, s
    if k == "mT":
        t, s = emit(node.kids[0], P, nb, midx)
        return ["tr"] + t, s
    if k == "kernel":
        # KernelLinearOperator with the catalogue's covariance closure k(x1, x2) = x1 x2^T (default derivative = autograd THROUGH the
        # closure down to x1, x2).  The closure itself is not a model constructor: the instance is encoded by the dense function it
        # denotes, Matmul(Dense(x1), Dense(x2)^T) — the gradient of a given dense function w.r.t. given leaves is unique, so the
        # model states exactly what x1, x2 must receive (a tied x1 = x2 accumulates both uses under the same leaf name).
        s1 = _member(P, node.leaves[0], nb, (x["n1"], x["f"]), midx)
        s2 = _member(P, node.leaves[0] if x.get("tied") else node.leaves[1], nb, (x["n2"], x["f"]), midx)
        return ["mm", "dense", str(x["n1"]), str(x["f"]), "tr", "dense", str(x["n2"]), str(x["f"])], s1 + s2
    if k == "catb":  # batch member midx of a Cat along batch dim 0 IS a batch member of one of the parts
        inner = tuple(x["inner"])
        if midx[0] < inner[0]:
            return emit(node.kids[0], P, inner, tuple(midx))
        return emit(node.kids[1], P, inner, (midx[0] - inner[0],) + tuple(midx[1:]))
    if k == "cat":
        ta, sa = emit(node.kids[0], P, nb, midx)
        tb, sb = emit(node.kids[1], P, nb, midx)
        return ["catr" if x["dim"] == -2 else "catc"] + ta + tb, sa + sb
    if k in ("bdiag", "binter", "sbatch"):
        t = None
        s = []
        for b in range(x["k"]):
            t, sb = emit(node.kids[0], P, tuple(nb) + (x["k"],), tuple(midx) + (b,))
            s += sb
        return [k, str(x["k"])] + t, s
    raise KeyError(k)


def all_leaves(node, acc=None):
    acc = [] if acc is None else acc
    for name in node.leaves:
        if name not in acc:
            acc.append(name)
    for kid in node.kids:
        all_leaves(kid, acc)
    return acc


class Inst:
    def __init__(self, name, node, leaves, batch, psd=False, exact=True, sym=(), tol=None, light=False):
        self.name, self.node, self.leaves, self.batch = name, node, leaves, tuple(batch)
        self.light = light  # nesting instances of the default-derivative classes: all bilinear / model cells, few entry points
        self.psd, self.exact, self.sym = psd, exact, set(sym)
        self.lean = lean_ok(node) or (node.kind == "brep" and lean_ok(node.kids[0]))
        self.names = all_leaves(node)
        self.nb = tuple(node.x["nbtop"]) if "nbtop" in node.x else self.batch

    def params(self, req=None):
        """Fresh leaves; `req` = set of names requiring grad (default all)."""
        return {k: v.clone().requires_grad_(req is None or k in req) for k, v in self.leaves.items()}

    def build(self, P):
        return build(self.node, P, self.nb)

    def dense(self, P):
        return dense(self.node, P, self.nb)

    def shape(self):
        return shape_of(self.node)


def _red(rng, nb, mode):
    """Batch shape of a leaf under node batch nb: full, or a broadcastable reduction."""
    nb = tuple(nb)
    if mode == "full" or not nb:
        return nb
    choice = rng.randrange(3)
    if choice == 0:
        return tuple(1 for _ in nb)
    if choice == 1:
        return nb[1:] if len(nb) > 1 else ()
    return (1,) + nb[1:]


RPAT = {"Dense", "Dense<psd>", "Diag", "Toeplitz", "Sum(Toeplitz,Diag)", "AddedDiag(Dense<psd>,Diag)", "Matmul(Dense,Dense)",
        "Interpolated(Dense)", "BlockDiag(Dense<psd>)", "SumBatch(Dense<psd>)", "Kronecker(Dense<psd>,Dense<psd>)", "Masked(Dense)",
        "ConstantMul(Dense<psd>)", "Chol", "LowRankRootAddedDiag", "Mul(Root,Root)"}


def instances(rng, batch, n, mode="full", psd=False, only_cpat=False, rpat_only=False):
    """Catalogue.  `mode`: "full" (every leaf has the node's batch shape) or "bcast" (leaves have smaller,
    broadcastable batch shapes and reach the constructors as expanded stride-0 views)."""
    B = tuple(batch)
    out = []
    cnt = [0]

    def nm(prefix):
        cnt[0] += 1
        return f"{prefix}{cnt[0]}"

    class Ctx:
        def __init__(self):
            self.leaves = {}

        def leaf(self, prefix, nb, core, gen, lead=None):
            name = nm(prefix)
            self.leaves[name] = gen((_red(rng, nb, mode) if lead is None else tuple(lead)) + tuple(core))
            return name

    def add(name, fn, psd_=False, exact=True, sym_prefix=("S",), cpat=False, light=False):
        if psd and not psd_:
            return
        if only_cpat and not ((cpat and not rpat_only) or name in RPAT):
            return
        c = Ctx()
        node = fn(c, B)
        sym = [k for k in c.leaves if k[0] in sym_prefix]
        inst = Inst(name, node, c.leaves, B, psd=psd_, exact=exact, sym=sym, light=light)
        if cpat or only_cpat:
            try:  # the constructor / `op * c` route may refuse a pattern: then it is not an instance
                inst.build(inst.params())
            except Exception:
                return
        out.append(inst)

    g = lambda lo=-3, hi=3: (lambda shp: ri(rng, shp, lo, hi))
    gpsd = lambda k: (lambda shp: psd_int(rng, shp[:-2], k))

    def gtoep(shp):
        t = ri(rng, shp, 0, 2)
        t[..., 0] = t[..., 0] + 2 * shp[-1]
        return t

    def gtril(shp):
        k = shp[-1]
        e = torch.eye(k, dtype=torch.float64)
        return torch.tril(ri(rng, shp, -2, 2)) * (1 - e) + torch.diag_embed(ri(rng, shp[:-1], 1, 3))

    # node constructors -----------------------------------------------------------------------
    def Dense(c, nb, a, b, gen=None):
        return Node("dense", leaves=[c.leaf("A", nb, (a, b), gen or g())], n=a, m=b)

    def DensePsd(c, nb, a):
        return Node("dense", leaves=[c.leaf("S", nb, (a, a), gpsd(a))], n=a, m=a)

    def Diag(c, nb, a, pos=True):
        return Node("diag", leaves=[c.leaf("d", nb, (a,), g(1, 4) if pos else g())], n=a)

    def CDiag(c, nb, a):
        return Node("cdiag", leaves=[c.leaf("c", nb, (1,), g(1, 4))], n=a)

    def Toep(c, nb, a, pd=True):
        return Node("toep", leaves=[c.leaf("t", nb, (a,), gtoep if pd else g())], n=a)

    def CMul(c, nb, kid, pos=True, raw=False):
        return Node("cmul", [kid], leaves=[c.leaf("k", nb, (), g(2, 3) if pos else g(-3, -1))], raw=raw)

    def Interp(c, nb, kid, r, s, q=2, tied=False, pos=False):
        n_, m_ = shape_of(kid)
        li = torch.tensor([[rng.randrange(n_) for _ in range(q)] for _ in range(r)])
        if tied:
            lv = c.leaf("v", nb, (r, q), g(1, 2))
            return Node("interp", [kid], leaves=[lv, lv], li=li, ri=li.clone(), tied=True)
        ri_ = torch.tensor([[rng.randrange(m_) for _ in range(q)] for _ in range(s)])
        return Node("interp", [kid], leaves=[c.leaf("v", nb, (r, q), g(-2, 2)), c.leaf("w", nb, (s, q), g(-2, 2))], li=li, ri=ri_)

    def Masked(c, nb, kid):
        n_, m_ = shape_of(kid)
        rows = torch.tensor([True] + [rng.random() < 0.5 for _ in range(n_ - 1)])
        cols = torch.tensor([rng.random() < 0.5 for _ in range(m_ - 1)] + [True])
        return Node("masked", [kid], rows=rows, cols=cols)

    # leaves ------------------------------------------------------------------------------------
    add("Dense", lambda c, nb: Dense(c, nb, n, n + 1))
    add("Dense<psd>", lambda c, nb: DensePsd(c, nb, n), True)
    add("Dense<psd|n+2>", lambda c, nb: DensePsd(c, nb, n + 2), True, light=True)
    add("Diag", lambda c, nb: Diag(c, nb, n), True)
    add("Diag<signed>", lambda c, nb: Diag(c, nb, n, pos=False))
    add("ConstantDiag", lambda c, nb: CDiag(c, nb, n), True)
    add("Toeplitz", lambda c, nb: Toep(c, nb, n), True, exact=False)
    add("Toeplitz<signed>", lambda c, nb: Toep(c, nb, n + 1, pd=False), exact=False)
    # hand-written nesting classes -----------------------------------------------------------------
    add("ConstantMul(Dense)", lambda c, nb: CMul(c, nb, Dense(c, nb, n, n + 1), pos=False))
    add("ConstantMul<rawconst>(Dense)", lambda c, nb: CMul(c, nb, Dense(c, nb, n, n), pos=False, raw=True))
    add("ConstantMul(Dense<psd>)", lambda c, nb: CMul(c, nb, DensePsd(c, nb, n)), True)
    add("ConstantMul(Toeplitz)", lambda c, nb: CMul(c, nb, Toep(c, nb, n)), True, exact=False)
    add("ConstantMul(ConstantMul(Diag))", lambda c, nb: CMul(c, nb, CMul(c, nb, Diag(c, nb, n), raw=True), pos=False))
    # ConstantMul: every broadcast pattern of the constant against the base batch, direct and through `op * c.view(...)`
    if len(B) == 2:
        pats = [(), B, (B[1],), (B[0], 1), (1, B[1]), (1, 1)]
    elif len(B) == 1:
        pats = [(), B, (1,)]
    else:
        pats = [()]
    for pat in pats:
        ptag = "x".join(map(str, pat)) or "scalar"
        add(f"ConstantMul<c={ptag}>(Dense)", lambda c, nb, pat=pat: Node("cmul", [Dense(c, nb, n, n + 1)], leaves=[c.leaf("k", nb, (), g(-3, -1), lead=pat)], raw=True), cpat=True)
        add(f"ConstantMul<c={ptag}>(Dense<psd>)", lambda c, nb, pat=pat: Node("cmul", [DensePsd(c, nb, n)], leaves=[c.leaf("k", nb, (), g(2, 3), lead=pat)], raw=True), True, cpat=True)
        add(f"MulConst<c={ptag}>(Dense<psd>)", lambda c, nb, pat=pat: Node("mulc", [DensePsd(c, nb, n)], leaves=[c.leaf("k", nb, (), g(2, 3), lead=pat)]), True, cpat=True)
        add(f"MulConst<c={ptag}>(Sum(Dense,Diag))", lambda c, nb, pat=pat: Node("mulc", [Node("sum", [Dense(c, nb, n, n), Diag(c, nb, n, pos=False)])], leaves=[c.leaf("k", nb, (), g(-3, -1), lead=pat)]), cpat=True)
        if len(pat) == len(B):  # Block* / SumBatch (batch B) x constants: _mul_constant builds a (*B, 1) constant over a (*B, k) base
            add(f"MulConst<c={ptag}>(BlockDiag(Dense<psd>))", lambda c, nb, pat=pat: Node("mulc", [Node("bdiag", [DensePsd(c, nb + (2,), n)], k=2)], leaves=[c.leaf("k", nb, (), g(2, 3), lead=pat)]), True, cpat=True)
            add(f"MulConst<c={ptag}>(BlockInterleaved(Dense))", lambda c, nb, pat=pat: Node("mulc", [Node("binter", [Dense(c, nb + (3,), n, n)], k=3)], leaves=[c.leaf("k", nb, (), g(-3, -1), lead=pat)]), cpat=True)
            add(f"MulConst<c={ptag}>(SumBatch(Dense<psd>))", lambda c, nb, pat=pat: Node("mulc", [Node("sbatch", [DensePsd(c, nb + (3,), n)], k=3)], leaves=[c.leaf("k", nb, (), g(2, 3), lead=pat)]), True, cpat=True)
    add("Matmul(Dense,Dense)", lambda c, nb: Node("mm", [Dense(c, nb, n, 2), Dense(c, nb, 2, n + 1)]))
    add("Matmul(Diag,Toeplitz)", lambda c, nb: Node("mm", [Diag(c, nb, n, pos=False), Toep(c, nb, n)]), exact=False)
    add("Matmul(Dense,ConstantMul(Dense))", lambda c, nb: Node("mm", [Dense(c, nb, n, n), CMul(c, nb, Dense(c, nb, n, 2), pos=False)]))
    add("Matmul(Matmul(Dense,Diag),Dense)", lambda c, nb: Node("mm", [Node("mm", [Dense(c, nb, 2, n), Diag(c, nb, n, pos=False)]), Dense(c, nb, n, n)]))
    add("Sum(Dense,Dense)", lambda c, nb: Node("sum", [Dense(c, nb, n, n + 1), Dense(c, nb, n, n + 1)]))
    add("Sum(Dense,Diag,ConstantDiag)", lambda c, nb: Node("sum", [Dense(c, nb, n, n), Diag(c, nb, n, pos=False), CDiag(c, nb, n)]))
    add("Sum(Toeplitz,Diag)", lambda c, nb: Node("sum", [Toep(c, nb, n), Diag(c, nb, n)]), True, exact=False)
    add("Sum(Matmul,ConstantMul)", lambda c, nb: Node("sum", [Node("mm", [Dense(c, nb, n, 2), Dense(c, nb, 2, n)]), CMul(c, nb, Dense(c, nb, n, n), pos=False)]))
    add("AddedDiag(Dense<psd>,Diag)", lambda c, nb: Node("addeddiag", [DensePsd(c, nb, n), Diag(c, nb, n)]), True)
    add("AddedDiag(Toeplitz,ConstantDiag)", lambda c, nb: Node("addeddiag", [Toep(c, nb, n), CDiag(c, nb, n)]), True, exact=False)
    add("PsdSum(Dense<psd>,Diag)", lambda c, nb: Node("psdsum", [DensePsd(c, nb, n), Diag(c, nb, n)]), True)
    add("Masked(Dense)", lambda c, nb: Masked(c, nb, Dense(c, nb, n + 1, n + 2)))
    add("Masked(ConstantMul(Dense))", lambda c, nb: Masked(c, nb, CMul(c, nb, Dense(c, nb, n + 1, n + 1), pos=False)))
    add("Masked(Sum(Toeplitz,Diag))", lambda c, nb: Masked(c, nb, Node("sum", [Toep(c, nb, n + 1), Diag(c, nb, n + 1)])), exact=False)
    add("Interpolated(Dense)", lambda c, nb: Interp(c, nb, Dense(c, nb, n + 1, n + 1), n, n + 2))
    add("Interpolated<eqrows>(Dense)", lambda c, nb: Interp(c, nb, Dense(c, nb, n + 1, n + 1), n, n))
    add("Sum(Interpolated<eqrows>(Dense),Dense)", lambda c, nb: Node("sum", [Interp(c, nb, Dense(c, nb, n + 1, n + 1), n, n), Dense(c, nb, n, n)]))
    add("Interpolated<rectbase>(Dense)", lambda c, nb: Interp(c, nb, Dense(c, nb, n + 1, n), n, n + 1))
    add("Interpolated<q3>(Diag)", lambda c, nb: Interp(c, nb, Diag(c, nb, n + 1, pos=False), n, 2, q=3))
    add("Interpolated(Toeplitz)", lambda c, nb: Interp(c, nb, Toep(c, nb, n + 1), n, n), exact=False)
    add("Interpolated(ConstantMul(Dense))", lambda c, nb: Interp(c, nb, CMul(c, nb, Dense(c, nb, n, n), pos=False), 2, n))
    add("ConstantMul(Interpolated(Dense))", lambda c, nb: CMul(c, nb, Interp(c, nb, Dense(c, nb, n, n), n, 2), pos=False))
    add("Matmul(Interpolated(Dense),Dense)", lambda c, nb: Node("mm", [Interp(c, nb, Dense(c, nb, n, n), 2, n), Dense(c, nb, n, 2)]))
    add("Mul(Root,Root)", lambda c, nb: Node("mul", [Node("root", [Dense(c, nb, n, 2, g(-2, 2))]), Node("root", [Dense(c, nb, n, 2, g(-2, 2))])]))
    add("Mul(Root,Root(Matmul))", lambda c, nb: Node("mul", [Node("root", [Dense(c, nb, n, 2, g(-2, 2))]),
                                                             Node("root", [Node("mm", [Diag(c, nb, n, pos=False), Dense(c, nb, n, 1, g(-2, 2))])])]))
    add("Root(Dense)", lambda c, nb: Node("root", [Dense(c, nb, n, 2)]))
    # block / batch structure -------------------------------------------------------------------------------
    for kblk in (2, 3):
        add(f"BlockDiag<k{kblk}>(Dense)", lambda c, nb, kb=kblk: Node("bdiag", [Dense(c, nb + (kb,), n, n)], k=kb))
        add(f"BlockInterleaved<k{kblk}>(Dense)", lambda c, nb, kb=kblk: Node("binter", [Dense(c, nb + (kb,), n, n)], k=kb))
        add(f"SumBatch<k{kblk}>(Dense)", lambda c, nb, kb=kblk: Node("sbatch", [Dense(c, nb + (kb,), n, n)], k=kb))
    add("BlockDiag(Dense<psd>)", lambda c, nb: Node("bdiag", [DensePsd(c, nb + (2,), n)], k=2), True)
    add("BlockInterleaved(Dense<psd>)", lambda c, nb: Node("binter", [DensePsd(c, nb + (2,), n)], k=2), True)
    add("SumBatch(Dense<psd>)", lambda c, nb: Node("sbatch", [DensePsd(c, nb + (2,), n)], k=2), True)
    add("BlockDiag(Toeplitz)", lambda c, nb: Node("bdiag", [Toep(c, nb + (2,), n)], k=2), True, exact=False)
    add("BlockInterleaved(ConstantMul(Dense))", lambda c, nb: Node("binter", [CMul(c, nb + (2,), Dense(c, nb + (2,), n, n), pos=False)], k=2))
    add("BlockDiag(Matmul(Dense,Diag))", lambda c, nb: Node("bdiag", [Node("mm", [Dense(c, nb + (2,), n, n), Diag(c, nb + (2,), n, pos=False)])], k=2))
    add("SumBatch(Interpolated(Dense))", lambda c, nb: Node("sbatch", [Interp(c, nb + (2,), Dense(c, nb + (2,), n, n), 2, n)], k=2))
    add("ConstantMul(BlockDiag(Dense))", lambda c, nb: CMul(c, nb, Node("bdiag", [Dense(c, nb + (2,), 2, 2)], k=2), pos=False))
    add("Sum(BlockInterleaved(Dense),Diag)", lambda c, nb: Node("sum", [Node("binter", [Dense(c, nb + (2,), 2, 2)], k=2), Diag(c, nb, 4, pos=False)]))
    rep = (2,) + (1,) * len(B)
    nbtop = tuple(r * b for r, b in zip(rep, (1,) * (len(rep) - len(B)) + B))
    add("BatchRepeat(Dense<psd>)", lambda c, nb: Node("brep", [DensePsd(c, nb, n)], rep=rep, inner=nb, nbtop=nbtop), True)
    add("BatchRepeat(Toeplitz)", lambda c, nb: Node("brep", [Toep(c, nb, n)], rep=rep, inner=nb, nbtop=nbtop), True, exact=False)
    add("BatchRepeat(ConstantMul(Dense))", lambda c, nb: Node("brep", [CMul(c, nb, Dense(c, nb, n, n), pos=False)], rep=rep, inner=nb, nbtop=nbtop))
    add("BatchRepeat(Sum(Dense,Diag))", lambda c, nb: Node("brep", [Node("sum", [Dense(c, nb, n, n), Diag(c, nb, n, pos=False)])], rep=rep, inner=nb, nbtop=nbtop))
    if B:
        rep2 = (3,) + (1,) * (len(B) - 1)
        nbtop2 = tuple(r * b for r, b in zip(rep2, B))
        add("BatchRepeat<samerank>(Dense)", lambda c, nb: Node("brep", [Dense(c, (1,) + nb[1:], n, n)], rep=rep2, inner=(1,) + nb[1:], nbtop=(3,) + nb[1:]))
    add("BatchRepeat<rect>(Dense)", lambda c, nb: Node("brep", [Dense(c, nb, n, n + 1)], rep=rep, inner=nb, nbtop=nbtop))
    # classes relying on the default (autograd) derivative, alone and under hand-written parents ---------------
    add("Kronecker(Dense<psd>,Dense<psd>)", lambda c, nb: Node("kron", [DensePsd(c, nb, 2), DensePsd(c, nb, n)]), True)
    add("Kronecker<rect>(Dense,Dense)", lambda c, nb: Node("kron", [Dense(c, nb, 2, 3), Dense(c, nb, n, 2)]))
    add("Kronecker(Toeplitz,Diag)", lambda c, nb: Node("kron", [Toep(c, nb, n), Diag(c, nb, 2)]), True, exact=False)
    add("KroneckerDiag", lambda c, nb: Node("kdiag", [Diag(c, nb, 2), Diag(c, nb, n)]), True)
    add("KroneckerAddedDiag<diag>", lambda c, nb: Node("kpad", [Node("kron", [DensePsd(c, nb, 2), DensePsd(c, nb, n)]), Diag(c, nb, 2 * n)]), True)
    add("KroneckerAddedDiag<const>", lambda c, nb: Node("kpad", [Node("kron", [DensePsd(c, nb, 2), DensePsd(c, nb, n)]), CDiag(c, nb, 2 * n)]), True)
    add("SumKronecker", lambda c, nb: Node("sumkron", [Node("kron", [DensePsd(c, nb, 2), DensePsd(c, nb, n)]), Node("kron", [DensePsd(c, nb, 2), DensePsd(c, nb, n)])]), True)
    add("Sum(Kronecker,Dense)", lambda c, nb: Node("sum", [Node("kron", [DensePsd(c, nb, 2), DensePsd(c, nb, n)]), DensePsd(c, nb, 2 * n)]), True)
    add("ConstantMul(Kronecker)", lambda c, nb: CMul(c, nb, Node("kron", [DensePsd(c, nb, 2), DensePsd(c, nb, n)])), True)
    add("Chol", lambda c, nb: Node("chol", leaves=[c.leaf("L", nb, (n, n), gtril)], n=n), True)
    add("Triangular", lambda c, nb: Node("tri", leaves=[c.leaf("L", nb, (n, n), gtril)], n=n))
    add("LowRankRoot", lambda c, nb: Node("lowrankroot", leaves=[c.leaf("R", nb, (n, 2), g(-2, 2))], n=n, r=2))
    add("LowRankRootAddedDiag", lambda c, nb: Node("lrrad", [Diag(c, nb, n)], leaves=[c.leaf("R", nb, (n, 2), g(-2, 2))], n=n, r=2), True)
    add("Kernel", lambda c, nb: Node("kernel", leaves=[c.leaf("x", nb, (n, 2), g(-2, 2)), c.leaf("y", nb, (n + 1, 2), g(-2, 2))], n1=n, n2=n + 1, f=2))
    add("Sum(Kernel<sym>,Diag)", lambda c, nb: Node("sum", [Node("kernel", leaves=[c.leaf("x", nb, (n, 2), g(-2, 2))], n1=n, n2=n, f=2, tied=True), Diag(c, nb, n)]), True)
    add("Transpose(Matmul(Dense,Diag))", lambda c, nb: Node("mT", [Node("mm", [Dense(c, nb, n, n + 1), Diag(c, nb, n + 1, pos=False)])]))
    add("Transpose(Interpolated(Dense))", lambda c, nb: Node("mT", [Interp(c, nb, Dense(c, nb, n, n), 2, n + 1)]))
    add("Cat<rows>(Dense,Toeplitz)", lambda c, nb: Node("cat", [Dense(c, nb, 2, n), Toep(c, nb, n)], dim=-2), exact=False)
    add("Matmul(Cat<cols>,Dense)", lambda c, nb: Node("mm", [Node("cat", [Dense(c, nb, n, 2), Dense(c, nb, n, 1)], dim=-1), Dense(c, nb, 3, 2)]))
    add("Interpolated<sym>(Dense<psd>)+Diag", lambda c, nb: Node("sum", [Interp(c, nb, DensePsd(c, nb, n + 1), n, n, tied=True), Diag(c, nb, n)]), True)
    # nestings of the classes with the default derivative (reverse sweep through their own `_matmul`) with each other and with
    # hand-written parents / children: all of them are in the Lean model (root, mulroot, kron, catr/catc, tr)
    Root = lambda kid: Node("root", [kid])
    Kron = lambda *kids: Node("kron", list(kids))
    add("Kronecker3(Dense<psd>,Diag,Dense<psd>)", lambda c, nb: Kron(DensePsd(c, nb, 2), Diag(c, nb, 2), DensePsd(c, nb, 2)), True, light=True)
    add("Kronecker3<rect>(Dense,Dense,Dense)", lambda c, nb: Kron(Dense(c, nb, 2, 1), Dense(c, nb, 1, 2), Dense(c, nb, n, 2)), light=True)
    add("Root(Matmul(Dense,Diag))", lambda c, nb: Root(Node("mm", [Dense(c, nb, n, 2), Diag(c, nb, 2, pos=False)])), light=True)
    add("Kronecker(Root(Dense),Toeplitz)", lambda c, nb: Kron(Root(Dense(c, nb, 2, 1)), Toep(c, nb, n)), exact=False, light=True)
    add("Cat<rows>(Kronecker,Root)", lambda c, nb: Node("cat", [Kron(Dense(c, nb, 1, 2), Dense(c, nb, 2, 2)), Root(Dense(c, nb, 4, 1))], dim=-2), light=True)
    add("Cat<cols>(Transpose(Matmul),Toeplitz)", lambda c, nb: Node("cat", [Node("mT", [Node("mm", [Dense(c, nb, 2, n), Diag(c, nb, n, pos=False)])]), Toep(c, nb, n)], dim=-1), exact=False, light=True)
    add("BlockDiag(Root(Dense))", lambda c, nb: Node("bdiag", [Root(Dense(c, nb + (2,), n, 2))], k=2), light=True)
    add("SumBatch(Kronecker(Dense,Dense))", lambda c, nb: Node("sbatch", [Kron(Dense(c, nb + (2,), 2, 2), Dense(c, nb + (2,), 2, 1))], k=2), light=True)
    add("BatchRepeat(Kronecker(Dense<psd>,Dense<psd>))", lambda c, nb: Node("brep", [Kron(DensePsd(c, nb, 2), DensePsd(c, nb, 2))], rep=rep, inner=nb, nbtop=nbtop), True, light=True)
    add("Transpose(Kronecker<rect>)", lambda c, nb: Node("mT", [Kron(Dense(c, nb, 2, 3), Dense(c, nb, n, 2))]), light=True)
    add("ConstantMul(Root(Dense))", lambda c, nb: CMul(c, nb, Root(Dense(c, nb, n, 2)), pos=False), light=True)
    add("Sum(Chol,LowRankRoot)", lambda c, nb: Node("sum", [Node("chol", leaves=[c.leaf("L", nb, (n, n), gtril)], n=n),
                                                            Node("lowrankroot", leaves=[c.leaf("R", nb, (n, 2), g(-2, 2))], n=n, r=2)]), True, light=True)
    add("Interpolated(Kronecker)", lambda c, nb: Interp(c, nb, Kron(Dense(c, nb, 2, 2), Dense(c, nb, 2, 2)), n, 2), light=True)
    add("Mul(Root(Kronecker),Root(Dense))", lambda c, nb: Node("mul", [Root(Kron(Dense(c, nb, 2, 1, g(-2, 2)), Dense(c, nb, 2, 1, g(-2, 2)))),
                                                                       Root(Dense(c, nb, 4, 2, g(-2, 2)))]), light=True)
    add("Masked(Kronecker)", lambda c, nb: Masked(c, nb, Kron(Dense(c, nb, 2, 2), Dense(c, nb, 2, n))), light=True)
    add("Matmul(Triangular,Kronecker)", lambda c, nb: Node("mm", [Node("tri", leaves=[c.leaf("L", nb, (4, 4), gtril)], n=4, upper=True),
                                                                  Kron(Dense(c, nb, 2, 1), Dense(c, nb, 2, 2))]), light=True)
    # CatLinearOperator along a BATCH dimension (session 5): parts of batch B, node batch (2·B[0], *B[1:]); default derivative =
    # autograd through the per-part `_matmul` on the batch slices; in the Lean encoding a batch member is a member of one part
    if B:
        topB = (2 * B[0],) + B[1:]
        CatB = lambda a, b, nb: Node("catb", [a, b], inner=tuple(nb), nbtop=(2 * nb[0],) + tuple(nb[1:]))  # noqa
        add("Cat<batch>(Dense,Dense)", lambda c, nb: CatB(Dense(c, nb, n, n + 1), Dense(c, nb, n, n + 1), nb), light=True)
        add("Cat<batch>(Matmul(Dense,Diag),Toeplitz)", lambda c, nb: CatB(Node("mm", [Dense(c, nb, n, n), Diag(c, nb, n, pos=False)]), Toep(c, nb, n), nb),
            exact=False, light=True)
        add("Sum(Cat<batch>(Dense,Kronecker),Dense)", lambda c, nb: Node("sum", [CatB(Dense(c, nb, 4, 4), Kron(Dense(c, nb, 2, 2), Dense(c, nb, 2, 2)), nb),
                                                                              Dense(c, topB, 4, 4)], nbtop=topB), light=True)
    return out
