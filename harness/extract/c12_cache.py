"""Translator for C12: every `@cached(...)` decoration and every memoize-API call site of /repo
-> lean/LinOp/Generated/C12Table.lean.  Regenerated from the working tree on every run."""
import ast
import glob
import os

from ..common import LEAN, REPO

APIS = ("add_to_cache", "get_from_cache", "pop_from_cache", "pop_from_cache_ignore_args", "_is_in_cache_ignore_args",
        "_is_in_cache_ignore_all_args", "_is_in_cache", "_add_to_cache", "_get_from_cache", "_add_to_cache_ignore_args",
        "_get_from_cache_ignore_args", "clear_cache_hook")


def lean_str(s):
    return '"' + s.replace("\\", "\\\\").replace('"', '\\"') + '"'


def _deco_info(dec):
    """-> (is_cached, name or None, ignore_args) for a decorator node."""
    if isinstance(dec, ast.Name) and dec.id == "cached":
        return True, None, False
    if isinstance(dec, ast.Call) and isinstance(dec.func, ast.Name) and dec.func.id == "cached":
        name, ign = None, False
        for kw in dec.keywords:
            if kw.arg == "name":
                name = kw.value.value if isinstance(kw.value, ast.Constant) else "<dynamic>"
            if kw.arg == "ignore_args":
                ign = bool(kw.value.value) if isinstance(kw.value, ast.Constant) else True
        return True, name, ign
    return False, None, False


def _literal(node):
    return ast.literal_eval(node) if isinstance(node, ast.Constant) else None


def _names(node):
    return {n.id for n in ast.walk(node) if isinstance(n, ast.Name)}


def _fn_params(fnode):
    a = fnode.args
    ps = [x.arg for x in a.posonlyargs + a.args + a.kwonlyargs]
    if a.vararg:
        ps.append(a.vararg.arg)
    if a.kwarg:
        ps.append(a.kwarg.arg)
    return [x for x in ps if x != "self"]


def _body_uses(fnode):
    """Parameters (other than self) that occur anywhere in the body: a parameter that does not occur cannot influence the value."""
    used = set()
    for st in fnode.body:
        used |= _names(st)
    return [x for x in _fn_params(fnode) if x in used]


def _slice_deps(fnode, call, value_nodes):
    """Backward slice (syntactic, flow-insensitive over-approximation) of the expressions `value_nodes` inside `fnode`:
    names in the expressions, closed under `local := rhs` (every assignment / for / with / comprehension target of the
    function) and under the tests of every `if` / `while` / `for` enclosing the call.  -> (parameters reached, locals reached)"""
    assigns = {}

    def tgt_names(t):
        return {n.id for n in ast.walk(t) if isinstance(n, ast.Name)}
    for n in ast.walk(fnode):
        if isinstance(n, ast.Assign):
            for t in n.targets:
                for nm in tgt_names(t):
                    assigns.setdefault(nm, set()).update(_names(n.value))
        elif isinstance(n, (ast.AugAssign, ast.AnnAssign)) and n.value is not None:
            for nm in tgt_names(n.target):
                assigns.setdefault(nm, set()).update(_names(n.value))
        elif isinstance(n, (ast.For, ast.comprehension)):
            for nm in tgt_names(n.target):
                assigns.setdefault(nm, set()).update(_names(n.iter))
        elif isinstance(n, ast.With):
            for it in n.items:
                if it.optional_vars is not None:
                    for nm in tgt_names(it.optional_vars):
                        assigns.setdefault(nm, set()).update(_names(it.context_expr))
    ctrl = set()

    def walk(node, tests):
        if node is call:
            for t in tests:
                ctrl.update(_names(t))
            return True
        for ch in ast.iter_child_nodes(node):
            extra = []
            if isinstance(node, (ast.If, ast.While)) and ch is not node.test:
                extra = [node.test]
            if isinstance(node, ast.For) and ch is not node.iter:
                extra = [node.iter]
            if walk(ch, tests + extra):
                return True
        return False
    walk(fnode, [])
    reach = set(ctrl)
    for v in value_nodes:
        reach |= _names(v)
    work = list(reach)
    while work:
        x = work.pop()
        for y in assigns.get(x, ()):
            if y not in reach:
                reach.add(y)
                work.append(y)
    params = _fn_params(fnode)
    return [x for x in params if x in reach], reach


def extract_memoize():
    """The key expressions of utils/memoize.py itself: every subscript / pop / membership test on `_memoize_cache`, and how
    `kwargs_pkl` is built -> [(function, role, expression text)]."""
    path = os.path.join(REPO, "linear_operator", "utils", "memoize.py")
    tree = ast.parse(open(path).read())
    rows = []

    def is_cache(n):
        return isinstance(n, ast.Attribute) and n.attr == "_memoize_cache"

    def visit(node, fn):
        for ch in ast.iter_child_nodes(node):
            f2 = ch.name if isinstance(ch, (ast.FunctionDef, ast.AsyncFunctionDef)) else fn
            if fn == "g" and isinstance(ch, (ast.FunctionDef,)):
                f2 = ch.name
            if isinstance(ch, ast.FunctionDef) and ch.name == "g":
                f2 = (fn or "") + ".g"
                a = ch.args
                rows.append((f2, "signature", ",".join([x.arg for x in a.args] + (["*" + a.vararg.arg] if a.vararg else [])
                                                          + (["**" + a.kwarg.arg] if a.kwarg else []))))
            if isinstance(ch, ast.Subscript) and is_cache(ch.value):
                rows.append((fn or "", "store" if isinstance(ch.ctx, ast.Store) else "load", ast.unparse(ch.slice)))
            if isinstance(ch, ast.Call) and isinstance(ch.func, ast.Attribute) and ch.func.attr == "pop" and is_cache(ch.func.value):
                rows.append((fn or "", "pop", ",".join(ast.unparse(a) for a in ch.args)))
            if isinstance(ch, ast.Compare) and len(ch.ops) == 1 and isinstance(ch.ops[0], ast.In):
                if is_cache(ch.comparators[0]):
                    rows.append((fn or "", "in", ast.unparse(ch.left)))
                elif any(is_cache(x) for x in ast.walk(ch.comparators[0])):
                    rows.append((fn or "", "in-derived", ast.unparse(ch.left) + " in " + ast.unparse(ch.comparators[0])))
            if isinstance(ch, ast.Assign) and any(isinstance(t, ast.Name) and t.id == "kwargs_pkl" for t in ch.targets):
                rows.append((fn or "", "kwargs_pkl", ast.unparse(ch.value)))
            if isinstance(ch, ast.keyword) and ch.arg == "kwargs_pkl" and not (isinstance(ch.value, ast.Name) and ch.value.id == "kwargs_pkl"):
                rows.append((fn or "", "kwargs_pkl", ast.unparse(ch.value)))
            if isinstance(ch, ast.Call) and isinstance(ch.func, ast.Name) and ch.func.id in ("_add_to_cache", "_get_from_cache", "_is_in_cache",
                                                                                           "_add_to_cache_ignore_args", "_get_from_cache_ignore_args",
                                                                                           "_is_in_cache_ignore_args") and fn is not None:
                rows.append((fn or "", "call:" + ch.func.id, ",".join([ast.unparse(a) for a in ch.args] + [f"{k.arg}={ast.unparse(k.value)}" for k in ch.keywords])))
            visit(ch, f2)
    visit(tree, None)
    return rows


def extract():
    decos, sites, chol_calls = [], [], []
    files = sorted(glob.glob(os.path.join(REPO, "linear_operator", "**", "*.py"), recursive=True))
    for path in files:
        rel = os.path.relpath(path, REPO)
        if "/test/" in rel or rel.endswith("utils/memoize.py"):
            continue
        try:
            tree = ast.parse(open(path).read())
        except SyntaxError:
            continue

        def visit(node, cls, fn, env=None, fnode=None):
            env = dict(env or {})
            if isinstance(node, (ast.GeneratorExp, ast.ListComp, ast.SetComp)):
                for gen in node.generators:
                    if isinstance(gen.target, ast.Name) and isinstance(gen.iter, (ast.Tuple, ast.List)) \
                            and all(isinstance(e, ast.Constant) for e in gen.iter.elts):
                        env[gen.target.id] = [e.value for e in gen.iter.elts]
            for ch in ast.iter_child_nodes(node):
                if isinstance(ch, ast.ClassDef):
                    visit(ch, ch.name, fn, env, fnode)
                elif isinstance(ch, (ast.FunctionDef, ast.AsyncFunctionDef)):
                    for dec in ch.decorator_list:
                        ok, name, ign = _deco_info(dec)
                        if ok:
                            params = [a.arg for a in ch.args.args[1:]] + [a.arg for a in ch.args.kwonlyargs]
                            if ch.args.vararg or ch.args.kwarg:
                                params.append("*")
                            decos.append({"file": rel, "cls": cls or "", "fn": ch.name, "name": name if name is not None else "fn:" + ch.name,
                                          "ignore": ign, "params": params, "uses": _body_uses(ch)})
                    visit(ch, cls, ch.name, env, ch)
                else:
                    if isinstance(ch, ast.Call):
                        f = ch.func
                        fname = f.id if isinstance(f, ast.Name) else (f.attr if isinstance(f, ast.Attribute) else None)
                        if fname in APIS:
                            nm = None
                            if len(ch.args) >= 2:
                                nm = _literal(ch.args[1])
                            tgt = ast.unparse(ch.args[0]) if ch.args else ""
                            npos = len(ch.args) - (3 if fname == "add_to_cache" else 2)
                            kws = [f"{k.arg}={ast.unparse(k.value)}" for k in ch.keywords]
                            nms = [nm] if nm is not None else ["<dynamic>"]
                            if nm is None and len(ch.args) >= 2 and isinstance(ch.args[1], ast.Name) and ch.args[1].id in env:
                                nms = env[ch.args[1].id]
                            deps, keyed, fresh = [], [], False
                            if fname == "add_to_cache" and fnode is not None and len(ch.args) >= 3:
                                deps, reach = _slice_deps(fnode, ch, [ch.args[2]])
                                knames = set()
                                for a in list(ch.args[3:]) + [k.value for k in ch.keywords]:
                                    knames |= _names(a)
                                keyed = [x for x in _fn_params(fnode) if x in knames]
                                # the target is an object constructed in this function (not self, not a parameter)
                                fresh = isinstance(ch.args[0], ast.Name) and ch.args[0].id not in (["self"] + _fn_params(fnode)) and any(
                                    isinstance(n, ast.Assign) and any(isinstance(t, ast.Name) and t.id == ch.args[0].id for t in n.targets)
                                    for n in ast.walk(fnode))
                            for nm_ in nms:
                                sites.append({"file": rel, "cls": cls or "", "fn": fn or "", "api": fname, "name": nm_,
                                              "target": tgt, "nextra": max(npos, 0), "kwargs": kws, "deps": deps, "keyed": keyed,
                                              "fresh": fresh})
                        if fname == "_cholesky" and isinstance(f, ast.Attribute):
                            argtxt = ",".join([ast.unparse(a) for a in ch.args] + [f"{k.arg}={ast.unparse(k.value)}" for k in ch.keywords])
                            chol_calls.append({"file": rel, "cls": cls or "", "fn": fn or "", "recv": ast.unparse(f.value), "args": argtxt})
                    visit(ch, cls, fn, env, fnode)
        visit(tree, None, None)
    return {"decos": decos, "sites": sites, "chol_calls": chol_calls, "memo": extract_memoize()}


def generate():
    t = extract()
    out = ["-- GENERATED by harness/extract/c12_cache.py from /repo linear_operator/**/*.py (memoize users)",
           "-- Do not edit: regenerated on every check run.",
           "namespace LinOp.Generated.C12", "",
           "/-- One `@cached(...)` decoration. `name` is the cache name (`fn:<function>` when the decorator gives none). -/",
           "structure Deco where", "  cls : String", "  fn : String", "  name : String", "  ignoreArgs : Bool",
           "  params : List String",
           "  uses : List String   -- parameters that occur in the body (what the value can depend on)",
           "  deriving DecidableEq, Repr", "",
           "/-- One call of the memoize API. `nextra` = number of positional key arguments, `kwargs` = keyword key arguments. -/",
           "structure Site where", "  cls : String", "  fn : String", "  api : String", "  name : String", "  target : String",
           "  nextra : Nat", "  kwargs : List String",
           "  deps : List String     -- add_to_cache only: parameters of the enclosing function in the backward slice of the stored value",
           "  keyed : List String    -- add_to_cache only: parameters that occur in the key arguments of the call",
           "  targetFresh : Bool     -- add_to_cache only: the target is an object constructed in the enclosing function",
           "  deriving DecidableEq, Repr", "",
           "/-- One key expression of utils/memoize.py. -/",
           "structure MemoKey where", "  fn : String", "  role : String", "  expr : String", "  deriving DecidableEq, Repr", "",
           "/-- One call `<recv>._cholesky(<args>)`. -/",
           "structure CholCall where", "  cls : String", "  fn : String", "  recv : String", "  args : String",
           "  deriving DecidableEq, Repr", "",
           "def decos : List Deco := ["]
    rows = [f"  ⟨{lean_str(d['cls'])}, {lean_str(d['fn'])}, {lean_str(d['name'])}, {'true' if d['ignore'] else 'false'}, "
            f"[{', '.join(lean_str(p) for p in d['params'])}], [{', '.join(lean_str(p) for p in d['uses'])}]⟩" for d in t["decos"]]
    out.append(",\n".join(rows) + "]")
    out += ["", "def sites : List Site := ["]
    rows = [f"  ⟨{lean_str(s['cls'])}, {lean_str(s['fn'])}, {lean_str(s['api'])}, {lean_str(s['name'])}, {lean_str(s['target'])}, {s['nextra']}, "
            f"[{', '.join(lean_str(k) for k in s['kwargs'])}], [{', '.join(lean_str(k) for k in s['deps'])}], "
            f"[{', '.join(lean_str(k) for k in s['keyed'])}], {'true' if s['fresh'] else 'false'}⟩" for s in t["sites"]]
    out.append(",\n".join(rows) + "]")
    out += ["", "def cholCalls : List CholCall := ["]
    rows = [f"  ⟨{lean_str(c['cls'])}, {lean_str(c['fn'])}, {lean_str(c['recv'])}, {lean_str(c['args'])}⟩" for c in t["chol_calls"]]
    out.append(",\n".join(rows) + "]")
    out += ["", "def memoKeys : List MemoKey := ["]
    rows = [f"  ⟨{lean_str(a)}, {lean_str(b)}, {lean_str(c)}⟩" for a, b, c in t["memo"]]
    out.append(",\n".join(rows) + "]")
    out += ["", "end LinOp.Generated.C12", ""]
    text = "\n".join(out)
    path = os.path.join(LEAN, "LinOp", "Generated", "C12Table.lean")
    if not os.path.exists(path) or open(path).read() != text:
        with open(path, "w") as fh:
            fh.write(text)
    return t


def crosscheck(chk, table):
    """Dynamic cross-check: the decorations found in the source are the memoize wrappers present at run time."""
    import inspect
    import linear_operator.operators as O
    rt = set()
    seen_cls = set()
    for cname in dir(O):
        c = getattr(O, cname)
        if not isinstance(c, type) or c in seen_cls:
            continue
        for k in c.__mro__:
            if k in seen_cls or not k.__module__.startswith("linear_operator"):
                continue
            seen_cls.add(k)
            for attr, v in vars(k).items():
                f = v.fget if isinstance(v, property) else v
                code = getattr(f, "__code__", None)
                if code is None or not code.co_filename.endswith("memoize.py") or code.co_name != "g":
                    continue
                ign = "_is_in_cache_ignore_args" in code.co_names
                fv = dict(zip(code.co_freevars, [c_.cell_contents for c_ in (f.__closure__ or ())]))
                nm = fv.get("name")
                rt.add((k.__name__, attr, nm if nm is not None else "fn:" + attr, ign))
    src = {(d["cls"], d["fn"], d["name"], d["ignore"]) for d in table["decos"] if "operators/" in d["file"]}
    src_all = {(d["cls"], d["fn"], d["name"], d["ignore"]) for d in table["decos"]}
    missing = {x for x in rt if x not in src_all}
    extra = {x for x in src if x not in rt and x[0] not in ("KeOpsLinearOperator",)}
    if missing or extra:
        chk.proof_break("translator(C12Table)", f"decorations differ from run time: only-at-run-time={sorted(missing)[:5]} only-in-source={sorted(extra)[:5]}")
    del inspect


if __name__ == "__main__":
    import json
    print(json.dumps(generate(), indent=1)[:6000])
