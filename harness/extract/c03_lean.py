"""C03 — correspondence lines for the Lean driver (LinOp/C03/Driver.lean).

Every line carries its own expectation computed from torch / from the library's own helper functions:
  shape : Lean spec shape + element map  vs  torch on arange(numel).reshape(shape)   (validates the spec)
          Lean computeGetitemSize / movedToStart  vs  utils.getitem._compute_getitem_size / _is_tensor_index_moved_to_start
  slice : Lean sliceIndices vs Python range(*slice.indices(n))
  kron  : Lean kronIdx vs the indices KroneckerProductLinearOperator._get_indices hands to each factor (recorded)
  toep / bdiag / binter / brep / cat / split : Lean index arithmetic vs the dense matrix / the library's tables
"""
import torch


def enc_opt(v):
    return "n" if v is None else str(int(v))


def enc_item(it):
    if it is Ellipsis:
        return "e"
    if isinstance(it, slice):
        return f"s{enc_opt(it.start)};{enc_opt(it.stop)};{enc_opt(it.step)}"
    if isinstance(it, list):
        it = torch.tensor(it)
    if torch.is_tensor(it):
        if it.dim() == 0:
            return f"i{int(it)}"
        sh = "x".join(map(str, it.shape))
        return f"t{sh}:" + ",".join(str(int(v)) for v in it.reshape(-1).tolist())
    return f"i{int(it)}"


def fmt(l):
    l = list(l)
    return ",".join(str(int(v)) for v in l) if l else "-"


class Lines:
    def __init__(self, chk, enabled=True):
        self.chk, self.enabled = chk, enabled
        self.lines, self.expect, self.cells = [], [], []
        self.nidx = 0

    def add(self, line, expect, cell):
        self.lines.append(line)
        self.expect.append(expect)
        self.cells.append(cell)

    # ------------------------------------------------------------------ index tuples
    def add_index_case(self, shape, idx):
        self.nidx += 1
        every = 4 if self.chk.tier == "quick" else 8
        if not self.enabled or self.nidx % every:
            return
        from linear_operator.utils.getitem import _compute_getitem_size, _is_tensor_index_moved_to_start
        from linear_operator import settings
        numel = 1
        for s in shape:
            numel *= s
        x = torch.arange(numel).reshape(shape)
        ref = x[idx]
        # the library's normalisation of the index (what __getitem__ hands to its helpers)
        d = len(shape)
        norm = [torch.tensor(i) if isinstance(i, list) else i for i in idx]
        norm = [int(i) if torch.is_tensor(i) and i.dim() == 0 else i for i in norm]
        for p, it in enumerate(norm):
            if it is Ellipsis:
                norm = norm[:p] + [slice(None)] * (d - (len(norm) - 1)) + norm[p + 1:]
                break
        norm += [slice(None)] * (d - len(norm))
        with settings.debug(False):
            m = list(_compute_getitem_size(x, tuple(norm)))
        mv = 1 if _is_tensor_index_moved_to_start(tuple(norm)) else 0
        # x indexed with the library's converted all-tensor index (tensor indices flattened first, as __getitem__ does)
        from linear_operator.utils.getitem import _convert_indices_to_tensors
        tshape = torch.broadcast_shapes(*[i.shape for i in norm if torch.is_tensor(i)])
        flat = [i.expand(tshape).reshape(-1) if torch.is_tensor(i) else i for i in norm]
        has_t = any(torch.is_tensor(i) for i in norm)
        conv = x[_convert_indices_to_tensors(x, flat)] if has_t else ref  # the library converts only when tensors are present
        if has_t and len(tshape) > 1:  # the un-flattening view of __getitem__
            pos = 0
            if not mv:
                for i in norm:
                    if torch.is_tensor(i):
                        break
                    pos += isinstance(i, slice)
            conv = conv.view(*conv.shape[:pos], *tshape, *conv.shape[pos + 1:])
        exp = f"S={fmt(ref.shape)}|M={fmt(m)}|mv={mv}|E={fmt(ref.reshape(-1).tolist())}|C={fmt(conv.reshape(-1).tolist())}"
        self.add(f"shape {fmt(shape)} | " + " ".join(enc_item(i) for i in idx), exp, "C03/lean/shape")

    # ------------------------------------------------------------------ per-class arithmetic
    def add_class_cases(self, name, meta, op, dense, rng):
        if not self.enabled:
            return
        import linear_operator.operators as O
        nb = dense.dim() - 2
        bidx = tuple(rng.randrange(s) for s in dense.shape[:nb])
        R, Cn = dense.shape[-2], dense.shape[-1]
        reps = 6 if self.chk.tier == "quick" else 20
        if isinstance(op, O.KroneckerProductLinearOperator) and type(op)._get_indices is O.KroneckerProductLinearOperator._get_indices:
            rows = [f.size(-2) for f in op.linear_ops]
            cols = [f.size(-1) for f in op.linear_ops]
            for _ in range(reps):
                i, j = rng.randrange(R), rng.randrange(Cn)
                rec = []
                saved = []
                for f in op.linear_ops:
                    orig = f._get_indices

                    def wrapped(r, c, *b, _o=orig):
                        rec.append((int(r.reshape(-1)[0]), int(c.reshape(-1)[0])))
                        return _o(r, c, *b)
                    saved.append((f, orig))
                    object.__setattr__(f, "_get_indices", wrapped)
                try:
                    val = op._get_indices(torch.tensor([i]), torch.tensor([j]), *[torch.tensor([b]) for b in bidx])
                finally:
                    for f, orig in saved:
                        try:
                            object.__delattr__(f, "_get_indices")
                        except AttributeError:
                            pass
                ok = abs(float(val.reshape(-1)[0]) - float(dense[bidx + (i, j)])) < 1e-6
                self.add(f"kron {fmt(rows)} {i}", fmt(r for r, _ in rec) + ("" if ok else "!value"), f"C03/lean/kron/{name}")
                self.add(f"kron {fmt(cols)} {j}", fmt(c for _, c in rec), f"C03/lean/kron/{name}")
        if isinstance(op, O.ToeplitzLinearOperator):
            n = R
            for _ in range(reps):
                i, j = rng.randrange(n), rng.randrange(n)
                col = op.column[bidx]
                want = [k for k in range(n) if True]
                # the model index must read the dense entry
                self.add(f"toep {n} {i} {j}", None, f"C03/lean/toep/{name}")
                self.expect[-1] = ("fn", lambda out, col=col, v=float(dense[bidx + (i, j)]), i=i, j=j:
                                   abs(float(col[int(out)]) - v) < 1e-6 and int(out) == abs(i - j))
        if "block" in meta and isinstance(op, O.BlockLinearOperator):
            kind, k, n = meta["block"]
            base = op.base_linear_op.to_dense()
            for _ in range(reps):
                i, j = rng.randrange(R), rng.randrange(Cn)
                v = float(dense[bidx + (i, j)])

                def chk_fn(out, base=base, v=v):
                    b, r, c, on = map(int, out.split(","))
                    got = float(base[bidx + (b, r, c)]) if on else 0.0
                    return abs(got - v) < 1e-6
                line = f"bdiag {n} {n} {i} {j}" if kind == "diag" else f"binter {k} {i} {j}"
                self.add(line, ("fn", chk_fn), f"C03/lean/block/{name}")
        if isinstance(op, O.BatchRepeatLinearOperator) and nb:
            base = op.base_linear_op.to_dense()
            bsh = base.shape[:-2]
            for _ in range(reps):
                full = tuple(rng.randrange(s) for s in dense.shape[:nb])
                tail = full[len(full) - len(bsh):]
                for s, b in zip(bsh, tail):
                    self.add(f"brep {s} {b}", str(b % s), f"C03/lean/brep/{name}")
                src = tuple(b % s for s, b in zip(bsh, tail))
                if not torch.equal(base[src], dense[full]):
                    self.chk.violation(f"C03/{name}/batchrepeat-layout", f"{name}: dense[{full}] != base[{src}]", None)
        if isinstance(op, O.CatLinearOperator):
            sizes = [int(s) for s in op.cat_dim_sizes]
            n = sum(sizes)
            cum = [int(c) for c in op.cat_dim_cum_sizes]
            for _ in range(reps):
                i = rng.randrange(n)
                p = int(op.idx_to_tensor_idx[i])
                self.add(f"cat {fmt(sizes)} {i}", f"{p},{i - cum[p]}", f"C03/lean/cat/{name}")
                a = rng.choice([None] + list(range(-n - 2, n + 3)))
                b = rng.choice([None] + list(range(-n - 2, n + 3)))
                try:
                    tis, sls = op._split_slice(slice(a, b, None))
                    st0 = sls[0].start if sls[0].start is not None else 0
                    sp1 = sls[-1].stop
                    if sp1 is None:
                        continue
                    exp = f"{tis[0]},{st0},{tis[-1]},{sp1}"
                    if st0 < 0 or sp1 < 0:
                        continue
                except Exception:
                    continue
                self.add(f"split {fmt(sizes)} {enc_opt(a)} {enc_opt(b)}", exp, f"C03/lean/split/{name}")

    # ------------------------------------------------------------------ helpers
    def add_helper_cases(self, rng):
        if not self.enabled:
            return
        for _ in range(400 if self.chk.tier == "quick" else 3000):
            n = rng.randrange(0, 9)
            a = rng.choice([None] + list(range(-12, 13)))
            b = rng.choice([None] + list(range(-12, 13)))
            c = rng.choice([None, 1, 2, 3, 4])
            self.add(f"slice {n} {enc_opt(a)} {enc_opt(b)} {enc_opt(c)}", fmt(range(*slice(a, b, c).indices(n))), "C03/lean/slice")
        for n in range(1, 9):
            for i in range(-n, n):  # the int rewriting of __getitem__ selects torch's row for every valid int
                self.add(f"intslice {n} {i}", str(i % n), "C03/lean/intslice")
        for bt in (0, 1):
            for r in (0, 1):
                for c in (0, 1):
                    exp = (bt and (r or c)) or ((not bt) and r and c)
                    self.add(f"absorbed {bt} {r} {c}", "1" if exp else "0", "C03/lean/absorbed")

    def flush(self):
        if not self.enabled or not self.lines:
            return
        outs = self.chk.run_driver("C03", self.lines)
        if outs is None:
            return
        for line, exp, cell, out in zip(self.lines, self.expect, self.cells, outs):
            self.chk.count("lean:" + line.split(" ")[0])
            if isinstance(exp, tuple):
                try:
                    ok = bool(exp[1](out))
                except Exception:
                    ok = False
                expd = "<dense entry>" if not getattr(exp[1], "bad", None) else "mismatch in " + ",".join(exp[1].bad)
            else:
                ok = out == exp
                expd = exp
            if ok:
                self.chk.traces_validated += 1
            else:
                self.chk.corr_break(cell, f"line `{line[:200]}`: model {out[:200]} impl/torch {str(expd)[:200]}", {"line": line})
