"""C18 translator: the source text (Python `ast`, normalised by `ast.unparse`, docstrings / annotations dropped) of every
sampler and of every root override that the Lean model (LinOp/C18/Model.lean, ModelRoots.lean) mirrors.
Regenerates lean/LinOp/Generated/C18Facts.lean; the theorem `gen_sampler_facts` (decide +kernel) states that it is the
text the model was written against (`LinOp.C18.expectedFacts`, lean/LinOp/C18/Expected.lean)."""
import ast
import os
import re

VERIF = os.path.dirname(os.path.dirname(os.path.dirname(os.path.abspath(__file__))))
LEAN = os.path.join(VERIF, "lean")
REPO = os.environ.get("VERIF_REPO", "/repo")
OPS = "linear_operator/operators/"

# (key, file, class or None, function)
TARGETS = [
    ("base.zero_mean_mvn_samples", OPS + "_linear_operator.py", "LinearOperator", "zero_mean_mvn_samples"),
    ("scale_columns", OPS + "_linear_operator.py", None, "_scale_columns"),
    ("diag.zero_mean_mvn_samples", OPS + "diag_linear_operator.py", "DiagLinearOperator", "zero_mean_mvn_samples"),
    ("identity.zero_mean_mvn_samples", OPS + "identity_linear_operator.py", "IdentityLinearOperator", "zero_mean_mvn_samples"),
    ("block.zero_mean_mvn_samples", OPS + "block_linear_operator.py", "BlockLinearOperator", "zero_mean_mvn_samples"),
    ("blockdiag.remove_batch_dim", OPS + "block_diag_linear_operator.py", "BlockDiagLinearOperator", "_remove_batch_dim"),
    ("blockinterleaved.remove_batch_dim", OPS + "block_interleaved_linear_operator.py", "BlockInterleavedLinearOperator", "_remove_batch_dim"),
    ("sumbatch.remove_batch_dim", OPS + "sum_batch_linear_operator.py", "SumBatchLinearOperator", "_remove_batch_dim"),
    ("psdsum.zero_mean_mvn_samples", OPS + "psd_sum_linear_operator.py", "PsdSumLinearOperator", "zero_mean_mvn_samples"),
    ("interp.zero_mean_mvn_samples", OPS + "interpolated_linear_operator.py", "InterpolatedLinearOperator", "zero_mean_mvn_samples"),
    ("chol._root_decomposition", OPS + "chol_linear_operator.py", "CholLinearOperator", "_root_decomposition"),
    ("chol.root_decomposition", OPS + "chol_linear_operator.py", "CholLinearOperator", "root_decomposition"),
    ("batchrepeat._root_decomposition", OPS + "batch_repeat_linear_operator.py", "BatchRepeatLinearOperator", "_root_decomposition"),
    ("constmul.root_decomposition", OPS + "constant_mul_linear_operator.py", "ConstantMulLinearOperator", "root_decomposition"),
    ("constmul.root_inv_decomposition", OPS + "constant_mul_linear_operator.py", "ConstantMulLinearOperator", "root_inv_decomposition"),
    ("kron.root_decomposition", OPS + "kronecker_product_linear_operator.py", "KroneckerProductLinearOperator", "root_decomposition"),
    ("sumkron._root_decomposition", OPS + "sum_kronecker_linear_operator.py", "SumKroneckerLinearOperator", "_root_decomposition"),
    ("root.root_decomposition", OPS + "root_linear_operator.py", "RootLinearOperator", "root_decomposition"),
]


def _find(tree, cls, func):
    scope = tree.body
    if cls is not None:
        for node in tree.body:
            if isinstance(node, ast.ClassDef) and node.name == cls:
                scope = node.body
                break
        else:
            return None
    for node in scope:
        if isinstance(node, ast.FunctionDef) and node.name == func:
            return node
    return None


def _norm(stmts):
    out = []
    for s in stmts:
        if isinstance(s, ast.Expr) and isinstance(getattr(s, "value", None), ast.Constant) and isinstance(s.value.value, str):
            continue  # docstring / string comment
        if isinstance(s, (ast.Import, ast.ImportFrom)):
            continue
        out.append(re.sub(r"\s+", " ", ast.unparse(s)))
    return " ;; ".join(out)


def _decorators(fn):
    return ",".join(re.sub(r"\s+", " ", ast.unparse(d)) for d in fn.decorator_list)


def extract():
    facts = []
    cache = {}
    for key, rel, cls, func in TARGETS:
        path = os.path.join(REPO, rel)
        if path not in cache:
            cache[path] = ast.parse(open(path).read())
        fn = _find(cache[path], cls, func)
        if fn is None:
            facts.append((key, "<absent>"))
            continue
        facts.append((key, (("@" + _decorators(fn) + " ") if fn.decorator_list else "") + _norm(fn.body)))
    # KroneckerProductAddedDiag._root_decomposition: the constant-diagonal branch only
    tree = ast.parse(open(os.path.join(REPO, OPS + "kronecker_product_added_diag_linear_operator.py")).read())
    fn = _find(tree, "KroneckerProductAddedDiagLinearOperator", "_root_decomposition")
    txt = "<absent>"
    if fn is not None:
        for s in fn.body:
            if isinstance(s, ast.If) and "_diag_is_constant" in ast.unparse(s.test):
                txt = "if " + ast.unparse(s.test) + ": " + _norm(s.body)
                break
    facts.append(("kronadd._root_decomposition[const]", txt))
    # contour_integral_quad: the preconditioning steps and the solves (not the quadrature-node computation)
    tree = ast.parse(open(os.path.join(REPO, "linear_operator/utils/contour_integral_quad.py")).read())
    fn = _find(tree, None, "contour_integral_quad")
    parts = []
    if fn is not None:
        for s in fn.body:
            t = re.sub(r"\s+", " ", ast.unparse(s))
            if isinstance(s, ast.FunctionDef) and s.name == "sqrt_precond_matmul":
                parts.append("def sqrt_precond_matmul(rhs): " + _norm(s.body))
            elif isinstance(s, ast.Assign) and ("_preconditioner()" in t or "sqrt_precond_matmul(" in t or t.startswith(("no_shift_solves", "solves ="))):
                parts.append(t)
            elif isinstance(s, ast.With) and "minres(" in t:
                parts.append(t)
            elif isinstance(s, ast.If) and "inverse" in ast.unparse(s.test):
                parts.append(t)
            elif isinstance(s, ast.Return):
                parts.append(t)
    facts.append(("ciq.precond_and_solves", " ;; ".join(parts) if parts else "<absent>"))
    return facts


def lean_str(s):
    return '"' + s.replace("\\", "\\\\").replace('"', '\\"') + '"'


def render(facts, namespace, defname, header):
    out = list(header) + [f"namespace {namespace}", "", f"def {defname} : List (String × String) := ["]
    out.append(",\n".join(f"  ({lean_str(k)}, {lean_str(v)})" for k, v in facts) + "]")
    out += ["", f"end {namespace}", ""]
    return "\n".join(out)


def generate():
    facts = extract()
    text = render(facts, "LinOp.Generated.C18", "facts",
                  ["-- GENERATED by harness/extract/c18_samplers.py from /repo linear_operator/operators/*.py, utils/contour_integral_quad.py",
                   "-- Do not edit: regenerated on every check run."])
    path = os.path.join(LEAN, "LinOp", "Generated", "C18Facts.lean")
    if not os.path.exists(path) or open(path).read() != text:
        with open(path, "w") as fh:
            fh.write(text)
    return facts


if __name__ == "__main__":
    import sys
    fs = generate()
    if len(sys.argv) > 1 and sys.argv[1] == "--write-expected":
        # one-off: pins the text the model was written against (hand-reviewed), lean/LinOp/C18/Expected.lean
        text = render(fs, "LinOp.C18", "expectedFacts",
                      ["-- C18: the sampler / root source text that LinOp/C18/Model.lean and ModelRoots.lean mirror (reviewed by hand when the",
                       "-- model was written; see the file headers of the two model files for the correspondence).  NOT regenerated: the theorem",
                       "-- `gen_sampler_facts` compares the regenerated LinOp/Generated/C18Facts.lean with this list."])
        open(os.path.join(LEAN, "LinOp", "C18", "Expected.lean"), "w").write(text)
    for k, v in fs:
        print(k, "::", v)
