"""Translator for the C19 extension (session 5): the SHAPE-RELEVANT skeleton of the bodies the Lean extension model mirrors.
/repo linear_operator/operators/*.py  ->  lean/LinOp/Generated/C19Ext.lean

* `addDiagonalBodies`: every class that defines `add_diagonal`, with — in source order — its `is_square` guard, every
  `<x>.expand(<args>)`, `broadcast_shapes(<args>)`, delegated `<x>.add_diagonal(<args>)`, every constructor call of a
  `*LinearOperator` and every `if` test that mentions a shape / ndimension (exact source text).
* `rmatmulBodies`: every class that defines `rmatmul` with its `if` tests and `return` expressions.
* `catBodies`: CatLinearOperator `_check_args` (if-tests + number of raises), the `_shape` assignment of `__init__`, whether
  `__init__` itself calls `_check_args` (it does not: the base constructor does, under settings.debug), and of the base class:
  `cat_rows` (expand / broadcast_shapes / CatLinearOperator calls) and `add_low_rank` (the sum that forms the result).
* `addDiagonalDefiners`: per operator class the class that defines its `add_diagonal` (C3 MRO).
The Lean side compares with the hand-kept baseline `LinOp/C19/KnownExt.lean` (`decide +kernel`)."""
import ast
import os

from ..common import LEAN
from . import c19_guards as G


def _events(fn, want_ctor=True):
    ev = []

    def visit(node):
        for ch in ast.iter_child_nodes(node):
            if isinstance(ch, (ast.FunctionDef, ast.Lambda)):
                continue
            if isinstance(ch, ast.If):
                t = ast.unparse(ch.test)
                if any(k in t for k in ("shape", "ndim", "size", "is_square", "dim()", "isinstance")):
                    ev.append("if " + t)
            if isinstance(ch, ast.Call):
                f = ch.func
                name = f.attr if isinstance(f, ast.Attribute) else (f.id if isinstance(f, ast.Name) else "")
                if name in ("expand", "broadcast_shapes", "add_diagonal", "_matmul_broadcast_shape"):
                    ev.append("call " + ast.unparse(ch))
                elif want_ctor and (name.endswith("LinearOperator") or name == "__class__"):
                    ev.append("new " + ast.unparse(ch))
            if isinstance(ch, ast.Raise):
                ev.append("raise")
            visit(ch)
    visit(fn)
    return ev


def extract():
    classes = G.parse_classes()
    memo = {}
    ops = sorted(c for c in classes if G.ROOT in G.c3(c, classes, memo))
    add_diag = []
    for c in ops:
        fn = classes[c]["methods"].get("add_diagonal")
        if fn is not None:
            add_diag.append((c, _events(fn)))
    definers = []
    for c in ops:
        d = next((k for k in G.c3(c, classes, memo) if k in classes and "add_diagonal" in classes[k]["methods"]), "?")
        definers.append((c, d))
    rmm = []
    for c in ops:
        fn = classes[c]["methods"].get("rmatmul")
        if fn is not None:
            ev = []
            for n in ast.walk(fn):
                if isinstance(n, ast.If):
                    ev.append("if " + ast.unparse(n.test))
                elif isinstance(n, ast.Return) and n.value is not None:
                    ev.append("return " + ast.unparse(n.value))
            rmm.append((c, ev))
    cat = []
    catc = classes.get("CatLinearOperator", {}).get("methods", {})
    ca = catc.get("_check_args")
    if ca is not None:
        ev = []
        for n in ast.walk(ca):
            if isinstance(n, ast.If):
                ev.append("if " + ast.unparse(n.test))
            elif isinstance(n, ast.Delete):
                ev.append(ast.unparse(n))
        ev.append(f"raises={G._nraise(ca)}")
        cat.append(("CatLinearOperator._check_args", ev))
    ini = catc.get("__init__")
    if ini is not None:
        ev = []
        for n in ast.walk(ini):
            if isinstance(n, ast.Assign) and any(isinstance(t, ast.Attribute) and t.attr == "_shape" for t in n.targets):
                ev.append(ast.unparse(n))
        ev.append("calls _check_args" if "_check_args" in G._calls(ini)[0] else "no _check_args call")
        cat.append(("CatLinearOperator.__init__", ev))
    base = classes.get(G.ROOT, {}).get("methods", {})
    bi = base.get("__init__")
    if bi is not None:
        ev = []
        for n in ast.walk(bi):
            if isinstance(n, ast.If) and "debug" in ast.unparse(n.test):
                ev.append("if " + ast.unparse(n.test))
        ev.append("calls _check_args" if "_check_args" in G._calls(bi)[0] else "no _check_args call")
        cat.append(("LinearOperator.__init__", ev))
    cr = base.get("cat_rows")
    if cr is not None:
        ev = [e for e in _events(cr) if e.startswith("call ") or e.startswith("new CatLinearOperator") or e.startswith("if self.ndim") or "is_square" in e]
        cat.append(("LinearOperator.cat_rows", ev))
    al = base.get("add_low_rank")
    if al is not None:
        ev = []
        for n in ast.walk(al):
            if isinstance(n, ast.Assign) and any(isinstance(t, ast.Name) and t.id == "new_linear_op" for t in n.targets):
                ev.append(ast.unparse(n).replace("\n", " "))
        cat.append(("LinearOperator.add_low_rank", ev[:2]))
    for c in ops:
        if c != G.ROOT and "add_low_rank" in classes[c]["methods"]:
            cat.append((c + ".add_low_rank", [e for e in _events(classes[c]["methods"]["add_low_rank"], want_ctor=False)]))
        if c != G.ROOT and "cat_rows" in classes[c]["methods"]:
            cat.append((c + ".cat_rows", ["override"]))
    extract.definers = definers
    return add_diag, rmm, cat, definers


def generate():
    add_diag, rmm, cat, definers = extract()
    ls = G.lean_str

    def table(name, doc, rows):
        o = ["", f"/-- {doc} -/", f"def {name} : List (String × List String) := ["]
        o.append(",\n".join(f"  ({ls(c)}, [{', '.join(ls(x) for x in ev)}])" for c, ev in rows) + "]")
        return o
    out = ["-- GENERATED by harness/extract/c19_ext.py from /repo linear_operator/operators/*.py", "-- Do not edit: regenerated on every check run.",
           "namespace LinOp.Generated.C19Ext"]
    out += table("addDiagonalBodies", "(class that defines `add_diagonal`, shape-relevant events of its body in source order)", add_diag)
    out += table("rmatmulBodies", "(class that defines `rmatmul`, its `if` tests and `return` expressions)", rmm)
    out += table("catBodies", "Cat `_check_args` / `__init__`, base `__init__` (debug gate), `cat_rows`, `add_low_rank`", cat)
    out += ["", "/-- (operator class, class that defines its `add_diagonal` in the MRO) -/", "def addDiagonalDefiners : List (String × String) := ["]
    out.append(",\n".join(f"  ({ls(c)}, {ls(d)})" for c, d in definers) + "]")
    out += ["", "end LinOp.Generated.C19Ext", ""]
    text = "\n".join(out)
    path = os.path.join(LEAN, "LinOp", "Generated", "C19Ext.lean")
    if not os.path.exists(path) or open(path).read() != text:
        with open(path, "w") as fh:
            fh.write(text)
    return add_diag, rmm, cat, definers


if __name__ == "__main__":
    for part in generate():
        for row in part:
            print(row)
