"""C13 — independent census of the syntactic in-place sites of /repo/linear_operator and its comparison with the alias IR.

A *site* is (function, statement span, kind) found by a plain `ast` walk that shares no code with the translator's
statement/expression handlers:
  inplace-call   `x.op_(…)` / `torch.op_(x, …)`  (attribute name ends in one underscore, not a dunder)
  out-kw         any call with an `out=` keyword
  aug-assign     `x += …`, `x[i] += …`, `x.a += …`
  index-assign   `x[i] = …` (also inside tuple targets), `del x[i]`

Every site must be *covered*: the IR of the same function has a `write` (or a call of a callee whose summary mutates a
formal) on a line of the site's span — or the site is one of the reviewed reasons why no tensor of the caller can be
written there (PINNED_DROPS: keyed by file, function, kind and the normalised source text — not by line number, so
unrelated edits do not disturb it; a *new* uncovered site is reported as a broken translator obligation).
The covered count per function is emitted to Lean (`Generated/C13Sites.lean`), where the kernel re-counts the `write` /
mutating-`call` operations of the *emitted, slimmed* IR of that function: no write statement is dropped between the
ast and the table that `analyse_sound` talks about.
"""
import ast
import os
import re
from . import c13_alias as A

OUT = os.path.join(A.LEAN, "LinOp", "Generated", "C13Sites.lean")


def _own_nodes(fn_node):
    """nodes of the function's own scope (nested defs / classes are separate functions of the table)"""
    body = fn_node.body if isinstance(fn_node.body, list) else [fn_node.body]
    stack = list(body)
    while stack:
        n = stack.pop()
        yield n
        for c in ast.iter_child_nodes(n):
            if isinstance(c, (ast.FunctionDef, ast.AsyncFunctionDef, ast.ClassDef)):
                continue
            stack.append(c)


def _sub_targets(t):
    if isinstance(t, ast.Subscript):
        yield t
    elif isinstance(t, (ast.Tuple, ast.List)):
        for e in t.elts:
            yield from _sub_targets(e)
    elif isinstance(t, ast.Starred):
        yield from _sub_targets(t.value)


def census(W):
    """[(fi, first line, last line, kind, text)]"""
    res = []
    for fi in W.fns:
        if fi.kind == "group" or fi.node is None:
            continue
        for n in _own_nodes(fi.node):
            kind = None
            if isinstance(n, ast.Call):
                f = n.func
                if any(k.arg == "out" for k in n.keywords):
                    kind = "out-kw"
                elif isinstance(f, ast.Attribute) and f.attr.endswith("_") and not f.attr.endswith("__") and not f.attr.startswith("_"):
                    kind = "inplace-call"
            elif isinstance(n, ast.AugAssign):
                kind = "aug-assign"
            elif isinstance(n, (ast.Assign, ast.AnnAssign)):
                ts = n.targets if isinstance(n, ast.Assign) else [n.target]
                if any(True for t in ts for _ in _sub_targets(t)):
                    kind = "index-assign"
            elif isinstance(n, ast.Delete):
                if any(isinstance(t, ast.Subscript) for t in n.targets):
                    kind = "index-assign"
            if kind:
                text = " ".join(ast.unparse(n).split())
                res.append((fi, n.lineno, getattr(n, "end_lineno", n.lineno) or n.lineno, kind, text))
    return res


def _ir_lines(st, sigma, acc):
    """multiset {line: count} of the write / mutating-call operations of an IR body (full, unslimmed)"""
    op = st[0]
    if op == "seq":
        for x in st[1]:
            _ir_lines(x, sigma, acc)
    elif op == "if":
        _ir_lines(st[1], sigma, acc)
        _ir_lines(st[2], sigma, acc)
    elif op == "while":
        _ir_lines(st[1], sigma, acc)
    elif op == "write":
        acc[st[2]] = acc.get(st[2], 0) + 1
    elif op == "call" and sigma[st[2]][0]:
        acc[st[4]] = acc.get(st[4], 0) + 1
    return acc


def count_w(st, sigma):
    """python mirror of Lean `countW` on the emitted (slimmed) body"""
    op = st[0]
    if op == "seq":
        return sum(count_w(x, sigma) for x in st[1])
    if op == "if":
        return count_w(st[1], sigma) + count_w(st[2], sigma)
    if op == "while":
        return count_w(st[1], sigma)
    if op == "write":
        return 1
    if op == "call":
        return 1 if sigma[st[2]][0] else 0
    return 0


def compare(G):
    """-> (covered {fi.idx: k}, uncovered [(fi, l0, l1, kind, text)], all sites)"""
    W, sigma = G["W"], G["sigma"]
    sites = census(W)
    per_fn = {}
    for s in sites:
        per_fn.setdefault(s[0].idx, []).append(s)
    covered, uncovered = {}, []
    for idx, ss in per_fn.items():
        fi = W.fns[idx]
        lines = _ir_lines(fi.body, sigma, {})
        budget = dict(lines)
        k = 0
        for s in sorted(ss, key=lambda s: (s[1], s[2])):
            hit = [l for l in range(s[1], s[2] + 1) if lines.get(l, 0) > 0]
            if not hit:
                uncovered.append(s)
                continue
            # count a site towards the Lean obligation only while IR operations on its lines remain unclaimed
            for l in hit:
                if budget.get(l, 0) > 0:
                    budget[l] -= 1
                    k += 1
                    break
        if k:
            covered[idx] = k
    return covered, uncovered, sites


# in-place methods the property statement explicitly allows (values unchanged)
ALLOWED = ("requires_grad_", "detach_")


def explained(s):
    """uncovered sites that need no review: a call of one of the explicitly allowed in-place methods"""
    return s[3] == "inplace-call" and re.search(r"\.(%s)\(" % "|".join(ALLOWED), s[4]) is not None and \
        not re.search(r"\.(?!%s)[a-z]\w*[a-z0-9]_\(" % "|".join(ALLOWED), s[4])


def unreviewed(uncovered):
    """uncovered sites beyond the reviewed multiset PINNED_DROPS"""
    from collections import Counter
    budget = Counter(PINNED_DROPS)
    out = []
    for s in uncovered:
        if explained(s):
            continue
        k = key_of(s)
        if budget[k] > 0:
            budget[k] -= 1
        else:
            out.append(s)
    return out


def key_of(s):
    fi, _, _, kind, text = s
    return f"{fi.rel}:{fi.qual}|{kind}|{text}"


def generate(G):
    W, sigma = G["W"], G["sigma"]
    covered, uncovered, sites = compare(G)
    rows = []
    for idx in sorted(covered):
        fi = W.fns[idx]
        rows.append(f"  ({idx}, {covered[idx]}, countW sigma {A.lean_ident(fi)}.body)")
    text = "\n".join([
        "import LinOp.C13.Sites",
        "import LinOp.Generated.C13Table",
        "-- GENERATED by harness/extract/c13_sites.py from /repo/linear_operator (do not edit)",
        "set_option maxRecDepth 100000",
        "namespace LinOp.Generated.C13",
        "open LinOp.C13",
        "",
        "/-- (function id, number of syntactic in-place sites of the python source [independent ast census] that the",
        "translator turned into IR writes, number of write / mutating-call operations of the emitted IR of that function) -/",
        "def siteRows : List (Nat × Nat × Nat) := [",
        ",\n".join(rows) + "]",
        "",
        f"def siteTotal : Nat := {sum(covered.values())}",
        "",
        "theorem site_rows_ok : siteRowsOK siteRows = true := by decide +kernel",
        "",
        "theorem site_total_ok : (siteRows.map (fun r => r.2.1)).sum = siteTotal := by decide +kernel",
        "",
        "end LinOp.Generated.C13", ""])
    if not os.path.exists(OUT) or open(OUT).read() != text:
        with open(OUT, "w") as fh:
            fh.write(text)
    return {"covered": covered, "uncovered": uncovered, "sites": sites}


# Reviewed uncovered sites (multiset; key = file:function|kind|normalised source).  Reasons: index stores / `del` / `+=` on python
# lists, dicts and ints created inside the function (shape lists, index lists, kwargs dicts, counters), registries and the
# memoize cache (plumbing), `self._*_kwargs` inside `__init__`, metadata-only `unsqueeze_/squeeze_` on tensors allocated in the
# function (torch.arange / locally computed gradients).  None of them can reach a caller tensor or an existing operator's matrix.
PINNED_DROPS = [
    'functions/_solve.py:Solve.backward|inplace-call|right_grad.squeeze_(-1)',
    'functions/_solve.py:Solve.backward|inplace-call|right_grad.squeeze_(-1)',
    'operators/_linear_operator.py:_implements|index-assign|_HANDLED_FUNCTIONS[torch_function] = func.__name__',
    'operators/_linear_operator.py:_implements_second_arg|index-assign|_HANDLED_SECOND_ARG_FUNCTIONS[torch_function] = func.__name__',
    'operators/_linear_operator.py:_implements_symmetric|index-assign|_HANDLED_FUNCTIONS[torch_function] = func.__name__',
    'operators/_linear_operator.py:_implements_symmetric|index-assign|_HANDLED_SECOND_ARG_FUNCTIONS[torch_function] = func.__name__',
    'operators/_linear_operator.py:LinearOperator.__init__|index-assign|self._differentiable_kwargs[name] = val',
    'operators/_linear_operator.py:LinearOperator.__init__|index-assign|self._nondifferentiable_kwargs[name] = val',
    'operators/_linear_operator.py:LinearOperator._prod_batch|index-assign|shape[dim] = 1',
    'operators/_linear_operator.py:LinearOperator._prod_batch|aug-assign|num_batch += 1',
    'operators/_linear_operator.py:LinearOperator._prod_batch|index-assign|part1_index[dim] = slice(None, num_batch // 2, None)',
    'operators/_linear_operator.py:LinearOperator._prod_batch|index-assign|part2_index[dim] = slice(num_batch // 2, None, None)',
    'operators/_linear_operator.py:LinearOperator.cpu|index-assign|new_kwargs[name] = val.cpu()',
    'operators/_linear_operator.py:LinearOperator.cpu|index-assign|new_kwargs[name] = val',
    'operators/_linear_operator.py:LinearOperator.cuda|index-assign|new_kwargs[name] = val.cuda(device_id)',
    'operators/_linear_operator.py:LinearOperator.cuda|index-assign|new_kwargs[name] = val',
    'operators/_linear_operator.py:LinearOperator.representation|aug-assign|representation += list(arg.representation())',
    'operators/_linear_operator.py:LinearOperator.squeeze|index-assign|index[dim] = 0',
    'operators/_linear_operator.py:LinearOperator.to|index-assign|new_kwargs[name] = _to(val)',
    'operators/_linear_operator.py:LinearOperator.to|index-assign|new_kwargs[name] = val',
    'operators/_linear_operator.py:LinearOperator.type|index-assign|new_kwargs[name] = _type_helper(val.clone())',
    'operators/_linear_operator.py:LinearOperator.type|index-assign|new_kwargs[name] = _type_helper(deepcopy(val))',
    'operators/_linear_operator.py:LinearOperator.type|index-assign|new_kwargs[name] = val',
    'operators/_linear_operator.py:LinearOperator.__getitem__|aug-assign|row_index += self.size(-2)',
    'operators/_linear_operator.py:LinearOperator.__getitem__|aug-assign|col_index += self.size(-1)',
    'operators/_linear_operator.py:LinearOperator.__getitem__|aug-assign|tensor_dim += isinstance(idx, slice)',
    'operators/block_diag_linear_operator.py:BlockDiagLinearOperator._remove_batch_dim|index-assign|del shape[-3]',
    'operators/block_diag_linear_operator.py:BlockDiagLinearOperator._remove_batch_dim|aug-assign|shape[-2] *= self.num_blocks',
    'operators/block_diag_linear_operator.py:BlockDiagLinearOperator._size|aug-assign|shape[-2] *= shape[-3]',
    'operators/block_diag_linear_operator.py:BlockDiagLinearOperator._size|aug-assign|shape[-1] *= shape[-3]',
    'operators/block_diag_linear_operator.py:BlockDiagLinearOperator._size|index-assign|del shape[-3]',
    'operators/block_interleaved_linear_operator.py:BlockInterleavedLinearOperator._remove_batch_dim|index-assign|del shape[-2]',
    'operators/block_interleaved_linear_operator.py:BlockInterleavedLinearOperator._remove_batch_dim|aug-assign|shape[-2] *= self.num_blocks',
    'operators/block_interleaved_linear_operator.py:BlockInterleavedLinearOperator._size|aug-assign|shape[-2] *= shape[-3]',
    'operators/block_interleaved_linear_operator.py:BlockInterleavedLinearOperator._size|aug-assign|shape[-1] *= shape[-3]',
    'operators/block_interleaved_linear_operator.py:BlockInterleavedLinearOperator._size|index-assign|del shape[-3]',
    'operators/cat_linear_operator.py:CatLinearOperator._check_args|index-assign|del rep_tensor_noncat_shape[dim]',
    'operators/cat_linear_operator.py:CatLinearOperator._check_args|index-assign|del t_noncat_shape[dim]',
    'operators/cat_linear_operator.py:CatLinearOperator._diagonal|aug-assign|curr_col += n_rows',
    'operators/cat_linear_operator.py:CatLinearOperator._diagonal|aug-assign|curr_row += n_cols',
    'operators/cat_linear_operator.py:CatLinearOperator._expand_batch|index-assign|sub_batch_shape[batch_dim] = linear_op.shape[self.cat_dim]',
    'operators/cat_linear_operator.py:CatLinearOperator._get_indices|index-assign|sub_index[self.cat_dim] = sub_index[self.cat_dim] - self.cat_dim_cum_sizes[linear_op_idx]',
    'operators/cat_linear_operator.py:CatLinearOperator._getitem|aug-assign|updated_cat_dim += num_collapsed_dims',
    'operators/cat_linear_operator.py:CatLinearOperator._getitem|index-assign|indices[self.cat_dim] = target_slice',
    'operators/cat_linear_operator.py:CatLinearOperator._getitem|index-assign|sub_index[self.cat_dim] = sub_index[self.cat_dim] - self.cat_dim_cum_sizes[linear_op_idx]',
    'operators/cat_linear_operator.py:CatLinearOperator._getitem|index-assign|indices[self.cat_dim] = cat_dim_indices',
    'operators/cat_linear_operator.py:CatLinearOperator._matmul|index-assign|index[-2] = slice(curr_idx, curr_idx + size, None)',
    'operators/cat_linear_operator.py:CatLinearOperator.all_to|index-assign|new_kwargs[name] = val.to(device_id)',
    'operators/cat_linear_operator.py:CatLinearOperator.all_to|index-assign|new_kwargs[name] = val',
    "operators/cat_linear_operator.py:CatLinearOperator.all_to|index-assign|new_kwargs['output_device'] = device_id",
    'operators/identity_linear_operator.py:IdentityLinearOperator._prod_batch|index-assign|del batch_shape[dim]',
    'operators/identity_linear_operator.py:IdentityLinearOperator.to|index-assign|new_kwargs[name] = val.to(dtype=dtype, device=device)',
    'operators/identity_linear_operator.py:IdentityLinearOperator.to|index-assign|new_kwargs[name] = val',
    "operators/identity_linear_operator.py:IdentityLinearOperator.to|index-assign|new_kwargs['device'] = device if device is not None else self.device",
    "operators/identity_linear_operator.py:IdentityLinearOperator.to|index-assign|new_kwargs['dtype'] = dtype if dtype is not None else self.dtype",
    'operators/interpolated_linear_operator.py:InterpolatedLinearOperator.__init__|inplace-call|left_interp_indices.unsqueeze_(-1)',
    'operators/interpolated_linear_operator.py:InterpolatedLinearOperator.__init__|inplace-call|right_interp_indices.unsqueeze_(-1)',
    'operators/interpolated_linear_operator.py:InterpolatedLinearOperator.to|index-assign|new_kwargs[name] = val.to(dtype=dtype, device=device)',
    'operators/interpolated_linear_operator.py:InterpolatedLinearOperator.to|index-assign|new_kwargs[name] = val',
    'operators/kernel_linear_operator.py:KernelLinearOperator.__init__|index-assign|tensor_params[name] = val',
    'operators/kernel_linear_operator.py:KernelLinearOperator.__init__|index-assign|nontensor_params[name] = val',
    'operators/kernel_linear_operator.py:KernelLinearOperator.__init__|index-assign|param_batch_shapes[name] = val.shape',
    'operators/kernel_linear_operator.py:KernelLinearOperator.__init__|index-assign|param_nonbatch_shapes[name] = torch.Size([])',
    'operators/kernel_linear_operator.py:KernelLinearOperator.__init__|index-assign|param_batch_shapes[name] = val.shape[:-nonbatch_dim]',
    'operators/kernel_linear_operator.py:KernelLinearOperator.__init__|index-assign|param_nonbatch_shapes[name] = val.shape[-nonbatch_dim:]',
    'operators/kronecker_product_linear_operator.py:KroneckerProductLinearOperator._get_indices|aug-assign|row_factor //= sub_row_size',
    'operators/kronecker_product_linear_operator.py:KroneckerProductLinearOperator._get_indices|aug-assign|col_factor //= sub_col_size',
    'operators/kronecker_product_linear_operator.py:KroneckerProductDiagLinearOperator._size|aug-assign|N *= diag_shape[-1]',
    'operators/linear_operator_representation_tree.py:LinearOperatorRepresentationTree.__init__|aug-assign|counter += representation_size',
    'operators/linear_operator_representation_tree.py:LinearOperatorRepresentationTree.__init__|aug-assign|counter += 1',
    'operators/masked_linear_operator.py:MaskedLinearOperator.to|index-assign|new_kwargs[name] = val.to(dtype=dtype, device=device)',
    'operators/masked_linear_operator.py:MaskedLinearOperator.to|index-assign|new_kwargs[name] = val',
    'operators/sum_batch_linear_operator.py:SumBatchLinearOperator._size|index-assign|del shape[-3]',
    'operators/zero_linear_operator.py:ZeroLinearOperator._prod_batch|index-assign|del sizes[dim]',
    'operators/zero_linear_operator.py:ZeroLinearOperator._sum_batch|index-assign|del sizes[dim]',
    'operators/zero_linear_operator.py:ZeroLinearOperator.transpose|index-assign|sizes[dim1] = sizes[dim2]',
    'operators/zero_linear_operator.py:ZeroLinearOperator.transpose|index-assign|sizes[dim2] = tmp',
    'utils/getitem.py:_convert_indices_to_tensors|aug-assign|num_singletons_after -= 1',
    'utils/getitem.py:_convert_indices_to_tensors|aug-assign|num_singletons_before += 1',
    'utils/getitem.py:_convert_indices_to_tensors|aug-assign|num_singletons_after -= len(tensor_index_shape)',
    'utils/getitem.py:_convert_indices_to_tensors|aug-assign|num_singletons_before += len(tensor_index_shape)',
    'utils/interpolation.py:left_t_interp|inplace-call|torch.arange(0, batch_size, dtype=torch.long, device=values.device).unsqueeze_(1)',
    'utils/interpolation.py:left_t_interp|inplace-call|torch.arange(0, num_data * num_interp, dtype=torch.long, device=values.device).unsqueeze_(1)',
    'utils/lanczos.py:lanczos_tridiag|inplace-call|r_vec_norm.squeeze_(dim_dimension)',
    'utils/memoize.py:_add_to_cache|index-assign|obj._memoize_cache[name, args, kwargs_pkl] = val',
    'utils/memoize.py:_add_to_cache_ignore_args|index-assign|obj._memoize_cache[name] = val',
    'utils/permutation.py:apply_permutation|index-assign|expanded_shape[i] = batch_size',
    'utils/sparse.py:make_sparse_from_indices_and_values|inplace-call|batch_tensor.unsqueeze_(1)',
    'utils/sparse.py:make_sparse_from_indices_and_values|inplace-call|row_tensor.unsqueeze_(1)',
    'utils/sparse.py:sparse_getitem|index-assign|del size[i]',
    'utils/sparse.py:sparse_repeat|inplace-call|torch.arange(0, repeat_size, dtype=new_indices.dtype, device=new_indices.device).unsqueeze_(1)',
    'utils/stochastic_lq.py:StochasticLQ.to_dense|index-assign|results[i] = results[i] + matrix_shape[-1] / float(num_random_probes) * dot_products',
]


if __name__ == "__main__":
    G = A.generate(lambda label: False)
    R = generate(G)
    print(len(R["sites"]), "sites;", sum(R["covered"].values()), "covered in", len(R["covered"]), "functions;", len(R["uncovered"]), "uncovered")
    from collections import Counter
    print(Counter(s[3] for s in R["sites"]), Counter(s[3] for s in R["uncovered"]))
    for s in R["uncovered"]:
        print(repr(key_of(s)) + ",")
