"""Translator for C10: control conditions of `functions/_pivoted_cholesky.py` (`PivotedCholesky.forward`),
the enabling test / rank / cache formulas of `AddedDiagLinearOperator._preconditioner` and the defaults in `settings.py`
-> lean/LinOp/Generated/C10Consts.lean.  Regenerated from the working tree on every run (rewritten only when its
text changes).  Python `ast` only, nothing is executed.  Unrecognised items are emitted as "?" so the Lean obligations fail.
"""
import ast
import os
from fractions import Fraction

from ..common import LEAN, REPO


def lean_str(s):
    return '"' + str(s).replace("\\", "\\\\").replace('"', '\\"') + '"'


def _find(tree, cls, fn):
    for n in ast.walk(tree):
        if isinstance(n, ast.ClassDef) and n.name == cls:
            for f in n.body:
                if isinstance(f, ast.FunctionDef) and f.name == fn:
                    return f
    return None


def _assigns(fn, target):
    return [ast.unparse(n.value) for n in ast.walk(fn) if isinstance(n, ast.Assign)
            and any(ast.unparse(t) == target for t in n.targets)]


def extract():
    facts = {}
    # ---- settings defaults
    st = ast.parse(open(os.path.join(REPO, "linear_operator/settings.py")).read())
    for cname in ("max_preconditioner_size", "min_preconditioning_size", "preconditioner_tolerance"):
        val = "?"
        for n in st.body:
            if isinstance(n, ast.ClassDef) and n.name == cname:
                for s in n.body:
                    if isinstance(s, ast.Assign) and any(isinstance(t, ast.Name) and t.id == "_global_value" for t in s.targets):
                        val = ast.unparse(s.value)
        facts[cname] = val
    # ---- PivotedCholesky.forward
    pc = ast.parse(open(os.path.join(REPO, "linear_operator/functions/_pivoted_cholesky.py")).read())
    fwd = _find(pc, "PivotedCholesky", "forward")
    wh = [n for n in ast.walk(fwd) if isinstance(n, ast.While)] if fwd else []
    facts["whileTest"] = ast.unparse(wh[0].test) if len(wh) == 1 else "?"
    ifs = [ast.unparse(n.test) for n in ast.walk(wh[0]) if isinstance(n, ast.If)] if len(wh) == 1 else []
    facts["bodyIfs"] = ifs
    facts["maxIterClamp"] = (_assigns(fwd, "max_iter") or ["?"])[0] if fwd else "?"
    facts["origError"] = (_assigns(fwd, "orig_error") or ["?"])[0] if fwd else "?"
    facts["errors"] = _assigns(fwd, "errors") if fwd else []
    facts["tolDefault"] = "?"
    if fwd:
        for n in ast.walk(fwd):
            if isinstance(n, ast.If) and ast.unparse(n.test) == "error_tol is None" and len(n.body) == 1:
                facts["tolDefault"] = ast.unparse(n.body[0])
        rets = [ast.unparse(n.value) for n in ast.walk(fwd) if isinstance(n, ast.Return)]
        facts["returns"] = rets
        facts["diagClone"] = "matrix_diag.clone()" in _assigns(fwd, "matrix_diag")
        # the masking of converged batch members (fix d829792): clamp before sqrt, where(pivot > 0, ., 0) — mirrored by `stepM`
        facts["maskStmts"] = [ast.unparse(n.value) for n in ast.walk(fwd) if isinstance(n, ast.Expr) and isinstance(n.value, ast.Call)
                              and ast.unparse(n.value.func) == "L_m.scatter_"] + _assigns(fwd, "pivot") + _assigns(fwd, "L_m_new")
    # ---- AddedDiag._preconditioner / caches
    ad = ast.parse(open(os.path.join(REPO, "linear_operator/operators/added_diag_linear_operator.py")).read())
    pre = _find(ad, "AddedDiagLinearOperator", "_preconditioner")
    facts["enableTest"] = "?"
    facts["pivCholCall"] = "?"
    if pre:
        for n in ast.walk(pre):
            if isinstance(n, ast.If) and isinstance(n.body[0], ast.Return) and ast.unparse(n.body[0]) == "return (None, None, None)" \
                    and "max_preconditioner_size" in ast.unparse(n.test):
                facts["enableTest"] = ast.unparse(n.test)
        facts["pivCholCall"] = (_assigns(pre, "self._piv_chol_self") or ["?"])[0]
        facts["maxIterSource"] = (_assigns(pre, "max_iter") or ["?"])[0]
        facts["closureReturns"] = [ast.unparse(n.value) for f in ast.walk(pre) if isinstance(f, ast.FunctionDef) and f is not pre
                                   for n in ast.walk(f) if isinstance(n, ast.Return)]
        # the factor is computed inside the `if self._q_cache is None:` guard (state of THIS AddedDiag object only)
        facts["qCacheGuard"] = [ast.unparse(n.test) for n in ast.walk(pre) if isinstance(n, ast.If)
                                and any(isinstance(a, ast.Assign) and any(ast.unparse(t) == "self._piv_chol_self" for t in a.targets)
                                        for a in n.body)]
    # ---- LinearOperator.pivoted_cholesky: decorators (none: nothing is memoised on the operator object, every call runs the
    # Function with the settings in force) and body
    lo = ast.parse(open(os.path.join(REPO, "linear_operator/operators/_linear_operator.py")).read())
    meth = _find(lo, "LinearOperator", "pivoted_cholesky")
    facts["pcDecorators"] = [ast.unparse(d) for d in meth.decorator_list] if meth else ["?"]
    facts["pcMethodBody"] = [ast.unparse(s_).replace("\n", " ") for s_ in meth.body
                             if not (isinstance(s_, ast.Expr) and isinstance(s_.value, ast.Constant))] if meth else ["?"]
    # every definition of pivoted_cholesky in the operator classes (an override could memoise on its own)
    import glob
    defs = []
    for path in sorted(glob.glob(os.path.join(REPO, "linear_operator/operators/*.py"))):
        try:
            tr = lo if path.endswith("/_linear_operator.py") else ast.parse(open(path).read())
        except SyntaxError:
            defs.append("?" + os.path.basename(path))
            continue
        for c in ast.walk(tr):
            if isinstance(c, ast.ClassDef):
                for f in c.body:
                    if isinstance(f, ast.FunctionDef) and f.name == "pivoted_cholesky":
                        defs.append(c.name)
    facts["pcDefinedIn"] = defs
    fwd_decos = [ast.unparse(d) for d in fwd.decorator_list] if fwd else ["?"]
    facts["forwardDecorators"] = fwd_decos
    for fn in ("_init_cache", "_init_cache_for_constant_diag", "_init_cache_for_non_constant_diag"):
        f = _find(ad, "AddedDiagLinearOperator", fn)
        body = []
        if f:
            for s in f.body:
                if isinstance(s, ast.Expr) and isinstance(s.value, ast.Constant):
                    continue
                body.append(ast.unparse(s).replace("\n", " "))
        facts[fn] = body
    return facts


def _num(txt):
    try:
        fr = Fraction(txt)
        return fr
    except Exception:
        return None


def generate():
    f = extract()
    out = ["-- GENERATED by harness/extract/c10_consts.py from /repo (settings.py, functions/_pivoted_cholesky.py,",
           "-- operators/added_diag_linear_operator.py).  Do not edit: regenerated on every check run.",
           "namespace LinOp.Generated.C10", ""]
    for k in ("max_preconditioner_size", "min_preconditioning_size"):
        v = _num(f[k])
        out.append(f"def {k} : Nat := {int(v) if v is not None and v.denominator == 1 and v >= 0 else 0}")
        out.append(f"def {k}_src : String := {lean_str(f[k])}")
    v = _num(f["preconditioner_tolerance"])
    out.append(f"def preconditioner_tolerance_num : Nat := {v.numerator if v is not None and v > 0 else 0}")
    out.append(f"def preconditioner_tolerance_den : Nat := {v.denominator if v is not None and v > 0 else 1}")
    for k in ("whileTest", "maxIterClamp", "origError", "tolDefault", "enableTest", "pivCholCall", "maxIterSource"):
        out.append(f"def {k} : String := {lean_str(f.get(k, '?'))}")
    out.append(f"def diagClone : Bool := {'true' if f.get('diagClone') else 'false'}")
    for k in ("bodyIfs", "errors", "returns", "closureReturns", "maskStmts", "qCacheGuard", "pcDecorators", "pcMethodBody", "pcDefinedIn",
              "forwardDecorators", "_init_cache", "_init_cache_for_constant_diag", "_init_cache_for_non_constant_diag"):
        name = k.lstrip("_")
        name = {"init_cache": "initCache", "init_cache_for_constant_diag": "initCacheConst",
                "init_cache_for_non_constant_diag": "initCacheNonconst"}.get(name, name)
        out.append(f"def {name} : List String := [" + ", ".join(lean_str(x) for x in f.get(k, [])) + "]")
    out += ["", "end LinOp.Generated.C10", ""]
    text = "\n".join(out)
    path = os.path.join(LEAN, "LinOp", "Generated", "C10Consts.lean")
    if not os.path.exists(path) or open(path).read() != text:
        with open(path, "w") as fh:
            fh.write(text)
    return f


if __name__ == "__main__":
    import json
    print(json.dumps(generate(), indent=1))
