"""Translator for C13: every function of /repo/linear_operator -> alias IR (lean/LinOp/Generated/C13IR.lean).

The IR (see lean/LinOp/C13/Model.lean): variables are numbered, `0..nparams-1` are the formals;
  assign x fresh | view y | maybeView y | same y | opq [args] | join [args];  write x;  call x f [args];  ret x;
  seq; ifStar; whileStar inv body.
A value stands for the set of storages it can reach (a tensor -> its storage; a view -> the base's storage;
tuple / list / operator / closure -> everything stored in it).

The translator is conservative: whatever it cannot classify becomes `opq` (may alias every argument) and
every mutation form becomes a `write`.  A Python mirror of the Lean abstract interpreter (`analyse`)
computes the loop invariants and callee summaries that are emitted next to the IR; Lean *checks* them.
"""
import ast
import os
import re

from ..common import LEAN, REPO

PKG = "linear_operator"

# ----------------------------------------------------------------------------- reviewed tables
# tensor methods / torch functions whose result is a view of (shares storage with) the first argument
VIEW = {
    "expand", "view", "view_as", "unsqueeze", "squeeze", "narrow", "transpose", "permute", "diagonal", "unbind",
    "chunk", "split", "select", "t", "movedim", "moveaxis", "swapaxes", "swapdims", "unfold", "as_strided", "detach",
    "_indices", "_values", "indices", "values", "split_with_sizes", "tensor_split", "hsplit", "vsplit", "dsplit",
    "unflatten", "adjoint", "view_as_real", "view_as_complex", "numpy", "expand_as", "broadcast_tensors",
    "broadcast_to", "atleast_1d", "atleast_2d", "atleast_3d", "requires_grad_", "detach_", "__getitem__", "data",
    "crow_indices", "col_indices", "storage", "untyped_storage", "row_indices", "ccol_indices",
}
# result may be a view or a copy
MAYBE_VIEW = {
    "contiguous", "reshape", "reshape_as", "to", "type_as", "flatten", "ravel", "type", "float", "double", "half",
    "bfloat16", "long", "int", "short", "bool", "cpu", "cuda", "coalesce", "to_dense", "to_sparse", "conj", "resolve_conj",
    "resolve_neg", "positive", "as_tensor", "asarray", "from_numpy", "nan_to_num_", "clone_if", "to_sparse_coo",
}
VIEW_ATTRS = {"mT", "T", "mH", "H", "real", "imag", "data", "grad"}
# attributes that never reach tensor storage
SCALAR_ATTRS = {
    "shape", "dtype", "device", "ndim", "requires_grad", "is_sparse", "is_cuda", "layout", "is_leaf", "grad_fn",
    "batch_shape", "matrix_shape", "__name__", "__class__", "is_square", "batch_dim", "names", "itemsize",
}
SCALAR_ATTR_RE = re.compile(r"(^|_)(dim|size|shape|rank|num_[a-z_]+|n_[a-z]+|upper|name|tol|iter|has_left|is_vector|"
                            r"logdet|inv_quad|needs_input_grad|max_iter|jitter_val|method|generate_roots)$")
# calls whose result never reaches tensor storage (whatever the receiver)
SCALAR_CALLS = {
    "size", "dim", "numel", "ndimension", "item", "tolist", "is_contiguous", "stride", "storage_offset", "data_ptr",
    "element_size", "nelement", "is_floating_point", "is_complex", "get_device", "len", "int", "float", "bool", "str",
    "isinstance", "issubclass", "callable", "hasattr", "range", "min", "max", "abs", "round", "sum", "any", "all", "type",
    "repr", "format", "id", "hash", "print", "is_tensor", "is_storage", "numel", "divmod", "pow", "ord", "chr", "slice",
    "is_available", "device_count", "current_device", "join", "startswith", "endswith", "keys", "prod", "sqrt", "log",
    "ceil", "floor", "warn", "debug", "info", "value", "on", "off", "is_default", "equal", "allclose", "nnz", "_nnz",
    "is_coalesced", "is_set_to", "is_same_size", "Size", "get_default_dtype", "finfo", "iinfo", "is_grad_enabled",
}
# python containers: the result holds (references to) the arguments
CONTAINER_CALLS = {"list", "tuple", "dict", "set", "zip", "enumerate", "reversed", "sorted", "iter", "next", "map", "filter",
                   "chain", "deepcopy_no", "getattr", "items", "get", "pop", "copy", "partial", "setdefault", "OrderedDict",
                   "defaultdict", "frozenset", "product", "super", "vars", "cast", "Size_no"}
NEW_CONTAINER_CALLS = {"list", "tuple", "dict", "set", "zip", "enumerate", "reversed", "sorted", "map", "filter", "chain",
                       "OrderedDict", "defaultdict", "frozenset", "product"}
CONTAINER_MUT = {"append", "extend", "insert", "update", "add", "setdefault", "save_for_backward", "mark_non_differentiable",
                 "register_hook", "__setitem__", "appendleft", "sort", "reverse", "remove", "clear", "pop", "popitem", "discard",
                 "__delitem__"}
# files implementing the cache / settings plumbing: container mutation there is not a change of an operator's matrix
CONTAINER_MUT_OK_FILES = {"utils/memoize.py", "settings.py", "beta_features.py", "utils/deprecation.py"}
# in-place methods that the property explicitly allows (values unchanged)
ALLOWED_INPLACE = {"requires_grad_", "detach_", "retain_grad"}
MODULE_NAMES = {"torch", "math", "warnings", "np", "numpy", "scipy", "settings", "linear_operator", "itertools", "functools",
                "operator", "F", "pickle", "string", "numbers", "collections", "os", "sys", "typing", "special", "beta_features",
                "logging", "copy"}
# attribute stores that only fill caches / bookkeeping of the object (reviewed; listed in notes/C13.md)
ATTR_STORE_OK = re.compile(r"(_memo$|_cache$|^_memoize_cache$|^_piv_chol_self$|^_noise$|^_constant_diag$|^_precond_lt$|"
                           r"^_dtype$|^__name__$|^_q_cache$|^_r_cache$|^__batch_move_memo$)")
ATTR_STORE_OK_OBJ = {"ctx", "cls", "module"}
ATTR_STORE_OK_FILES = {"settings.py", "beta_features.py", "utils/deprecation.py"}
# (relpath, function) -> names of formals that are explicit output buffers / not caller data per the property text
ALLOWED_PARAMS = {
    ("utils/cholesky.py", "psd_safe_cholesky"): ["out"],
    ("utils/cholesky.py", "_psd_safe_cholesky"): ["out"],
}
# backward(ctx, *grad_outputs): the gradient tensors handed over by the autograd engine are not in the property's list
BACKWARD_GRADS_ALLOWED = True


def relpath(p):
    return os.path.relpath(p, os.path.join(REPO, PKG))


# ----------------------------------------------------------------------------- world
class FnInfo:
    def __init__(self, idx, rel, qual, node, cls, parent=None):
        self.idx, self.rel, self.qual, self.node, self.cls, self.parent = idx, rel, qual, node, cls, parent
        self.name = node.name if node is not None else qual
        self.formals = []       # names, in binding order
        self.free = []          # captured names (nested functions): extra formals
        self.vararg = self.kwarg = None
        self.kind = "func"
        self.body = None        # IR
        self.nvars = 0
        self.varnames = []
        self.writes = []        # (line, var) of IR writes / mutating calls
        self.decorators = []
        self.impls = []         # for groups
        self.is_property = False

    @property
    def label(self):
        return f"{self.rel}:{self.qual}"


def _params(node):
    a = node.args
    names = [x.arg for x in a.posonlyargs + a.args]
    return names, (a.vararg.arg if a.vararg else None), [x.arg for x in a.kwonlyargs], (a.kwarg.arg if a.kwarg else None)


class World:
    def __init__(self):
        self.fns = []
        self.mod_funcs = {}      # rel -> {name: FnInfo}
        self.by_name = {}        # name -> [FnInfo] module-level functions
        self.classes = {}        # name -> {"rel":, "bases": [names], "methods": {name: FnInfo}, "node":}
        self.methods = {}        # method name -> [FnInfo]
        self.props = {}          # property name -> [FnInfo]
        self.groups = {}         # ("m"|"p", name) -> FnInfo
        self.mod_text = {}
        self.attr_stores = []
        self.spans = {}          # (rel, line) -> last line of the statement / call starting there
        self.load()

    def load(self):
        root = os.path.join(REPO, PKG)
        files = []
        for d, _, fs in os.walk(root):
            if os.path.relpath(d, root).split(os.sep)[0] == "test":
                continue
            files += [os.path.join(d, f) for f in fs if f.endswith(".py")]
        for p in sorted(files):
            rel = relpath(p)
            src = open(p).read()
            self.mod_text[rel] = src
            tree = ast.parse(src)
            self.mod_funcs[rel] = {}
            for node in tree.body:
                if isinstance(node, ast.FunctionDef):
                    fi = self.add_fn(rel, node.name, node, None)
                    self.mod_funcs[rel][node.name] = fi
                    self.by_name.setdefault(node.name, []).append(fi)
                elif isinstance(node, ast.ClassDef):
                    ci = {"rel": rel, "bases": [ast.unparse(b).split(".")[-1] for b in node.bases], "methods": {}, "node": node,
                          "name": node.name}
                    self.classes[node.name] = ci
                    for st in node.body:
                        if isinstance(st, ast.FunctionDef):
                            fi = self.add_fn(rel, f"{node.name}.{st.name}", st, ci)
                            fi.kind = "method"
                            decs = fi.decorators
                            if "setter" in " ".join(decs):
                                continue
                            if any(d.split("(")[0] in ("property", "cached_property") for d in decs):
                                fi.is_property = True
                                self.props.setdefault(st.name, []).append(fi)
                            # `@property @cached(...)` also lands here via decorators list
                            ci["methods"].setdefault(st.name, fi)
                            if not fi.is_property:
                                self.methods.setdefault(st.name, []).append(fi)

    def add_fn(self, rel, qual, node, cls, parent=None):
        fi = FnInfo(len(self.fns), rel, qual, node, cls, parent)
        if node is not None:
            pos, va, kwo, kw = _params(node)
            fi.formals = pos + kwo + ([va] if va else []) + ([kw] if kw else [])
            fi.vararg, fi.kwarg = va, kw
            fi.decorators = [ast.unparse(d) for d in node.decorator_list]
        self.fns.append(fi)
        return fi

    def is_linop_class(self, cname, seen=None):
        seen = seen or set()
        if cname in seen:
            return False
        seen.add(cname)
        if cname == "LinearOperator":
            return True
        ci = self.classes.get(cname)
        return bool(ci) and any(self.is_linop_class(b, seen) for b in ci["bases"])

    def find_method(self, cname, mname, seen=None):
        seen = seen or set()
        if cname in seen or cname not in self.classes:
            return None
        seen.add(cname)
        ci = self.classes[cname]
        if mname in ci["methods"]:
            return ci["methods"][mname]
        for b in ci["bases"]:
            r = self.find_method(b, mname, seen)
            if r:
                return r
        return None

    def group(self, kind, name):
        """synthetic function joining every implementation of a method / property name"""
        key = (kind, name)
        if key in self.groups:
            return self.groups[key]
        impls = (self.methods if kind == "m" else self.props).get(name, [])
        fi = self.add_fn("<group>", f"{'method' if kind == 'm' else 'property'}:{name}", None, None)
        fi.kind = "group"
        fi.impls = impls
        base = next((i for i in impls if i.rel.endswith("_linear_operator.py") and i.rel.startswith("operators/_")), impls[0])
        names = []
        for i in [base] + impls:
            pos, va, kwo, kw = _params(i.node)
            if isinstance(i.node, ast.FunctionDef) and "staticmethod" in i.decorators:
                pos = ["self"] + pos
            for n in pos[1:] + kwo:
                if n not in names:
                    names.append(n)
        fi.formals = ["self"] + names + ["*extra"]
        bpos, _, _, _ = _params(base.node)
        if "staticmethod" in base.decorators:
            bpos = ["self"] + bpos
        fi.base_pos = bpos
        self.groups[key] = fi
        return fi


# ----------------------------------------------------------------------------- translation of one function
def free_names(node, params):
    """names read in `node` (a FunctionDef / Lambda) that are not bound inside it"""
    bound = set(params)
    loads = []
    body = node.body if isinstance(node.body, list) else [node.body]
    for st in body:
        for n in ast.walk(st):
            if isinstance(n, ast.Name):
                if isinstance(n.ctx, ast.Store):
                    bound.add(n.id)
                else:
                    loads.append(n.id)
            elif isinstance(n, (ast.FunctionDef, ast.ClassDef)):
                bound.add(n.name)
            elif isinstance(n, ast.arg):
                bound.add(n.arg)
            elif isinstance(n, ast.ExceptHandler) and n.name:
                bound.add(n.name)
    out = []
    for x in loads:
        if x not in bound and x not in out:
            out.append(x)
    return out


class Tr:
    def __init__(self, world, fi, outer_scope=None):
        self.W, self.fi = world, fi
        self.vars = {}
        self.names = []
        self.kind = {}
        self.NIL = -1
        self.local_fns = {}     # name -> FnInfo of nested defs
        self.newobj = {}        # var -> True if it certainly names a tensor object created inside this function
        self.elemnew = {}       # container var -> its elements are objects created in this function
        self.scopes = []        # comprehension scopes: name -> var
        self.elemkind = {}      # container var -> kind of its elements (or ('zip', [kinds]))
        self.stack = [[]]
        self.tensor_module = "LinearOperator" not in world.mod_text.get(fi.rel, "LinearOperator")
        self.outer_scope = outer_scope or set()

    # -- variables
    def var(self, name):
        for sc in reversed(self.scopes):
            if name in sc:
                return sc[name]
        if name not in self.vars:
            self.vars[name] = len(self.names)
            self.names.append(name)
        return self.vars[name]

    def tmp(self, hint="t"):
        i = len(self.names)
        self.names.append(f"%{hint}{i}")
        return i

    def emit(self, st):
        if st[0] == "assign" and st[1] == self.NIL:
            if st[2][0] == "fresh":
                return
            # never overwrite the storage-less value: redirect to a new temporary (its value is not read again)
            st = ("assign", self.tmp("sink"), st[2])
        self.stack[-1].append(st)

    def setkind(self, v, k):
        old = self.kind.get(v)
        self.kind[v] = k if old in (None, k) else "U"

    def block(self, stmts):
        self.stack.append([])
        for s in stmts:
            self.stmt(s)
        return ("seq", self.stack.pop())

    def assign(self, x, rhs, kind="U"):
        if x == self.NIL:
            x = self.tmp("sink")
        self.emit(("assign", x, rhs))
        self.setkind(x, kind)
        if rhs[0] == "same":
            new = self.newobj.get(rhs[1], False)
        else:
            new = rhs[0] in ("fresh", "view")    # results of view calls / indexing / arithmetic are new tensor objects
        self.newobj[x] = new and self.newobj.get(x, True)
        return x

    def fresh(self, kind="U", hint="f"):
        if kind in ("N", "G"):
            return self.NIL                   # constants / sizes / modules: a value without any storage
        t = self.tmp(hint)
        self.emit(("assign", t, ("fresh",)))
        self.kind[t] = kind
        self.newobj[t] = True
        return t

    # -- annotation -> kind
    def ann_kind(self, ann):
        if ann is None:
            return "U"
        s = ast.unparse(ann)
        lo, te = "LinearOperator" in s or "LinearOperatorType" in s, "Tensor" in s
        if lo and not te:
            return "O"
        if te and not lo:
            return "T"
        if not lo and not te and re.search(r"\b(int|bool|str|float|Size|dtype|device)\b", s):
            return "N"
        return "U"

    # -- entry
    def run(self):
        fi, node = self.fi, self.fi.node
        allargs = node.args.posonlyargs + node.args.args + node.args.kwonlyargs
        for a in allargs:
            v = self.var(a.arg)
            self.kind[v] = self.ann_kind(a.annotation)
        if node.args.vararg:
            self.kind[self.var(node.args.vararg.arg)] = "C"
            self.newobj[self.var(node.args.vararg.arg)] = True
        if node.args.kwarg:
            self.kind[self.var(node.args.kwarg.arg)] = "C"
            self.newobj[self.var(node.args.kwarg.arg)] = True
        if fi.cls is not None and allargs and "staticmethod" not in fi.decorators and "classmethod" not in fi.decorators:
            self.kind[0] = "O" if self.W.is_linop_class(fi.cls["name"]) else "X"
        for n in fi.free:
            self.kind[self.var(n)] = "U"
        nform = len(self.names)
        self.NIL = self.tmp("nil")            # never assigned: reaches no storage
        self.kind[self.NIL] = "N"
        self.newobj[self.NIL] = True
        body = node.body if isinstance(node.body, list) else [ast.Return(value=node.body, lineno=node.lineno)]
        ir = self.block(body)
        stmts = ir[1]
        if fi.name == "__init__" and fi.cls is not None:
            stmts.append(("ret", 0))
        if any(d.startswith("cached") for d in fi.decorators) and fi.cls is not None:
            # memoised: the result is stored in (and later served from) self
            stmts.append(("ret", 0))
        fi.body, fi.nparams, fi.nvars, fi.varnames = ("seq", stmts), nform, len(self.names), self.names
        return fi

    # -- statements
    def stmt(self, s):
        k = (self.fi.rel, s.lineno)
        self.W.spans[k] = max(self.W.spans.get(k, 0), getattr(s, "end_lineno", s.lineno) if not isinstance(s, (ast.If, ast.For, ast.While, ast.With, ast.Try, ast.FunctionDef)) else s.lineno)
        m = getattr(self, "s_" + type(s).__name__, None)
        if m is None:
            for e in ast.iter_child_nodes(s):
                if isinstance(e, ast.expr):
                    self.expr(e)
            return
        m(s)

    def s_Expr(self, s):
        self.expr(s.value)

    def s_Return(self, s):
        if s.value is not None:
            v, _ = self.expr(s.value)
            self.emit(("ret", v))

    def s_Pass(self, s):
        pass

    s_Import = s_ImportFrom = s_Global = s_Nonlocal = s_Break = s_Continue = s_Pass

    def s_Delete(self, s):
        for t in s.targets:
            if isinstance(t, ast.Subscript):
                o, ok = self.expr(t.value)
                if ok in ("C", "N"):
                    self.container_mut(o, t.value, s.lineno, "container-item-delete")
                else:
                    self.emit(("write", o, s.lineno, "subscript-delete"))

    def s_Raise(self, s):
        if s.exc is not None:
            self.expr(s.exc)

    def s_Assert(self, s):
        self.expr(s.test)

    def s_FunctionDef(self, s):
        pos, va, kwo, kw = _params(s)
        params = pos + kwo + ([va] if va else []) + ([kw] if kw else [])
        scope = set(self.vars) | self.outer_scope | {n.id for n in ast.walk(self.fi.node) if isinstance(n, ast.Name) and isinstance(n.ctx, ast.Store)}
        free = [n for n in free_names(s, params) if n in scope and n != s.name]
        fi = self.W.add_fn(self.fi.rel, f"{self.fi.qual}.<locals>.{s.name}", s, None, parent=self.fi)
        fi.kind = "nested"
        fi.free = free
        fi.formals = fi.formals + free
        self.local_fns[s.name] = fi
        Tr(self.W, fi, outer_scope=scope).run()
        # the closure object reaches what it captured
        x = self.var(s.name)
        self.assign(x, ("join", [self.var(n) for n in free]), "F")

    def s_ClassDef(self, s):
        pass

    def target(self, t, v, vk, line, elementwise_from=None):
        if isinstance(t, ast.Name):
            x = self.var(t.id)
            self.assign(x, ("same", v), vk)
            if v in self.elemkind:
                self.elemkind[x] = self.elemkind[v]
            else:
                self.elemkind.pop(x, None)
            self.elemnew[x] = self.elemnew.get(v, False)
        elif isinstance(t, (ast.Tuple, ast.List)):
            for i, e in enumerate(t.elts):
                if isinstance(e, ast.Starred):
                    e = e.value
                if elementwise_from is not None and i < len(elementwise_from):
                    ev, ek = elementwise_from[i]
                    self.target(e, ev, ek, line)
                else:
                    tv = self.tmp("u")
                    self.assign(tv, ("view", v), "U" if vk in ("C", "U", "F", "X") else vk)
                    self.newobj[tv] = False
                    self.target(e, tv, self.kind[tv], line)
        elif isinstance(t, ast.Attribute):
            o, ok = self.expr(t.value)
            self.attr_store(t, o, v, line)
        elif isinstance(t, ast.Subscript):
            o, ok = self.expr(t.value)
            self.expr(t.slice)
            if ok in ("C", "N"):
                self.container_mut(o, t.value, line, "container-item-store")
                self.emit(("assign", o, ("join", [o, v])))
                self.propagate_back(t.value, o)
            else:
                self.emit(("write", o, line, "subscript-store"))
        elif isinstance(t, ast.Starred):
            self.target(t.value, v, vk, line)

    def container_mut(self, o, recv, line, what):
        """a python container (list / dict / set) is mutated in place.  If the container object may be one that a
        caller-owned object holds (an attribute of `self` / of a parameter, a parameter itself, an element of such) this is
        a write to caller-owned state; containers created inside the function (displays, list(), .copy(), slices,
        comprehensions, **kwargs) are not."""
        if o == self.NIL or self.newobj.get(o, False):
            return
        if self.fi.rel in CONTAINER_MUT_OK_FILES:
            return
        base, attrs = recv, []
        while isinstance(base, (ast.Attribute, ast.Subscript, ast.Call)):
            if isinstance(base, ast.Attribute):
                attrs.append(base.attr)
                base = base.value
            elif isinstance(base, ast.Subscript):
                base = base.value
            else:
                base = base.func
        bname = base.id if isinstance(base, ast.Name) else "?"
        if bname in ATTR_STORE_OK_OBJ or any(ATTR_STORE_OK.search(a) for a in attrs):
            return
        if self.fi.name in ("__init__", "__new__") and bname == "self":
            return
        self.emit(("write", o, line, what))

    def propagate_back(self, e, o):
        """`e` evaluated to the temporary `o` which has just been extended (container mutation):
        the object `e` names reaches the new content as well."""
        while isinstance(e, (ast.Attribute, ast.Subscript)):
            e = e.value
        if isinstance(e, ast.Name) and e.id in self.vars and self.vars[e.id] != o:
            x = self.vars[e.id]
            self.emit(("assign", x, ("join", [x, o])))

    def attr_store(self, t, o, v, line):
        self.emit(("assign", o, ("join", [o, v])))
        self.propagate_back(t.value, o)
        base = t.value
        while isinstance(base, (ast.Attribute, ast.Subscript)):
            base = base.value
        bname = base.id if isinstance(base, ast.Name) else "?"
        ok = (self.fi.name in ("__init__", "__new__") and bname == "self") or bname in ATTR_STORE_OK_OBJ \
            or ATTR_STORE_OK.search(t.attr) or self.fi.rel in ATTR_STORE_OK_FILES
        self.W.attr_stores.append((self.fi.label, line, ast.unparse(t), bool(ok)))
        if not ok:
            self.emit(("write", o, line, "attribute-store"))

    def s_Assign(self, s):
        ew = None
        if isinstance(s.value, (ast.Tuple, ast.List)) and len(s.targets) == 1 and isinstance(s.targets[0], (ast.Tuple, ast.List)) \
                and len(s.value.elts) == len(s.targets[0].elts) and not any(isinstance(e, ast.Starred) for e in s.value.elts + s.targets[0].elts):
            ew = [self.expr(e) for e in s.value.elts]
            # evaluate all right-hand sides before binding (swap idiom)
            ew2 = []
            for ev, ek in ew:
                t = self.tmp("s")
                self.assign(t, ("same", ev), ek)
                ew2.append((t, ek))
            for e, (ev, ek) in zip(s.targets[0].elts, ew2):
                self.target(e, ev, ek, s.lineno)
            return
        v, vk = self.expr(s.value)
        for t in s.targets:
            self.target(t, v, vk, s.lineno)

    def s_AnnAssign(self, s):
        if s.value is not None:
            v, vk = self.expr(s.value)
            self.target(s.target, v, vk, s.lineno)

    def s_AugAssign(self, s):
        v, vk = self.expr(s.value)
        t = s.target
        if isinstance(t, ast.Name):
            x = self.var(t.id)
            k = self.kind.get(x, "U")
            if k == "N" and vk in ("N", "G"):
                self.assign(x, ("fresh",), "N")
            elif k == "N":
                # `n = 0; n += tensor`: the first round rebinds (int has no __iadd__), later rounds update in place
                self.emit(("write", x, s.lineno, "augmented-assignment"))
                self.emit(("assign", x, ("maybeView", x)))
                self.kind[x] = "U"
            elif k == "C":
                self.container_mut(x, t, s.lineno, "container-augmented-assignment")
                self.emit(("assign", x, ("join", [x, v])))
            else:
                self.emit(("write", x, s.lineno, "augmented-assignment"))
        elif isinstance(t, ast.Subscript):
            o, ok = self.expr(t.value)
            self.expr(t.slice)
            if ok in ("C", "N"):
                self.container_mut(o, t.value, s.lineno, "container-item-store")
                self.emit(("assign", o, ("join", [o, v])))
                self.propagate_back(t.value, o)
            else:
                self.emit(("write", o, s.lineno, "augmented-subscript-store"))
        elif isinstance(t, ast.Attribute):
            o, ok = self.expr(t.value)
            self.attr_store(t, o, v, s.lineno)
            a = self.tmp("a")
            self.assign(a, ("view", o))
            self.emit(("write", a, s.lineno, "augmented-attribute"))

    SCALAR_TYPES = {"int", "float", "bool", "str", "slice", "complex", "Number", "Integral", "Real"}

    def narrowed(self, test):
        """variables that `test` proves to be python scalars (isinstance(x, int) [and …]) inside the `if` body"""
        t = test.values[0] if isinstance(test, ast.BoolOp) and isinstance(test.op, ast.And) else test
        if isinstance(t, ast.Call) and isinstance(t.func, ast.Name) and t.func.id == "isinstance" and len(t.args) == 2 \
                and isinstance(t.args[0], ast.Name):
            ty = t.args[1]
            tys = ty.elts if isinstance(ty, ast.Tuple) else [ty]
            names = [ast.unparse(x).split(".")[-1] for x in tys]
            if all(n in self.SCALAR_TYPES for n in names):
                return [t.args[0].id]
        return []

    def s_If(self, s):
        self.expr(s.test)
        saved = {}
        for nm in self.narrowed(s.test):
            v = self.var(nm)
            saved[v] = self.kind.get(v)
            self.kind[v] = "N"
        a = self.block(s.body)
        for v, k in saved.items():
            self.kind[v] = k if k is not None else "U"
        b = self.block(s.orelse)
        self.emit(("if", a, b))

    def s_While(self, s):
        self.stack.append([])
        self.expr(s.test)
        for st in s.body:
            self.stmt(st)
        body = ("seq", self.stack.pop())
        self.emit(("while", body))
        self.expr(s.test)
        if s.orelse:
            self.emit(self.block(s.orelse))

    def s_For(self, s):
        it, ik = self.expr(s.iter)
        self.stack.append([])
        self.iter_target(s.target, it, ik, s.lineno)
        for st in s.body:
            self.stmt(st)
        body = ("seq", self.stack.pop())
        self.emit(("while", body))
        if s.orelse:
            self.emit(self.block(s.orelse))

    def iter_target(self, target, it, ik, line):
        ek = self.elemkind.get(it)
        en = self.elemnew.get(it, False)
        if isinstance(ek, tuple) and isinstance(target, (ast.Tuple, ast.List)) and len(ek[1]) == len(target.elts):
            for j, (t, (src, k)) in enumerate(zip(target.elts, ek[1])):
                el = self.tmp("e")
                self.assign(el, ("view", src), k or "U")
                self.newobj[el] = bool(isinstance(en, list) and j < len(en) and en[j])
                self.target(t, el, self.kind[el], line)
            return
        el = self.tmp("e")
        k = "N" if ik == "N" else (ek if isinstance(ek, str) else "U")
        self.assign(el, ("view", it), k)
        self.newobj[el] = en is True
        if isinstance(ek, tuple):
            self.kind[el] = "C"
        self.target(target, el, self.kind[el], line)

    def s_With(self, s):
        for it in s.items:
            v, vk = self.expr(it.context_expr)
            if it.optional_vars is not None:
                self.target(it.optional_vars, v, vk, s.lineno)
        for st in s.body:
            self.stmt(st)

    def s_Try(self, s):
        # the handlers may start from any intermediate state of the body: body is wrapped in a loop-like
        # nondeterministic prefix  (ifStar(stmt)(skip) per statement), then handlers, then orelse / finally
        full = self.block(s.body)
        partial = ("seq", [("if", st, ("seq", [])) for st in full[1]])
        hs = ("seq", [])
        for h in s.handlers:
            self.stack.append([])
            if h.name:
                self.assign(self.var(h.name), ("fresh",), "X")
            for st in h.body:
                self.stmt(st)
            hb = ("seq", self.stack.pop())
            hs = ("if", hb, hs)
        orelse = self.block(s.orelse)
        self.emit(("if", ("seq", [full, orelse]), ("seq", [partial, hs])))
        for st in s.finalbody:
            self.stmt(st)

    # -- expressions: return (var, kind)
    def expr(self, e):
        m = getattr(self, "e_" + type(e).__name__, None)
        if m is None:
            vs = [self.expr(c)[0] for c in ast.iter_child_nodes(e) if isinstance(c, ast.expr)]
            t = self.tmp("x")
            self.assign(t, ("opq", vs))
            return t, "U"
        return m(e)

    def e_Constant(self, e):
        return self.fresh("N", "c"), "N"

    def e_JoinedStr(self, e):
        for v in e.values:
            if isinstance(v, ast.FormattedValue):
                self.expr(v.value)
        return self.fresh("N", "c"), "N"

    def e_Name(self, e):
        for sc in reversed(self.scopes):
            if e.id in sc:
                return sc[e.id], self.kind.get(sc[e.id], "U")
        if e.id in self.vars:
            v = self.vars[e.id]
            return v, self.kind.get(v, "U")
        if e.id in self.local_fns:
            v = self.var(e.id)
            return v, "F"
        # global / builtin / module / not-yet-bound local
        if any(isinstance(n, ast.Name) and n.id == e.id and isinstance(n.ctx, ast.Store) for n in ast.walk(self.fi.node)):
            v = self.var(e.id)
            return v, self.kind.get(v, "U")
        return self.fresh("G", "g"), "G"

    def e_Tuple(self, e):
        vs = [self.expr(x.value if isinstance(x, ast.Starred) else x)[0] for x in e.elts if not isinstance(x, ast.Starred)] + \
             [self.expr(x.value)[0] for x in e.elts if isinstance(x, ast.Starred)]
        t = self.tmp("tup")
        self.assign(t, ("join", vs), "C")
        ks = {self.kind.get(v, "U") for v in vs}
        if len(ks) == 1:
            self.elemkind[t] = ks.pop()
        self.newobj[t] = True
        return t, "C"

    e_List = e_Set = e_Tuple

    def e_Dict(self, e):
        vs = [self.expr(x)[0] for x in list(e.keys) + list(e.values) if x is not None]
        t = self.tmp("d")
        self.assign(t, ("join", vs), "C")
        self.newobj[t] = True
        return t, "C"

    def e_Starred(self, e):
        return self.expr(e.value)

    def e_BinOp(self, e):
        a, ak = self.expr(e.left)
        b, bk = self.expr(e.right)
        if isinstance(e.op, (ast.Add, ast.Mult)) and ("C" in (ak, bk)):
            t = self.tmp("cat")
            self.assign(t, ("join", [a, b]), "C")
            ek = self.elemkind.get(a if ak == "C" else b)
            if ek is not None:
                self.elemkind[t] = ek
            self.newobj[t] = True
            return t, "C"
        if isinstance(e.op, ast.MatMult) or "O" in (ak, bk):
            return self.dunder(e, a, ak, b, bk)
        if ak == "N" and bk == "N":
            return self.fresh("N", "n"), "N"
        if isinstance(e.op, ast.Mod) and ak in ("N", "G"):
            return self.fresh("N", "n"), "N"
        k = "T" if "T" in (ak, bk) else "U"
        if k == "U" and not self.tensor_module and "N" not in (ak, bk):
            return self.dunder(e, a, ak, b, bk)
        return self.fresh(k if k == "T" else ("U" if "U" in (ak, bk) and not self.tensor_module else "T"), "ar"), \
            (k if k == "T" else ("U" if "U" in (ak, bk) and not self.tensor_module else "T"))

    OPS = {ast.Add: ("__add__", "__radd__"), ast.Sub: ("__sub__", "__rsub__"), ast.Mult: ("__mul__", "__rmul__"),
           ast.MatMult: ("__matmul__", "__rmatmul__"), ast.Div: ("__truediv__", "__rtruediv__")}

    def dunder(self, e, a, ak, b, bk):
        """binary operator with a (possible) LinearOperator operand: call the operator dunder groups"""
        names = self.OPS.get(type(e.op))
        res = self.tmp("op")
        alts = []
        if names:
            for nm, (x, y) in zip(names, ((a, b), (b, a))):
                if nm in self.W.methods:
                    g = self.W.group("m", nm)
                    alts.append(("call", res, g.idx, self.bind_group(g, [x, y], {}, None), e.lineno))
        if ak != "O" and bk != "O" or not alts:
            alts.append(("assign", res, ("fresh",)))
        st = alts[0]
        for alt in alts[1:]:
            st = ("if", ("seq", [alt]), ("seq", [st]))
        self.emit(st)
        k = "O" if "O" in (ak, bk) else "U"
        self.kind[res] = k
        self.newobj[res] = True
        return res, k

    def e_UnaryOp(self, e):
        v, k = self.expr(e.operand)
        if k == "N" or isinstance(e.op, ast.Not):
            return self.fresh("N", "n"), "N"
        if k in ("O", "U") and not self.tensor_module and "__neg__" in self.W.methods and isinstance(e.op, ast.USub):
            g = self.W.group("m", "__neg__")
            res = self.tmp("neg")
            self.emit(("if", ("seq", [("call", res, g.idx, self.bind_group(g, [v], {}, None), e.lineno)]),
                       ("seq", [("assign", res, ("fresh",))])))
            self.kind[res] = k
            return res, k
        return self.fresh("T", "ar"), "T"

    def e_Compare(self, e):
        ks = [self.expr(x)[1] for x in [e.left] + e.comparators]
        k = "N" if all(x in ("N", "G") for x in ks) or any(isinstance(o, (ast.Is, ast.IsNot, ast.In, ast.NotIn)) for o in e.ops) else "T"
        return self.fresh(k, "cmp"), k

    def e_BoolOp(self, e):
        vs = [self.expr(x) for x in e.values]
        t = self.tmp("bo")
        ks = {k for _, k in vs}
        k = ks.pop() if len(ks) == 1 else "U"
        self.assign(t, ("join", [v for v, _ in vs]), k)
        return t, k

    def e_IfExp(self, e):
        self.expr(e.test)
        self.stack.append([])
        a, ak = self.expr(e.body)
        sa = self.stack.pop()
        self.stack.append([])
        b, bk = self.expr(e.orelse)
        sb = self.stack.pop()
        t = self.tmp("ife")
        sa.append(("assign", t, ("same", a)))
        sb.append(("assign", t, ("same", b)))
        self.emit(("if", ("seq", sa), ("seq", sb)))
        k = ak if ak == bk else ("N" if {ak, bk} <= {"N", "G"} else "U")
        self.kind[t] = k
        return t, k

    def e_Lambda(self, e):
        params = [a.arg for a in e.args.posonlyargs + e.args.args + e.args.kwonlyargs]
        free = [n for n in free_names(e, params) if n in self.vars]
        t = self.tmp("lam")
        self.assign(t, ("join", [self.vars[n] for n in free]), "F")
        return t, "F"

    def comp(self, e, elts):
        acc = self.tmp("comp")
        self.assign(acc, ("fresh",), "C")
        sc = {}
        for g in e.generators:
            for n in ast.walk(g.target):
                if isinstance(n, ast.Name):
                    sc[n.id] = self.tmp("cv_" + n.id)
        self.scopes.append(sc)
        try:
            return self.comp2(e, elts, acc)
        finally:
            self.scopes.pop()

    def comp2(self, e, elts, acc):
        for g in e.generators:
            it, ik = self.expr(g.iter)
            self.iter_target(g.target, it, ik, e.lineno)
        self.stack.append([])
        for g in e.generators:
            for c in g.ifs:
                self.expr(c)
            # inner generators may depend on outer targets: re-evaluate inside the loop
            it, ik = self.expr(g.iter)
            self.iter_target(g.target, it, ik, e.lineno)
        vks = [self.expr(x) for x in elts]
        vs = [v for v, _ in vks]
        if len(vks) == 1:
            self.elemkind[acc] = vks[0][1]
            self.elemnew[acc] = bool(self.newobj.get(vks[0][0], False))
        self.emit(("assign", acc, ("join", [acc] + vs)))
        body = ("seq", self.stack.pop())
        self.emit(("while", body))
        return acc, "C"

    def e_ListComp(self, e):
        return self.comp(e, [e.elt])

    e_SetComp = e_GeneratorExp = e_ListComp

    def e_DictComp(self, e):
        return self.comp(e, [e.key, e.value])

    def e_Attribute(self, e):
        if isinstance(e.value, ast.Name) and e.value.id in MODULE_NAMES and e.value.id not in self.vars:
            return self.fresh("G", "g"), "G"
        o, ok = self.expr(e.value)
        if ok == "G":
            return self.fresh("G", "g"), "G"
        if e.attr in SCALAR_ATTRS or SCALAR_ATTR_RE.search(e.attr):
            return self.fresh("N", "n"), "N"
        t = self.tmp("at")
        k = "U"
        if e.attr in VIEW_ATTRS:
            k = ok if ok in ("T", "O") else "U"
        if ok == "T":
            k = "T"
        self.assign(t, ("view", o), k)
        self.newobj[t] = False               # the object stored in the attribute itself
        if e.attr in self.W.props and ok not in ("T", "N", "C"):
            g = self.W.group("p", e.attr)
            self.emit(("if", ("seq", [("call", t, g.idx, self.bind_group(g, [o], {}, None), e.lineno)]), ("seq", [])))
            # taint of the getter's result is at most that of `o` unless the getter mutates; keep `t` a view as well
            t2 = self.tmp("at")
            self.assign(t2, ("join", [t, o]) if False else ("same", t), k)
            if e.attr in ("linear_ops", "_args", "_kwargs", "_differentiable_kwargs"):
                self.kind[t2] = "C"
            return t2, self.kind[t2]
        if e.attr in ("_args", "_kwargs", "linear_ops", "saved_tensors", "_differentiable_kwargs", "_nondifferentiable_kwargs",
                      "_memoize_cache", "sizes", "dims", "_args_memo"):
            self.kind[t] = "C"
        if re.search(r"linear_op$|^base_linear_op|_lt$|^left_linear_op|^right_linear_op", e.attr):
            self.kind[t] = "O"
        return t, self.kind[t]

    def basic_index(self, sl):
        """syntactically basic (slices / ints / None / Ellipsis) -> 'basic'; surely advanced -> 'adv'; else 'unk'"""
        elts = sl.elts if isinstance(sl, ast.Tuple) else [sl]
        res = "basic"
        for x in elts:
            if isinstance(x, ast.Slice):
                continue
            if isinstance(x, ast.Constant) and (x.value is None or x.value is Ellipsis or isinstance(x.value, int)):
                continue
            if isinstance(x, ast.UnaryOp) and isinstance(x.operand, ast.Constant):
                continue
            if isinstance(x, ast.Name) and x.id in ("_noop_index",):
                continue
            if isinstance(x, (ast.Compare, ast.List)):
                return "adv"
            if isinstance(x, ast.Name) and x.id in self.vars and self.kind.get(self.vars[x.id]) == "N":
                continue
            if isinstance(x, ast.BinOp) and all(isinstance(n, (ast.Constant, ast.Name, ast.BinOp, ast.operator, ast.expr_context, ast.Attribute, ast.Call, ast.UnaryOp, ast.unaryop)) for n in ast.walk(x)) \
                    and all(self.kind.get(self.vars.get(n.id, -1)) == "N" for n in ast.walk(x) if isinstance(n, ast.Name)):
                continue
            res = "unk"
        return res

    def e_Subscript(self, e):
        o, ok = self.expr(e.value)
        if ok == "G":
            self.expr(e.slice)
            return self.fresh("G", "g"), "G"
        iv, ik = self.expr(e.slice) if not isinstance(e.slice, ast.Slice) else (None, "N")
        if ok == "N":
            return self.fresh("N", "n"), "N"
        t = self.tmp("ix")
        if ok == "C":
            if isinstance(e.slice, ast.Slice):
                self.assign(t, ("view", o), "C")
                self.newobj[t] = True            # slicing a list / tuple copies
                if o in self.elemkind:
                    self.elemkind[t] = self.elemkind[o]
                return t, "C"
            self.assign(t, ("view", o), "U")
            self.newobj[t] = False
            return t, "U"
        b = self.basic_index(e.slice)
        if b == "adv" and ok == "T":
            self.assign(t, ("fresh",), "T")
            return t, "T"
        if ok in ("O", "U", "X") and not self.tensor_module and "__getitem__" in self.W.methods:
            g = self.W.group("m", "__getitem__")
            args = self.bind_group(g, [o] + ([iv] if iv is not None else []), {}, None)
            alts = [("call", t, g.idx, args, e.lineno)]
            if ok != "O":
                alts.append(("assign", t, ("view" if b == "basic" else "maybeView", o)))
            self.emit(alts[0] if len(alts) == 1 else ("if", ("seq", [alts[0]]), ("seq", [alts[1]])))
            self.kind[t] = ok if ok == "O" else "U"
            self.newobj[t] = True                # indexing always creates a new tensor / operator object
            return t, self.kind[t]
        self.assign(t, ("view", o) if b == "basic" else ("maybeView", o), "T" if ok == "T" else "U")
        return t, self.kind[t]

    def e_Slice(self, e):
        for x in (e.lower, e.upper, e.step):
            if x is not None:
                self.expr(x)
        return self.fresh("N", "sl"), "N"

    def e_NamedExpr(self, e):
        v, k = self.expr(e.value)
        self.target(e.target, v, k, e.lineno)
        return v, k

    def e_Await(self, e):
        return self.expr(e.value)

    def e_Yield(self, e):
        if e.value is not None:
            v, k = self.expr(e.value)
            self.emit(("ret", v))
        return self.fresh("N"), "N"

    e_YieldFrom = e_Yield

    # -- calls
    def call_args(self, e):
        pos, star, kws, dstar = [], [], {}, []
        for a in e.args:
            if isinstance(a, ast.Starred):
                star.append(self.expr(a.value))
            else:
                pos.append(self.expr(a))
        for k in e.keywords:
            if k.arg is None:
                dstar.append(self.expr(k.value))
            else:
                kws[k.arg] = self.expr(k.value)
        return pos, star, kws, dstar

    def bind(self, fi, pos, kws, rest, skip_self=False):
        """actuals for the formals of `fi`; `pos` list of vars, `kws` name->var, `rest` var or None (star args)"""
        node = fi.node
        p, va, kwo, kw = _params(node)
        if skip_self:
            p = p[1:]
        none = None
        out = {}
        extra = []
        for i, v in enumerate(pos):
            if i < len(p):
                out[p[i]] = v
            else:
                extra.append(v)
        for k, v in kws.items():
            if k in p or k in kwo:
                out[k] = v
            else:
                extra.append(v)
        args = []
        for name in fi.formals:
            if name in out:
                args.append(out[name])
            elif name == va or name == kw:
                if extra or rest is not None:
                    t = self.tmp("va")
                    self.emit(("assign", t, ("join", extra + ([rest] if rest is not None else []))))
                    args.append(t)
                else:
                    args.append(self.none())
            elif name in fi.free:
                args.append(self.var(name))
            elif rest is not None:
                args.append(rest)
            else:
                args.append(self.none())
        if (extra or rest is not None) and va is None and kw is None and extra:
            pass
        return args

    def none(self):
        return self.NIL

    def bind_group(self, g, pos, kws, rest):
        out, extra = {}, []
        names = g.base_pos
        for i, v in enumerate(pos):
            if i < len(names):
                out["self" if i == 0 else names[i]] = v
            else:
                extra.append(v)
        for k, v in kws.items():
            if k in g.formals:
                out[k] = v
            else:
                extra.append(v)
        args = []
        for name in g.formals:
            if name == "*extra":
                if extra or rest is not None:
                    t = self.tmp("va")
                    self.emit(("assign", t, ("join", extra + ([rest] if rest is not None else []))))
                    args.append(t)
                else:
                    args.append(self.none())
            elif name in out:
                args.append(out[name])
            elif rest is not None:
                args.append(rest)
            else:
                args.append(self.none())
        return args

    def e_Call(self, e):
        f = e.func
        line = e.lineno
        k = (self.fi.rel, line)
        self.W.spans[k] = max(self.W.spans.get(k, 0), e.end_lineno)
        pos, star, kws, dstar = self.call_args(e)
        posv = [v for v, _ in pos]
        kwv = {k: v for k, (v, _) in kws.items()}
        rest = None
        if star or dstar:
            rest = self.tmp("star")
            self.assign(rest, ("join", [v for v, _ in star + dstar]), "C")
        allv = posv + list(kwv.values()) + ([rest] if rest is not None else [])
        res = self.tmp("r")

        # ---- plain names
        if isinstance(f, ast.Name):
            nm = f.id
            if nm in self.local_fns and (nm not in self.vars or self.kind.get(self.vars[nm]) == "F"):
                fi = self.local_fns[nm]
                self.emit(("call", res, fi.idx, self.bind(fi, posv, kwv, rest), line))
                self.kind[res] = "U"
                return res, "U"
            if nm in self.vars:                       # a callable value (closure parameter, …): pure by assumption
                self.assign(res, ("opq", allv), "U")
                return res, "U"
            if nm == "super":
                self.assign(res, ("same", 0) if self.names else ("fresh",), self.kind.get(0, "U"))
                return res, self.kind.get(0, "U")
            cands = self.W.mod_funcs.get(self.fi.rel, {}).get(nm)
            cands = [cands] if cands else self.W.by_name.get(nm, [])
            if cands:
                alts = [("call", res, c.idx, self.bind(c, posv, kwv, rest), line) for c in cands]
                st = alts[0]
                for a in alts[1:]:
                    st = ("if", ("seq", [a]), ("seq", [st]))
                self.emit(st)
                self.kind[res] = "U"
                return res, "U"
            if nm in self.W.classes:
                return self.construct(nm, res, posv, kwv, rest, line)
            if nm in SCALAR_CALLS:
                self.assign(res, ("fresh",), "N")
                return res, "N"
            if nm in CONTAINER_CALLS:
                self.assign(res, ("join", allv), "C")
                self.newobj[res] = nm in NEW_CONTAINER_CALLS
                if nm in ("list", "tuple", "reversed", "sorted", "iter") and len(pos) == 1 and not star:
                    if pos[0][0] in self.elemkind:
                        self.elemkind[res] = self.elemkind[pos[0][0]]
                    self.elemnew[res] = self.elemnew.get(pos[0][0], False)
                elif nm == "zip" and not star and not kws:
                    self.elemkind[res] = ("zip", [(v, self.elemkind.get(v) if isinstance(self.elemkind.get(v), str) else None) for v, _ in pos])
                    self.elemnew[res] = [self.elemnew.get(v, False) for v, _ in pos]
                elif nm == "enumerate" and len(pos) == 1 and not star:
                    n0 = self.fresh("N", "n")
                    self.elemkind[res] = ("zip", [(n0, "N"), (pos[0][0], self.elemkind.get(pos[0][0]) if isinstance(self.elemkind.get(pos[0][0]), str) else None)])
                elif nm == "range":
                    self.elemkind[res] = "N"
                return res, "C"
            if nm in ("deepcopy",):
                self.assign(res, ("fresh",), "U")
                return res, "U"
            if nm[:1].isupper():                      # foreign class / exception constructor: holds its arguments
                self.assign(res, ("join", allv), "X")
                return res, "X"
            self.assign(res, ("opq", allv), "U")
            return res, "U"

        # ---- attribute calls
        if isinstance(f, ast.Attribute):
            nm = f.attr
            # module functions: torch.X(...), torch.linalg.X(...), math.X ...
            root = f.value
            while isinstance(root, ast.Attribute):
                root = root.value
            if isinstance(root, ast.Name) and root.id in MODULE_NAMES and root.id not in self.vars:
                return self.module_call(root.id, nm, res, posv, kwv, rest, allv, line, pos)
            # super().m(...)
            if isinstance(f.value, ast.Call) and isinstance(f.value.func, ast.Name) and f.value.func.id == "super":
                ov, okd = (0, self.kind.get(0, "U"))
                return self.method_call(nm, ov, okd, res, posv, kwv, rest, allv, line, via_super=True)
            o, ok = self.expr(f.value)
            if ok == "G":                               # ClassName.method(...) / module alias
                cname = f.value.id if isinstance(f.value, ast.Name) else None
                if cname in self.W.classes:
                    m = self.W.find_method(cname, nm)
                    if m is not None:
                        if "staticmethod" in m.decorators:
                            self.emit(("call", res, m.idx, self.bind(m, posv, kwv, rest), line))
                        elif "classmethod" in m.decorators or nm == "apply":
                            self.emit(("call", res, m.idx, self.bind(m, [self.none()] + posv, kwv, rest), line))
                        else:
                            self.emit(("call", res, m.idx, self.bind(m, posv, kwv, rest), line))
                        self.kind[res] = "U"
                        return res, "U"
                    if nm == "apply":                   # autograd Function.apply -> forward(ctx, *args)
                        m = self.W.find_method(cname, "forward")
                        if m is not None:
                            ctx = self.fresh("X", "ctx")
                            self.emit(("call", res, m.idx, self.bind(m, [ctx] + posv, kwv, rest), line))
                            self.kind[res] = "U"
                            self.newobj[res] = True      # autograd wraps outputs in new tensor objects
                            return res, "U"
                return self.module_call("?", nm, res, posv, kwv, rest, allv, line, pos)
            return self.method_call(nm, o, ok, res, posv, kwv, rest, allv, line, recv_expr=f.value)

        # ---- anything else that is called: pure closure assumption
        fv, _ = self.expr(f)
        self.assign(res, ("opq", allv), "U")
        return res, "U"

    def construct(self, cname, res, posv, kwv, rest, line):
        init = self.W.find_method(cname, "__init__")
        k = "O" if self.W.is_linop_class(cname) else "X"
        if init is None:
            self.assign(res, ("join", posv + list(kwv.values()) + ([rest] if rest is not None else [])), k)
            return res, k
        obj = self.fresh(k, "new")
        self.emit(("call", res, init.idx, self.bind(init, [obj] + posv, kwv, rest), line))
        self.kind[res] = k
        return res, k

    def out_kw(self, kwv, res, posv, line, what):
        o = kwv["out"]
        self.emit(("write", o, line, what))
        self.assign(res, ("same", o), "T")
        return res, "T"

    def module_call(self, mod, nm, res, posv, kwv, rest, allv, line, pos):
        if "out" in kwv:
            return self.out_kw(kwv, res, posv, line, f"out= of {mod}.{nm}")
        if nm.endswith("_") and not nm.endswith("__") and nm not in ALLOWED_INPLACE and posv:
            self.emit(("write", posv[0], line, f"{mod}.{nm}"))
            self.assign(res, ("same", posv[0]), "T")
            return res, "T"
        if nm in SCALAR_CALLS and nm not in ("sum", "prod", "sqrt", "log", "abs", "min", "max", "any", "all", "pow", "round", "floor", "ceil", "type"):
            self.assign(res, ("fresh",), "N")
            return res, "N"
        if mod in ("math", "warnings", "string", "numbers", "os", "sys", "logging", "pickle"):
            self.assign(res, ("fresh",), "N")
            return res, "N"
        if mod in ("settings", "beta_features"):
            # settings.x.value() / on() / contexts: no tensors except deterministic_probes.probe_vectors (a cache)
            self.assign(res, ("fresh",), "N")
            return res, "N"
        if mod in ("itertools", "functools", "collections", "operator", "typing", "copy") and nm != "deepcopy":
            self.assign(res, ("join", allv), "C")
            return res, "C"
        if nm in VIEW:
            self.assign(res, ("join", allv) if nm.startswith("broadcast") or nm.startswith("atleast") else ("view", allv[0]) if allv else ("fresh",),
                        "C" if nm in ("broadcast_tensors", "unbind", "chunk", "split") else "T")
            return res, self.kind[res]
        if nm in MAYBE_VIEW:
            self.assign(res, ("maybeView", allv[0]) if allv else ("fresh",), "T")
            return res, "T"
        if mod == "linear_operator" or mod == "?":
            # package-level re-exports (linear_operator.to_dense, …) and ClassName.unknown
            cands = self.W.by_name.get(nm, [])
            if cands:
                alts = [("call", res, c.idx, self.bind(c, posv, kwv, rest), line) for c in cands]
                st = alts[0]
                for a in alts[1:]:
                    st = ("if", ("seq", [a]), ("seq", [st]))
                self.emit(st)
                self.kind[res] = "U"
                return res, "U"
            if nm in self.W.classes:
                return self.construct(nm, res, posv, kwv, rest, line)
            if mod == "?":
                self.assign(res, ("opq", allv), "U")
                return res, "U"
        # torch / numpy / scipy function: returns new memory, does not modify its arguments (assumption A2)
        k = "C" if nm in ("qr", "eigh", "svd", "cholesky_ex", "slogdet", "lu", "max", "min", "sort", "topk", "meshgrid", "where",
                         "broadcast_shapes", "unique", "triu_indices", "tril_indices") and mod != "math" else "T"
        self.assign(res, ("fresh",), k)
        return res, k

    def method_call(self, nm, o, ok, res, posv, kwv, rest, allv, line, via_super=False, recv_expr=None):
        W = self.W
        if nm == "__class__" and "__init__" in W.methods:      # self.__class__(*args): some constructor of the package
            g = W.group("m", "__init__")
            obj = self.fresh("O", "new")
            r1 = self.tmp("r")
            self.emit(("call", r1, g.idx, self.bind_group(g, [obj] + posv, kwv, rest), line))
            self.assign(res, ("join", [r1] + allv), ok)
            return res, ok
        # explicit in-place / out=
        if "out" in kwv and nm not in W.methods:
            return self.out_kw(kwv, res, posv, line, f"out= of .{nm}")
        inplace = nm.endswith("_") and not nm.endswith("__")
        if inplace and nm in ALLOWED_INPLACE and nm not in W.methods:
            self.assign(res, ("same", o), ok)
            return res, ok
        if inplace and nm in META_INPLACE and nm not in W.methods and self.newobj.get(o, False):
            self.assign(res, ("same", o), ok)
            return res, ok
        if inplace and nm not in W.methods:
            self.emit(("write", o, line, f".{nm}"))
            self.assign(res, ("same", o), ok)
            return res, ok
        if ok in ("C", "N", "F") or nm in CONTAINER_MUT and nm not in ("add", "sort") and ok not in ("T", "O"):
            if nm in CONTAINER_MUT:
                if nm not in ("save_for_backward", "mark_non_differentiable", "register_hook"):
                    self.container_mut(o, recv_expr if recv_expr is not None else ast.Name(id="?"), line, f"container.{nm}")
                self.emit(("assign", o, ("join", [o] + allv)))
                if recv_expr is not None:
                    self.propagate_back(recv_expr, o)
                self.assign(res, ("same", o), ok)
                self.newobj[res] = False
                return res, ok
            if nm in SCALAR_CALLS or nm in ("index", "count"):
                self.assign(res, ("fresh",), "N")
                return res, "N"
            if ok != "F" and nm not in W.methods:
                self.assign(res, ("join", [o] + allv), "C")
                self.newobj[res] = nm == "copy"
                if nm == "copy" and o in self.elemkind:
                    self.elemkind[res] = self.elemkind[o]
                return res, "C"
        if nm in PY_CONTAINER_METHODS and (nm != "sort" or ok == "C") and ok not in ("T", "O"):
            if nm in CONTAINER_MUT:
                self.container_mut(o, recv_expr if recv_expr is not None else ast.Name(id="?"), line, f"container.{nm}")
                self.emit(("assign", o, ("join", [o] + allv)))
                if recv_expr is not None:
                    self.propagate_back(recv_expr, o)
            self.assign(res, ("join", [o] + allv), "C")
            self.newobj[res] = nm == "copy"
            return res, "C"
        is_pkg = nm in W.methods and ok != "T" and not (self.tensor_module and ok == "U")
        if nm in SCALAR_CALLS or nm in FRESH_ANY:
            # the result never reaches old storage (sizes, flags, …; clone / deepcopy copy); effects of a package
            # implementation are still accounted for
            if is_pkg:
                g = W.group("m", nm)
                d = self.tmp("eff")
                self.emit(("call", d, g.idx, self.bind_group(g, [o] + posv, kwv, rest), line))
            k = "N" if nm in SCALAR_CALLS else (ok if ok in ("T", "O") else "U")
            self.assign(res, ("fresh",), k)
            return res, k
        alts = []
        if is_pkg:
            g = W.group("m", nm)
            alts.append(("call", res, g.idx, self.bind_group(g, [o] + posv, kwv, rest), line))
        tensor_side = ok != "O" or not is_pkg
        if tensor_side:
            if inplace and nm not in ALLOWED_INPLACE:
                alts.append(("seq", [("write", o, line, f".{nm}"), ("assign", res, ("same", o))]))
            elif nm in ALLOWED_INPLACE:
                alts.append(("assign", res, ("same", o)))
            elif nm in SCALAR_CALLS:
                alts.append(("assign", res, ("fresh",)))
            elif nm in VIEW:
                alts.append(("assign", res, ("view", o)))
            elif nm in MAYBE_VIEW:
                alts.append(("assign", res, ("maybeView", o)))
            elif ok == "T" or (self.tensor_module and ok == "U") or is_pkg or nm in TENSOR_FRESH:
                # out-of-place tensor method: new memory (assumption A2)
                alts.append(("assign", res, ("fresh",)))
            elif nm in ("clone", "deepcopy", "__deepcopy__"):
                alts.append(("assign", res, ("fresh",)))
            else:
                alts.append(("assign", res, ("opq", [o] + allv)))
        st = alts[0]
        for a in alts[1:]:
            st = ("if", ("seq", [a]), ("seq", [st]))
        self.emit(st)
        if nm in SCALAR_CALLS and not is_pkg:
            k = "N"
        elif ok == "T" or (self.tensor_module and ok == "U"):
            k = "T"
        elif ok == "O" and nm in OP_RETURNS_TENSOR:
            k = "T"
        else:
            k = "U"
        self.kind[res] = k
        return res, k


# hook contract (checked dynamically by harness/checks/c13.py, cell C13/contract/*): the tensor these hooks return never
# shares storage with the operator's own tensors (it may be, or alias, the tensor argument)
RESULT_NOT_SELF = {"_matmul", "_t_matmul"}
# in-place methods that only change the tensor object's metadata (shape / strides), never its storage
META_INPLACE = {"unsqueeze_", "squeeze_", "transpose_", "t_", "swapaxes_", "swapdims_", "rename_"}
PY_CONTAINER_METHODS = {"copy", "items", "get", "pop", "setdefault", "append", "extend", "insert", "update", "keys", "sort", "reverse",
                        "remove", "clear", "popitem", "discard"}
FRESH_ANY = {"clone", "__deepcopy__"}
OP_RETURNS_TENSOR = {"to_dense", "_matmul", "matmul", "_t_matmul", "solve", "_solve", "diagonal", "_diagonal", "inv_quad",
                     "logdet", "sqrt_inv_matmul", "zero_mean_mvn_samples", "_size", "size", "dim", "numel"}
TENSOR_FRESH = {
    "clone", "add", "sub", "mul", "div", "matmul", "mm", "bmm", "sum", "mean", "norm", "sqrt", "rsqrt", "pow", "exp", "log",
    "abs", "neg", "reciprocal", "clamp", "clamp_min", "clamp_max", "lt", "le", "gt", "ge", "eq", "ne", "all", "any", "max",
    "min", "argmax", "argmin", "sort", "topk", "gather", "index_select", "masked_select", "masked_fill", "repeat",
    "repeat_interleave", "cumsum", "cumprod", "prod", "tril", "triu", "diag_embed", "diag", "inverse", "det", "logdet",
    "cholesky", "qr", "svd", "nonzero", "where", "new_zeros", "new_ones", "new_empty", "new_full", "new_tensor", "scatter",
    "scatter_add", "index_add", "index_fill", "addcmul", "addcdiv", "addmm", "baddbmm", "fmod", "remainder", "floor", "ceil",
    "round", "sign", "sigmoid", "tanh", "softmax", "logsumexp", "var", "std", "dot", "outer", "kron", "flip", "roll",
    "isnan", "isinf", "isfinite", "square", "trace", "unique", "zero", "fill", "true_divide", "floor_divide", "logical_not",
    "logical_and", "logical_or", "bitwise_not", "type_as_no", "float_power", "expm1", "log1p", "lgamma", "digamma", "erf",
    "cholesky_solve", "triangular_solve", "pinverse", "matrix_power", "mv", "ger", "addmv", "sub_no", "tril_indices",
}


# ----------------------------------------------------------------------------- python mirror of `analyse`
def uni(a, b):
    return a + [x for x in b if x not in a]


class AS:
    __slots__ = ("env", "w", "r", "ok", "why")

    def __init__(self, env, w, r, ok=True, why=None):
        self.env, self.w, self.r, self.ok, self.why = env, w, r, ok, why or []

    def copy(self):
        return AS(dict(self.env), list(self.w), list(self.r), self.ok, list(self.why))


def a_le(a, b):
    return all(set(v) <= set(b.env.get(k, [])) for k, v in a.env.items()) and set(a.w) <= set(b.w) and set(a.r) <= set(b.r)


def a_join(a, b):
    env = {}
    for k in set(a.env) | set(b.env):
        env[k] = sorted(set(a.env.get(k, [])) | set(b.env.get(k, [])))
    return AS(env, sorted(set(a.w) | set(b.w)), sorted(set(a.r) | set(b.r)), a.ok and b.ok, a.why + [x for x in b.why if x not in a.why])


def analyse(st, a, sigma, invs, trace):
    """mirror of LinOp.C13.analyse; records loop invariants in `invs` (id(stmt) -> AS) and the origin of
    tainted writes in `trace` (list of (line, what, taint))."""
    op = st[0]
    if op == "seq":
        for s in st[1]:
            a = analyse(s, a, sigma, invs, trace)
        return a
    if op == "assign":
        _, x, r = st
        src = [] if r[0] == "fresh" else ([r[1]] if r[0] in ("view", "maybeView", "same") else r[1])
        t = []
        for y in src:
            t = uni(t, a.env.get(y, []))
        a.env[x] = sorted(t)
        return a
    if op == "write":
        t = a.env.get(st[1], [])
        if t:
            trace.append((st[2], st[3], list(t)))
        a.w = sorted(set(a.w) | set(t))
        return a
    if op == "ret":
        a.r = sorted(set(a.r) | set(a.env.get(st[1], [])))
        return a
    if op == "if":
        a1 = analyse(st[1], a.copy(), sigma, invs, trace)
        a2 = analyse(st[2], a.copy(), sigma, invs, trace)
        return a_join(a1, a2)
    if op == "while":
        inv = a.copy()
        for _ in range(200):
            c = analyse(st[1], inv.copy(), sigma, {}, [])
            if a_le(c, inv):
                break
            inv = a_join(inv, c)
        analyse(st[1], inv.copy(), sigma, invs, trace)
        invs[id(st)] = inv.copy()
        return inv
    if op == "call":
        _, x, f, args, line = st
        muts, rets = sigma[f]
        t = []
        for i in muts:
            if i < len(args):
                t = uni(t, a.env.get(args[i], []))
        if t:
            trace.append((line, f"call#{f}", list(t)))
        a.w = sorted(set(a.w) | set(t))
        t = []
        for i in rets:
            if i < len(args):
                t = uni(t, a.env.get(args[i], []))
        a.env[x] = sorted(t)
        return a
    raise ValueError(op)


# ----------------------------------------------------------------------------- build everything
def build():
    W = World()
    n0 = len(W.fns)
    for fi in list(W.fns[:n0]):
        Tr(W, fi).run()
    # groups are created on demand during translation; build their bodies now (may create no new functions)
    done = set()
    while True:
        todo = [g for g in W.groups.values() if g.idx not in done]
        if not todo:
            break
        for g in todo:
            done.add(g.idx)
            nform = len(g.formals)
            stmts = []
            nxt = nform
            names = list(g.formals)
            for impl in g.impls:
                p, va, kwo, kw = _params(impl.node)
                static = "staticmethod" in impl.decorators
                args = []
                pre = []
                for j, name in enumerate(impl.formals):
                    if name in (va, kw):
                        t = nxt
                        nxt += 1
                        names.append("%all")
                        pre.append(("assign", t, ("join", list(range(1, nform)))))
                        args.append(t)
                    elif j == 0 and not static and impl.kind == "method":
                        args.append(0)
                    elif name in g.formals:
                        args.append(g.formals.index(name))
                    else:
                        args.append(nform - 1)
                r = nxt
                nxt += 1
                names.append("%r")
                contract = g.qual.split(":")[1] in RESULT_NOT_SELF
                stmts.append(("if", ("seq", pre + [("call", r, impl.idx, args, impl.node.lineno)] + ([] if contract else [("ret", r)])),
                              ("seq", [])))
            if g.qual.split(":")[1] in RESULT_NOT_SELF:
                r = nxt
                nxt += 1
                names.append("%contract")
                stmts += [("assign", r, ("opq", list(range(1, nform)))), ("ret", r)]
            g.body, g.nparams, g.nvars, g.varnames = ("seq", stmts), nform, nxt, names
    for fi in W.fns:
        slim(fi)
    return W, None


def allowed_formals(fi):
    names = list(ALLOWED_PARAMS.get((fi.rel, fi.name), []))
    al = [fi.formals.index(n) for n in names if n in fi.formals]
    if BACKWARD_GRADS_ALLOWED and fi.kind == "method" and fi.name == "backward" and fi.formals[:1] == ["ctx"]:
        al += list(range(1, fi.nparams))
    return sorted(set(al))


def is_obligation(W, fi):
    """functions that must not mutate anything caller-owned: everything except module-level private helpers,
    nested closures, jit kernels (checked at their call sites through summaries) and synthetic groups."""
    if fi.kind == "group" or fi.kind == "nested":
        return False
    if fi.rel in ("settings.py", "beta_features.py") or fi.rel.startswith("utils/deprecation") or fi.rel.startswith("utils/memoize") \
            or fi.rel.startswith("utils/warnings") or fi.rel.startswith("utils/errors"):
        return False
    if fi.kind == "func" and fi.name.startswith("_"):
        return False
    return True


# ----------------------------------------------------------------------------- Lean emission
def lean_list(xs):
    return "[" + ", ".join(str(x) for x in xs) + "]"


def lean_rhs(r):
    if r[0] == "fresh":
        return ".fresh"
    if r[0] in ("view", "maybeView", "same"):
        return f"(.{r[0]} {r[1]})"
    return f"(.{r[0]} {lean_list(r[1])})"


def lean_env(inv, nvars):
    mx = max([k for k, v in inv.env.items() if v] + [-1]) + 1
    return "[" + ", ".join(lean_list(inv.env.get(i, [])) for i in range(mx)) + "]"


def lean_stmt(st, fi, depth=0):
    op = st[0]
    if op == "seq":
        items = [s for s in st[1] if not (s[0] == "seq" and not s[1])]
        if not items:
            return ".skip"
        if len(items) == 1:
            return lean_stmt(items[0], fi, depth)
        mid = len(items) // 2
        return f"(.seq {lean_stmt(('seq', items[:mid]), fi, depth + 1)}\n{'  ' * min(depth, 8)} {lean_stmt(('seq', items[mid:]), fi, depth + 1)})"
    if op == "assign":
        return f"(.assign {st[1]} {lean_rhs(st[2])})"
    if op == "write":
        return f"(.write {st[1]})"
    if op == "ret":
        return f"(.ret {st[1]})"
    if op == "call":
        return f"(.call {st[1]} {st[2]} {lean_list(st[3])})"
    if op == "if":
        return f"(.ifStar {lean_stmt(st[1], fi, depth + 1)} {lean_stmt(st[2], fi, depth + 1)})"
    if op == "while":
        inv = fi.invs[id(st)]
        return f"(.whileStar ⟨{lean_env(inv, fi.nvars)}, {lean_list(inv.w)}, {lean_list(inv.r)}⟩ {lean_stmt(st[1], fi, depth + 1)})"
    raise ValueError(op)


def lean_ident(fi):
    s = re.sub(r"[^A-Za-z0-9]", "_", f"{fi.rel[:-3] if fi.rel.endswith('.py') else 'group'}__{fi.qual}")
    return f"f{fi.idx}_{s}"[:120]


def _reads(st, acc):
    op = st[0]
    if op == "seq":
        for s in st[1]:
            _reads(s, acc)
    elif op == "assign":
        r = st[2]
        if r[0] in ("view", "maybeView", "same"):
            acc.add(r[1])
        elif r[0] in ("opq", "join"):
            acc.update(r[1])
    elif op in ("write", "ret"):
        acc.add(st[1])
    elif op == "call":
        acc.update(st[3])
    elif op == "if":
        _reads(st[1], acc)
        _reads(st[2], acc)
    elif op == "while":
        _reads(st[1], acc)


def _prune(st, live):
    op = st[0]
    if op == "seq":
        out = []
        for s in st[1]:
            s2 = _prune(s, live)
            if s2 is not None:
                if s2[0] == "seq":
                    out.extend(s2[1])
                else:
                    out.append(s2)
        return ("seq", out)
    if op == "assign":
        return st if st[1] in live else None
    if op == "if":
        def blk(x):
            x = _prune(x if x[0] == "seq" else ("seq", [x]), live)
            return x
        a, b = blk(st[1]), blk(st[2])
        if not a[1] and not b[1]:
            return None
        return ("if", a, b)
    if op == "while":
        b = _prune(st[1] if st[1][0] == "seq" else ("seq", [st[1]]), live)
        return ("while", b) if b[1] else None
    return st


def _rename(st, m):
    op = st[0]
    if op == "seq":
        return ("seq", [_rename(s, m) for s in st[1]])
    if op == "assign":
        r = st[2]
        if r[0] in ("view", "maybeView", "same"):
            r = (r[0], m[r[1]])
        elif r[0] in ("opq", "join"):
            r = (r[0], sorted({m[v] for v in r[1]}))
        return ("assign", m[st[1]], r)
    if op == "write":
        return ("write", m[st[1]]) + tuple(st[2:])
    if op == "ret":
        return ("ret", m[st[1]])
    if op == "call":
        return ("call", m[st[1]], st[2], [m[v] for v in st[3]], st[4])
    if op == "if":
        return ("if", _rename(st[1], m), _rename(st[2], m))
    if op == "while":
        return ("while", _rename(st[1], m))
    raise ValueError(op)


def slim(fi):
    """remove assignments to variables that are never read, then renumber the variables compactly
    (formals keep their numbers).  Taint-neutral: a variable that is never read influences nothing."""
    body = fi.body
    for _ in range(20):
        live = set(range(fi.nparams))
        _reads(body, live)
        new = _prune(body, live)
        if new == body:
            break
        body = new
    used = set(range(fi.nparams))
    _reads(body, used)

    def defs(st, acc):
        if st[0] == "seq":
            for s in st[1]:
                defs(s, acc)
        elif st[0] in ("assign", "call"):
            acc.add(st[1])
        elif st[0] == "if":
            defs(st[1], acc)
            defs(st[2], acc)
        elif st[0] == "while":
            defs(st[1], acc)
    defs(body, used)
    m = {}
    for v in sorted(used):
        m[v] = v if v < fi.nparams else len([x for x in m.values()])
    # formals first (identity), then the rest in increasing order
    nxt = fi.nparams
    m = {}
    for v in sorted(used):
        if v < fi.nparams:
            m[v] = v
        else:
            m[v] = nxt
            nxt += 1
    fi.body = _rename(body, m)
    names = [None] * nxt
    for v, k in m.items():
        names[k] = fi.varnames[v] if v < len(fi.varnames) else f"%v{v}"
    fi.varnames, fi.nvars = names, nxt


def write_lines(W, sigma):
    """(relpath, line) of every source line covered by an IR `write` or by a call of a callee that mutates a formal"""
    res = set()

    def walk(fi, st):
        op = st[0]
        if op == "seq":
            for x in st[1]:
                walk(fi, x)
        elif op == "if":
            walk(fi, st[1])
            walk(fi, st[2])
        elif op == "while":
            walk(fi, st[1])
        elif op == "write" or (op == "call" and sigma[st[2]][0]):
            line = st[2] if op == "write" else st[4]
            rel = fi.rel
            for ln in range(line, max(line, W.spans.get((rel, line), line)) + 1):
                res.add((rel, ln))
    for fi in W.fns:
        if fi.kind != "group":
            walk(fi, fi.body)
    return res


def roots_of(W):
    """functions containing a write (not a call) to a storage reachable from a formal that is not allowed"""
    res = []
    for fi in W.fns:
        al = allowed_formals(fi)
        direct = [(l, w, t) for l, w, t in fi.trace if not w.startswith("call#") and any(m not in al for m in t)]
        if direct and is_obligation(W, fi):
            res.append((fi, direct))
    return res


def summarise(W, patched=()):
    """least-fixpoint summaries; functions whose label is in `patched` are replaced by the stub
    `r := opq formals; ret r` (the function as it is after the proposed fix: writes only to new tensors)"""
    fns = W.fns
    bodies = {}
    for fi in fns:
        if fi.label in patched:
            r = fi.nparams
            bodies[fi.idx] = ("seq", [("assign", r, ("opq", list(range(fi.nparams)))), ("ret", r)])
        else:
            bodies[fi.idx] = fi.body
    sigma = [([], []) for _ in fns]
    for it in range(80):
        changed = False
        for fi in fns:
            a = AS({i: [i] for i in range(fi.nparams)}, [], [])
            r = analyse(bodies[fi.idx], a, sigma, {}, [])
            new = (sorted(set(sigma[fi.idx][0]) | set(r.w)), sorted(set(sigma[fi.idx][1]) | set(r.r)))
            if new != sigma[fi.idx]:
                sigma[fi.idx] = new
                changed = True
        if not changed:
            break
    invs, traces = {}, {}
    for fi in fns:
        invs[fi.idx], traces[fi.idx] = {}, []
        a = AS({i: [i] for i in range(fi.nparams)}, [], [])
        analyse(bodies[fi.idx], a, sigma, invs[fi.idx], traces[fi.idx])
    return bodies, sigma, invs, traces


def split_obligations(W, sigma):
    ok, bad = [], []
    for fi in W.fns:
        if is_obligation(W, fi):
            al = allowed_formals(fi)
            (bad if any(m not in al for m in sigma[fi.idx][0]) else ok).append(fi)
    return ok, bad


def emit_table(W, tag, bodies, sigma, invs, ok, bad, texts, CH=60):
    """Lean files of one table: C13{tag}Sigma (summaries), C13{tag}IR<i> (function bodies of chunk i and the kernel-checked
    conformance of that chunk, built in parallel), C13{tag}Table (assembly)."""
    fns = W.fns
    chunks = [fns[i:i + CH] for i in range(0, len(fns), CH)]
    ns = f"LinOp.Generated.C13{tag}"

    def summ(fi):
        return f"⟨{lean_list(sigma[fi.idx][0])}, {lean_list(sigma[fi.idx][1])}⟩"
    out = ["import LinOp.C13.Model", "-- GENERATED by harness/extract/c13_alias.py (do not edit)", f"namespace {ns}", "open LinOp.C13", "",
           "/-- candidate summaries (mutated formals, formals the result may alias), checked by `tableOK` -/",
           "def sigma : List Summary := [", ",\n".join("  " + summ(fi) for fi in fns) + "]", ""]
    for ci, ch in enumerate(chunks):
        out += [f"def sigma{ci} : List Summary := [", ",\n".join("  " + summ(fi) for fi in ch) + "]", ""]
    cat = " ++ (".join(f"sigma{ci}" for ci in range(len(chunks))) + ")" * (len(chunks) - 1)
    out += [f"theorem sigma_split : sigma = {cat} := by decide +kernel", "", f"end {ns}", ""]
    texts[f"C13{tag}Sigma.lean"] = "\n".join(out)

    class V:      # view of a function with the invariants of this table
        pass
    for ci, ch in enumerate(chunks):
        out = ["import LinOp.C13.Model", f"import LinOp.Generated.C13{tag}Sigma",
               "-- GENERATED by harness/extract/c13_alias.py from /repo/linear_operator (do not edit)",
               "set_option maxRecDepth 100000", f"namespace {ns}", "open LinOp.C13", ""]
        for fi in ch:
            v = V()
            v.invs, v.nvars = invs[fi.idx], fi.nvars
            out.append(f"/-- {fi.label} (line {fi.node.lineno if fi.node is not None else 0}); formals {fi.formals} -/")
            out.append(f"def {lean_ident(fi)} : Fn := ⟨{fi.nparams},\n {lean_stmt(bodies[fi.idx], v)}⟩")
            out.append("")
        out += [f"def chunk{ci} : List Fn := [", ",\n".join(f"  {lean_ident(fi)}" for fi in ch) + "]", "",
                f"/-- every function of this chunk conforms to its summary (kernel-evaluated analysis) -/",
                f"theorem chunk{ci}_ok : tableOK sigma sigma{ci} chunk{ci} = true := by decide +kernel", "",
                f"end {ns}", ""]
        texts[f"C13{tag}IR{ci}.lean"] = "\n".join(out)
    out = ["import LinOp.C13.Proofs"] + [f"import LinOp.Generated.C13{tag}IR{ci}" for ci in range(len(chunks))]
    cat = " ++ (".join(f"chunk{ci}" for ci in range(len(chunks))) + ")" * (len(chunks) - 1)
    proof = ""
    for ci in range(len(chunks) - 1):
        proof += f"tableOK_append _ _ _ _ _ chunk{ci}_ok ("
    proof += f"chunk{len(chunks) - 1}_ok" + ")" * (len(chunks) - 1)
    out += ["-- GENERATED by harness/extract/c13_alias.py (do not edit)", f"namespace {ns}", "open LinOp.C13", "",
            "/-- the function table: index = callee id used by `Stmt.call` -/", f"def table : List Fn := {cat}", "",
            "theorem table_ok : tableOK sigma sigma table = true := by",
            "  have h := " + proof,
            "  rw [← sigma_split] at h", "  exact h", "",
            "/-- (function id, allowed formals): the obligations that hold — public functions / methods of the package -/",
            "def obligations : List (Nat × List Nat) := ["]
    out.append(",\n".join(f"  ({fi.idx}, {lean_list(allowed_formals(fi))})" for fi in ok) + "]")
    out += ["", "/-- obligations the analysis rejects for this table (reported by the harness) -/",
            "def flagged : List Nat := " + lean_list([fi.idx for fi in bad]), "",
            f"end {ns}", ""]
    texts[f"C13{tag}Table.lean"] = "\n".join(out)


_CACHE = {}


def generate(known_root=lambda label: False):
    """Regenerates the Lean IR.  `known_root(label)` says whether a root defect is a listed known finding; those
    functions are stubbed in the second table (`C13P`: the tree with the proposed fixes applied)."""
    W, _ = build()
    bodies, sigma, invs, traces = summarise(W)
    for fi in W.fns:
        fi.trace, fi.muts, fi.rets = traces[fi.idx], sigma[fi.idx][0], sigma[fi.idx][1]
    roots = roots_of(W)
    patched = {fi.label for fi, _ in roots if known_root(fi.label)}
    ok, bad = split_obligations(W, sigma)
    texts = {}
    emit_table(W, "", bodies, sigma, invs, ok, bad, texts)
    bodiesP, sigmaP, invsP, tracesP = summarise(W, patched)
    okP, badP = split_obligations(W, sigmaP)
    okP = [fi for fi in okP if fi.label not in patched]
    emit_table(W, "P", bodiesP, sigmaP, invsP, okP, badP, texts)
    gen_dir = os.path.join(LEAN, "LinOp", "Generated")
    for f in os.listdir(gen_dir):
        if re.match(r"C13P?(IR\d+|Sigma|Table)\.lean$", f) and f not in texts:
            os.remove(os.path.join(gen_dir, f))
    for name, text in texts.items():
        path = os.path.join(gen_dir, name)
        if not os.path.exists(path) or open(path).read() != text:
            with open(path, "w") as fh:
                fh.write(text)
    return {"W": W, "sigma": sigma, "sigmaP": sigmaP, "ok": ok, "bad": bad, "okP": okP, "badP": badP, "roots": roots,
            "patched": patched, "tracesP": tracesP, "bodies": bodies}


if __name__ == "__main__":
    import sys
    G = generate(lambda label: label in ("utils/sparse.py:sparse_getitem", "utils/sparse.py:make_sparse_from_indices_and_values"))
    W = G["W"]
    print(len(W.fns), "functions;", len(G["ok"]), "obligations hold;", len(G["bad"]), "flagged; patched table:", len(G["okP"]), "hold,",
          len(G["badP"]), "flagged")
    for fi, direct in G["roots"]:
        print("ROOT", fi.label, [(l, w, [fi.varnames[m] for m in t]) for l, w, t in direct][:4])
    for fi in G["badP"]:
        print("FLAGGED(P)", fi.label, "muts", [fi.varnames[m] for m in G["sigmaP"][fi.idx][0]])
        for line, what, t in G["tracesP"][fi.idx]:
            if what.startswith("call#"):
                what = "-> " + W.fns[int(what[5:])].label
            print("    line", line, what, [fi.varnames[m] for m in t])
    if len(sys.argv) > 1:
        for fi in W.fns:
            if sys.argv[1] in fi.label:
                print(fi.label, fi.formals, "muts", fi.muts, "rets", fi.rets)
                import pprint
                pprint.pprint(fi.body, width=150)
                print(list(enumerate(fi.varnames)))
