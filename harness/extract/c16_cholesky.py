"""Translator for C16: constants and structural facts of `linear_operator/utils/cholesky.py`
(`_psd_safe_cholesky`, `psd_safe_cholesky`) and the defaults in `settings.py`
-> lean/LinOp/Generated/C16Consts.lean.  Regenerated from the working tree on every run
(file rewritten only when its text changes).

What is extracted (Python `ast`, no execution):
  * the jitter schedule  `jitter_new = jitter * (BASE ** (i + OFFSET))`  inside `for i in range(max_tries)`
  * the masked increment `(info OP THRESH) * (jitter_new - jitter_prev)`, `jitter_prev = INIT` before the loop and
    `jitter_prev = jitter_new` inside it ("cumulative")
  * whether the tensor written in place (`X.diagonal(...).add_`) is a fresh `A.clone()` ("clones")
  * the exception classes raised (in source order), the warning category, where the NaN screen sits
  * the expressions that supply the defaults of `jitter` / `max_tries`
  * literal defaults of `settings.cholesky_jitter` (float/double), `settings.cholesky_max_tries` and the values the
    docstrings of these classes document
  * parameter defaults of both functions
Anything that cannot be recognised is emitted as the string "?" / a sentinel so that the Lean obligations fail.
"""
import ast
import os
import re
from fractions import Fraction

from ..common import LEAN, REPO


def lean_str(s):
    return '"' + str(s).replace("\\", "\\\\").replace('"', '\\"') + '"'


def lean_rat(fr):
    if fr is None:
        return "(-1 : Rat)"
    fr = Fraction(fr)
    if fr.denominator == 1:
        return f"({fr.numerator} : Rat)"
    return f"(({fr.numerator} : Rat) / {fr.denominator})"


def _num_text(node):
    """Exact rational of a numeric literal, from its source text (1e-6 -> 1/1000000)."""
    try:
        txt = ast.unparse(node)
        return Fraction(txt.replace("_", ""))
    except Exception:
        return None


def _func(tree, name):
    for n in tree.body:
        if isinstance(n, ast.FunctionDef) and n.name == name:
            return n
    return None


def _param_defaults(fn):
    a = fn.args
    names = [x.arg for x in a.args]
    defaults = [None] * (len(names) - len(a.defaults)) + [ast.unparse(d) for d in a.defaults]
    return [(n, "<required>" if d is None else d) for n, d in zip(names, defaults)]


# ------------------------------------------------------------------------------------------------- statement skeleton
def _noinfo_test(test, infovar):
    """`not torch.any(info)` / `not info.any()`"""
    if isinstance(test, ast.UnaryOp) and isinstance(test.op, ast.Not) and isinstance(test.operand, ast.Call):
        c = test.operand
        f = ast.unparse(c.func)
        if f == "torch.any" and len(c.args) == 1 and not c.keywords and ast.unparse(c.args[0]) == infovar:
            return True
        if f == f"{infovar}.any" and not c.args and not c.keywords:
            return True
    return False


def _exit_test(test, infovar):
    if _noinfo_test(test, infovar):
        return "noinfo"
    if isinstance(test, ast.BoolOp) and isinstance(test.op, ast.Or) and len(test.values) == 2:
        a, b = test.values
        if ast.unparse(a) == "settings.trace_mode.on()" and _noinfo_test(b, infovar):
            return "trace|noinfo"
    return None


def _effect_free(st):
    """docstring / pass / the verbose_linalg logging block: not modelled, cannot change the observables"""
    if isinstance(st, ast.Pass):
        return True
    if isinstance(st, ast.Expr) and isinstance(st.value, ast.Constant) and isinstance(st.value.value, str):
        return True
    if isinstance(st, ast.If) and ast.unparse(st.test) == "settings.verbose_linalg.on()" and not st.orelse:
        return all(isinstance(b, ast.Expr) and isinstance(b.value, ast.Call)
                   and ast.unparse(b.value.func).startswith("settings.verbose_linalg.logger.") for b in st.body)
    return False


def _unknown(st):
    return "?" + type(st).__name__ + ":" + ast.unparse(st).replace("\n", " ")[:60]


def skeleton_core(core):
    """[(lineno, depth, role)] of `_psd_safe_cholesky` (see lean/LinOp/C16/Skeleton.lean for the roles)."""
    params = [a.arg for a in core.args.args]
    A = params[0] if params else "?"
    env = {"L": None, "info": None, "clone": None, "nan": None}
    out = []

    def chol_role(st):
        call = st.value
        tg = [ast.unparse(e) for e in st.targets[0].elts]
        arg = ast.unparse(call.args[0]) if len(call.args) == 1 else "?"
        kws = sorted(k.arg or "**" for k in call.keywords)
        if env["L"] is None and len(tg) == 2:
            env["L"], env["info"] = tg
        who = "input" if arg == A else ("clone" if arg == env["clone"] and arg is not None else "?" + arg)
        extra = [k for k in kws if k != "out"]
        bad_out = any(k.arg == "out" and ast.unparse(k.value) != "out" for k in call.keywords)
        role = f"chol({who})"
        if extra or bad_out:
            role += ";kw=" + ",".join(extra + (["out!"] if bad_out else []))
        if tg != [env["L"], env["info"]]:
            role += "->" + ",".join(tg)
        return role

    def classify(st, depth, loopvar):
        if isinstance(st, ast.Assign) and len(st.targets) == 1 and isinstance(st.targets[0], ast.Tuple) \
                and isinstance(st.value, ast.Call) and ast.unparse(st.value.func).endswith("cholesky_ex"):
            return chol_role(st)
        if isinstance(st, ast.If) and not st.orelse:
            test = ast.unparse(st.test)
            if env["info"] is not None:
                t = _exit_test(st.test, env["info"])
                if t is not None and len(st.body) == 1 and isinstance(st.body[0], ast.Return) \
                        and st.body[0].value is not None and ast.unparse(st.body[0].value) == env["L"]:
                    return f"return-if({t})"
            if depth == 0 and test == "out is not None" and len(st.body) == 1 and isinstance(st.body[0], ast.Assign) \
                    and ast.unparse(st.body[0].targets[0]) == "out" and isinstance(st.body[0].value, ast.Tuple) \
                    and len(st.body[0].value.elts) == 2 and ast.unparse(st.body[0].value.elts[0]) == "out" \
                    and ast.unparse(st.body[0].value.elts[1]).startswith("torch.empty("):
                return "outpack"
            if depth == 0 and env["nan"] is not None and test == f"{env['nan']}.any()" and len(st.body) == 1 \
                    and isinstance(st.body[0], ast.Raise) and isinstance(st.body[0].exc, ast.Call):
                return "raise-if(nan):" + ast.unparse(st.body[0].exc.func)
            for pname in ("jitter", "max_tries"):
                if depth == 0 and test == f"{pname} is None" and len(st.body) == 1 and isinstance(st.body[0], ast.Assign) \
                        and [ast.unparse(t) for t in st.body[0].targets] == [pname]:
                    return f"default({pname})"
        if isinstance(st, ast.Assign) and all(isinstance(t, ast.Name) for t in st.targets):
            names = sorted(t.id for t in st.targets)
            v = st.value
            if depth == 0 and len(names) == 1 and isinstance(v, ast.Call) and ast.unparse(v.func) == "torch.isnan" \
                    and [ast.unparse(a) for a in v.args] == [A] and not v.keywords:
                env["nan"] = names[0]
                return "nanscan(input)"
            if depth == 0 and len(names) == 1 and isinstance(v, ast.Call) and ast.unparse(v.func) == f"{A}.clone" \
                    and not v.args and not v.keywords:
                env["clone"] = names[0]
                return "clone"
            if depth == 0 and set(names) <= {"jitter_new", "jitter_prev"} and isinstance(v, ast.Constant) and v.value == 0 \
                    and not isinstance(v.value, bool):
                return "init(" + ",".join(names) + "=0)"
            if depth == 1 and names == ["jitter_new"] and isinstance(v, ast.BinOp) and isinstance(v.op, ast.Mult) \
                    and ast.unparse(v.left) == "jitter" and isinstance(v.right, ast.BinOp) and isinstance(v.right.op, ast.Pow):
                return "sched"
            if depth == 1 and names == ["diag_add"]:
                masked = any(isinstance(x, ast.BinOp) and isinstance(x.op, ast.Mult) and isinstance(x.left, ast.Compare)
                             and ast.unparse(x.left.left) == env["info"]
                             and ast.unparse(x.right) in ("jitter_new - jitter_prev", "(jitter_new - jitter_prev)")
                             for x in ast.walk(v))
                return "incr(masked)" if masked else "incr(?)"
            if depth == 1 and names == ["jitter_prev"] and ast.unparse(v) == "jitter_new":
                return "prev"
        if isinstance(st, ast.Expr) and isinstance(st.value, ast.Call):
            c = st.value
            f = ast.unparse(c.func)
            if depth == 1 and f == "warnings.warn":
                cat = ast.unparse(c.args[1]) if len(c.args) >= 2 else next((ast.unparse(k.value) for k in c.keywords if k.arg == "category"), "?")
                return "warn:" + cat
            if depth == 1 and isinstance(c.func, ast.Attribute) and c.func.attr == "add_" and env["clone"] is not None \
                    and f.startswith(env["clone"] + ".diagonal(") and [ast.unparse(a) for a in c.args] == ["diag_add"]:
                return "write(clone.diagonal)"
        if isinstance(st, ast.Raise) and depth == 0 and isinstance(st.exc, ast.Call):
            return "raise:" + ast.unparse(st.exc.func)
        return None

    for st in core.body:
        if _effect_free(st):
            continue
        if isinstance(st, ast.For) and not st.orelse and isinstance(st.target, ast.Name) and isinstance(st.iter, ast.Call) \
                and ast.unparse(st.iter.func) == "range":
            out.append((st.lineno, 0, "for(" + ast.unparse(st.iter) + ")"))
            for b in st.body:
                if _effect_free(b):
                    continue
                out.append((b.lineno, 1, classify(b, 1, st.target.id) or _unknown(b)))
            continue
        out.append((st.lineno, 0, classify(st, 0, None) or _unknown(st)))
    return out


def skeleton_wrapper(wrap, core_name="_psd_safe_cholesky"):
    params = [a.arg for a in wrap.args.args]
    A = params[0] if params else "?"
    out = []
    res = {"L": None}
    for st in wrap.body:
        if _effect_free(st):
            continue
        role = None
        if isinstance(st, ast.Assign) and len(st.targets) == 1 and isinstance(st.targets[0], ast.Name) \
                and isinstance(st.value, ast.Call) and ast.unparse(st.value.func) == core_name:
            c = st.value
            res["L"] = st.targets[0].id
            fwd = [ast.unparse(a) for a in c.args] == [A] and \
                sorted((k.arg, ast.unparse(k.value)) for k in c.keywords) == [("jitter", "jitter"), ("max_tries", "max_tries"), ("out", "out")]
            role = "core-call(forward-all)" if fwd else "core-call(?" + ast.unparse(c)[:60] + ")"
            out.append((st.lineno, 0, role))
            continue
        if isinstance(st, ast.If) and ast.unparse(st.test) == "upper" and not st.orelse:
            out.append((st.lineno, 0, "if(upper)"))

            def tr_role(b):
                if isinstance(b, ast.Assign) and len(b.targets) == 1:
                    t, v = ast.unparse(b.targets[0]), ast.unparse(b.value)
                    if t == "out" and v in ("out.transpose_(-1, -2)", "out.transpose_(-2, -1)"):
                        return "transpose-out-inplace"
                    if t == res["L"] and v in (f"{t}.mT", f"{t}.transpose(-1, -2)", f"{t}.transpose(-2, -1)"):
                        return "transpose-result"
                return _unknown(b)
            for b in st.body:
                if isinstance(b, ast.If) and ast.unparse(b.test) == "out is not None":
                    out.append((b.lineno, 1, "if(out)"))
                    for x in b.body:
                        out.append((x.lineno, 2, tr_role(x)))
                    if b.orelse:
                        out.append((b.orelse[0].lineno, 1, "else"))
                        for x in b.orelse:
                            out.append((x.lineno, 2, tr_role(x)))
                else:
                    out.append((b.lineno, 1, tr_role(b)))
            continue
        if isinstance(st, ast.Return) and st.value is not None and ast.unparse(st.value) == res["L"]:
            out.append((st.lineno, 0, "return-result"))
            continue
        out.append((st.lineno, 0, _unknown(st)))
    return out


def extract_cholesky(src):
    facts = {
        "base": 0, "expOffset": -1, "loopVar": "?", "loopBound": "?", "jitterPrevInit": None, "cumulative": False,
        "maskOp": "?", "maskThreshold": -1, "maskVar": "?", "clones": False, "writeTarget": "?", "writeOp": "?",
        "raises": [], "warnCategory": "?", "warnInLoop": False, "nanScreenBeforeLoop": False,
        "jitterDefaultExpr": "?", "maxTriesDefaultExpr": "?", "firstCallArg": "?", "retryCallArg": "?",
        "exitTests": [], "coreParams": [], "wrapperParams": [], "wrapperUpperExpr": "?", "cholCalls": 0,
        "loopBodyKinds": [], "jitterNewBoundBeforeLoop": False, "finalRaiseUsesJitterNew": False,
        "coreSkeleton": [(0, 0, "?missing")], "wrapperSkeleton": [(0, 0, "?missing")], "coreFirstLine": 0,
    }
    tree = ast.parse(src)
    core = _func(tree, "_psd_safe_cholesky")
    wrap = _func(tree, "psd_safe_cholesky")
    if core is None or wrap is None:
        return facts
    facts["coreParams"] = _param_defaults(core)
    facts["coreSkeleton"] = skeleton_core(core)
    facts["wrapperSkeleton"] = skeleton_wrapper(wrap)
    facts["coreFirstLine"] = core.lineno
    facts["wrapperParams"] = _param_defaults(wrap)
    loop = next((n for n in core.body if isinstance(n, ast.For)), None)
    # exceptions raised, in source order
    for n in ast.walk(core):
        if isinstance(n, ast.Raise) and isinstance(n.exc, ast.Call):
            facts["raises"].append((n.lineno, ast.unparse(n.exc.func)))
    facts["raises"] = [r for _, r in sorted(facts["raises"])]
    for st in core.body:
        if isinstance(st, ast.Raise):
            facts["finalRaiseUsesJitterNew"] = any(isinstance(x, ast.Name) and x.id == "jitter_new" for x in ast.walk(st))
    # cholesky_ex calls
    calls = [n for n in ast.walk(core) if isinstance(n, ast.Call) and ast.unparse(n.func).endswith("cholesky_ex")]
    facts["cholCalls"] = len(calls)
    # statements before the loop
    for st in core.body:
        if st is loop:
            break
        for t in (st.targets if isinstance(st, ast.Assign) else []):
            if isinstance(t, ast.Name) and t.id == "jitter_prev":
                facts["jitterPrevInit"] = _num_text(st.value)
            if isinstance(t, ast.Name) and t.id == "jitter_new":
                facts["jitterNewBoundBeforeLoop"] = True
            if isinstance(t, ast.Name) and isinstance(st.value, ast.Call) and isinstance(st.value.func, ast.Attribute) \
                    and st.value.func.attr == "clone" and ast.unparse(st.value.func.value) == "A" and not st.value.args:
                facts["_cloneVar"] = t.id
            if isinstance(t, ast.Tuple) and isinstance(st.value, ast.Call) and ast.unparse(st.value.func).endswith("cholesky_ex"):
                facts["firstCallArg"] = ast.unparse(st.value.args[0]) if st.value.args else "?"
        if isinstance(st, ast.If):
            test = ast.unparse(st.test)
            body = [ast.unparse(b) for b in st.body]
            if any(isinstance(b, ast.Return) for b in st.body):
                facts["exitTests"].append(test)
            if any(isinstance(b, ast.Raise) for b in st.body) and "isnan" in test:
                facts["nanScreenBeforeLoop"] = True
                facts["nanTest"] = test
            if test == "jitter is None" and len(st.body) == 1 and isinstance(st.body[0], ast.Assign):
                facts["jitterDefaultExpr"] = ast.unparse(st.body[0].value)
            if test == "max_tries is None" and len(st.body) == 1 and isinstance(st.body[0], ast.Assign):
                facts["maxTriesDefaultExpr"] = ast.unparse(st.body[0].value)
        if isinstance(st, ast.Assign) and isinstance(st.targets[0], ast.Name) and st.targets[0].id == "isnan":
            facts["nanSource"] = ast.unparse(st.value)
    if loop is not None and isinstance(loop.target, ast.Name) and isinstance(loop.iter, ast.Call) \
            and ast.unparse(loop.iter.func) == "range" and len(loop.iter.args) == 1:
        facts["loopVar"] = loop.target.id
        facts["loopBound"] = ast.unparse(loop.iter.args[0])
        iv = loop.target.id
        prev_updated = False
        for st in loop.body:
            kind = type(st).__name__
            if isinstance(st, ast.Assign) and isinstance(st.targets[0], ast.Name):
                kind = "Assign:" + st.targets[0].id
            elif isinstance(st, ast.Assign) and isinstance(st.targets[0], ast.Tuple):
                kind = "Assign:" + ",".join(ast.unparse(e) for e in st.targets[0].elts)
            elif isinstance(st, ast.Expr) and isinstance(st.value, ast.Call):
                kind = "Call:" + ast.unparse(st.value.func)
            elif isinstance(st, ast.If):
                kind = "If:" + ast.unparse(st.test) + ":" + ";".join(type(b).__name__ for b in st.body)
            facts["loopBodyKinds"].append(kind)
            if isinstance(st, ast.Assign) and isinstance(st.targets[0], ast.Name):
                name, v = st.targets[0].id, st.value
                if name == "jitter_new" and isinstance(v, ast.BinOp) and isinstance(v.op, ast.Mult) \
                        and ast.unparse(v.left) == "jitter" and isinstance(v.right, ast.BinOp) and isinstance(v.right.op, ast.Pow) \
                        and isinstance(v.right.left, ast.Constant) and isinstance(v.right.left.value, int):
                    facts["base"] = v.right.left.value
                    e = v.right.right
                    if isinstance(e, ast.Name) and e.id == iv:
                        facts["expOffset"] = 0
                    elif isinstance(e, ast.BinOp) and isinstance(e.op, ast.Add) and isinstance(e.left, ast.Name) and e.left.id == iv \
                            and isinstance(e.right, ast.Constant) and isinstance(e.right.value, int):
                        facts["expOffset"] = e.right.value
                if name == "jitter_prev" and ast.unparse(v) == "jitter_new":
                    prev_updated = True
                if name == "diag_add":
                    for sub in ast.walk(v):
                        if isinstance(sub, ast.BinOp) and isinstance(sub.op, ast.Mult) and isinstance(sub.left, ast.Compare) \
                                and len(sub.left.ops) == 1:
                            cmp_ = sub.left
                            facts["maskVar"] = ast.unparse(cmp_.left)
                            facts["maskOp"] = type(cmp_.ops[0]).__name__
                            c = cmp_.comparators[0]
                            if isinstance(c, ast.Constant) and isinstance(c.value, int):
                                facts["maskThreshold"] = c.value
                            facts["_incr"] = ast.unparse(sub.right)
                if isinstance(st.targets[0], ast.Name) and False:
                    pass
            if isinstance(st, ast.Assign) and isinstance(st.targets[0], ast.Tuple) and isinstance(st.value, ast.Call) \
                    and ast.unparse(st.value.func).endswith("cholesky_ex"):
                facts["retryCallArg"] = ast.unparse(st.value.args[0]) if st.value.args else "?"
            if isinstance(st, ast.Expr) and isinstance(st.value, ast.Call):
                c = st.value
                f = ast.unparse(c.func)
                if f == "warnings.warn":
                    facts["warnInLoop"] = True
                    if len(c.args) >= 2:
                        facts["warnCategory"] = ast.unparse(c.args[1])
                    for kw in c.keywords:
                        if kw.arg == "category":
                            facts["warnCategory"] = ast.unparse(kw.value)
                # in-place write: X.diagonal(...).add_(diag_add)
                if isinstance(c.func, ast.Attribute) and c.func.attr.endswith("_") and not c.func.attr.startswith("_"):
                    facts["writeOp"] = c.func.attr
                    tgt = c.func.value
                    while isinstance(tgt, (ast.Call, ast.Attribute)):
                        tgt = tgt.func if isinstance(tgt, ast.Call) else tgt.value
                    facts["writeTarget"] = ast.unparse(tgt)
                    facts["_writeArg"] = ast.unparse(c.args[0]) if c.args else "?"
            if isinstance(st, ast.If) and any(isinstance(b, ast.Return) for b in st.body):
                facts["exitTests"].append(ast.unparse(st.test))
        facts["cumulative"] = bool(prev_updated and facts.get("_incr") in ("jitter_new - jitter_prev", "(jitter_new - jitter_prev)")
                                   and "diag_add" in str(facts.get("_writeArg")))
        facts["clones"] = bool(facts.get("_cloneVar") is not None and facts["writeTarget"] == facts.get("_cloneVar")
                               and facts["retryCallArg"] == facts.get("_cloneVar"))
    # early exits: any `return` / `raise` textually before the first cholesky_ex call (core) or before the call of the core (wrapper)
    def stmts_before(fn, pred):
        cnt, found = 0, False
        for st in fn.body:
            if any(pred(x) for x in ast.walk(st)):
                found = True
                break
            cnt += sum(isinstance(x, (ast.Return, ast.Raise)) for x in ast.walk(st))
        return cnt if found else 99
    facts["coreEarlyExits"] = stmts_before(core, lambda x: isinstance(x, ast.Call) and ast.unparse(x.func).endswith("cholesky_ex"))
    facts["wrapperEarlyExits"] = stmts_before(wrap, lambda x: isinstance(x, ast.Call) and ast.unparse(x.func) == "_psd_safe_cholesky")
    for x in ast.walk(wrap):
        if isinstance(x, ast.Call) and ast.unparse(x.func) == "_psd_safe_cholesky":
            facts["wrapperCoreCall"] = ast.unparse(x)
    # wrapper: what happens under `if upper:`
    for st in wrap.body:
        if isinstance(st, ast.If) and ast.unparse(st.test) == "upper":
            facts["wrapperUpperExpr"] = " | ".join(ast.unparse(b).replace("\n", " ") for b in st.body)
    return facts


def _class(tree, name):
    for n in tree.body:
        if isinstance(n, ast.ClassDef) and n.name == name:
            return n
    return None


def extract_settings(src):
    tree = ast.parse(src)
    res = {"jitterFloat": None, "jitterDouble": None, "jitterHalfSet": False, "docJitterFloat": None, "docJitterDouble": None,
           "maxTries": -1, "docMaxTries": -2, "jitterBase": "?", "maxTriesBase": "?"}
    cj = _class(tree, "cholesky_jitter")
    if cj is not None:
        res["jitterBase"] = ",".join(ast.unparse(b) for b in cj.bases)
        for st in cj.body:
            if isinstance(st, ast.Assign) and isinstance(st.targets[0], ast.Name):
                if st.targets[0].id == "_global_float_value":
                    res["jitterFloat"] = _num_text(st.value)
                if st.targets[0].id == "_global_double_value":
                    res["jitterDouble"] = _num_text(st.value)
                if st.targets[0].id == "_global_half_value":
                    res["jitterHalfSet"] = True
        doc = ast.get_docstring(cj) or ""
        m = re.search(r"Default for `float`:\s*([0-9.eE+-]+)", doc)
        if m:
            res["docJitterFloat"] = Fraction(m.group(1))
        m = re.search(r"Default for `double`:\s*([0-9.eE+-]+)", doc)
        if m:
            res["docJitterDouble"] = Fraction(m.group(1))
    mt = _class(tree, "cholesky_max_tries")
    if mt is not None:
        res["maxTriesBase"] = ",".join(ast.unparse(b) for b in mt.bases)
        for st in mt.body:
            if isinstance(st, ast.Assign) and isinstance(st.targets[0], ast.Name) and st.targets[0].id == "_global_value":
                if isinstance(st.value, ast.Constant) and isinstance(st.value.value, int) and st.value.value >= 0:
                    res["maxTries"] = st.value.value
        doc = ast.get_docstring(mt) or ""
        m = re.search(r"\(Default:\s*([0-9]+)\)", doc)
        if m:
            res["docMaxTries"] = int(m.group(1))
    return res


def extract_operator(src):
    """`LinearOperator._cholesky`: the size shortcut and the psd_safe_cholesky call; `cholesky`: the transpose for upper."""
    res = {"opShortcutTest": "?", "opShortcutReturn": "?", "opPscCall": "?", "opCholeskyCallsLower": False}
    tree = ast.parse(src)
    cls = _class(tree, "LinearOperator")
    if cls is None:
        return res
    for fn in cls.body:
        if isinstance(fn, ast.FunctionDef) and fn.name == "_cholesky":
            for st in fn.body:
                if isinstance(st, ast.If) and "size" in ast.unparse(st.test) and any(isinstance(b, ast.Return) for b in st.body):
                    res["opShortcutTest"] = ast.unparse(st.test)
                    res["opShortcutReturn"] = ast.unparse(st.body[0].value) if isinstance(st.body[0], ast.Return) else "?"
            for x in ast.walk(fn):
                if isinstance(x, ast.Call) and ast.unparse(x.func) == "psd_safe_cholesky":
                    res["opPscCall"] = ast.unparse(x)
        if isinstance(fn, ast.FunctionDef) and fn.name == "cholesky":
            res["opCholeskyCallsLower"] = any(isinstance(x, ast.Call) and ast.unparse(x) == "self._cholesky(upper=False)" for x in ast.walk(fn))
    return res


def extract():
    ch = extract_cholesky(open(os.path.join(REPO, "linear_operator/utils/cholesky.py")).read())
    ch.update(extract_operator(open(os.path.join(REPO, "linear_operator/operators/_linear_operator.py")).read()))
    se = extract_settings(open(os.path.join(REPO, "linear_operator/settings.py")).read())
    return ch, se


def render(ch, se):
    def nat(x, bad=0):
        return str(x) if isinstance(x, int) and x >= 0 else str(bad)

    def strs(xs):
        return "[" + ", ".join(lean_str(x) for x in xs) + "]"

    def pairs(xs):
        return "[" + ", ".join(f"({lean_str(a)}, {lean_str(b)})" for a, b in xs) + "]"

    out = [
        "-- GENERATED by harness/extract/c16_cholesky.py from /repo linear_operator/utils/cholesky.py and settings.py",
        "-- Do not edit: regenerated on every check run.",
        "namespace LinOp.Generated.C16", "",
        "/-- `jitter_new = jitter * (base ** (i + expOffset))` -/",
        f"def base : Nat := {nat(ch['base'])}",
        f"def expOffset : Int := {ch['expOffset'] if isinstance(ch['expOffset'], int) else -1}",
        f"def loopVar : String := {lean_str(ch['loopVar'])}",
        f"def loopBound : String := {lean_str(ch['loopBound'])}",
        "/-- `jitter_prev = <init>` before the loop (sentinel -1 if not recognised) -/",
        f"def jitterPrevInit : Rat := {lean_rat(ch['jitterPrevInit'])}",
        "/-- the in-place increment is `mask * (jitter_new - jitter_prev)` and `jitter_prev = jitter_new` follows it -/",
        f"def cumulative : Bool := {'true' if ch['cumulative'] else 'false'}",
        f"def maskVar : String := {lean_str(ch['maskVar'])}",
        f"def maskOp : String := {lean_str(ch['maskOp'])}",
        f"def maskThreshold : Int := {ch['maskThreshold'] if isinstance(ch['maskThreshold'], int) else -1}",
        "/-- the tensor written in place and re-factorised is a fresh `A.clone()` -/",
        f"def clones : Bool := {'true' if ch['clones'] else 'false'}",
        "/-- `jitter_new` is bound before the loop, or the `raise` after the loop does not read it -/",
        f"def jitterNewBound : Bool := {'true' if (ch['jitterNewBoundBeforeLoop'] or not ch['finalRaiseUsesJitterNew']) else 'false'}",
        f"def writeTarget : String := {lean_str(ch['writeTarget'])}",
        f"def writeOp : String := {lean_str(ch['writeOp'])}",
        f"def firstCallArg : String := {lean_str(ch['firstCallArg'])}",
        f"def retryCallArg : String := {lean_str(ch['retryCallArg'])}",
        f"def cholCalls : Nat := {nat(ch['cholCalls'])}",
        f"def exitTests : List String := {strs(ch['exitTests'])}",
        f"def nanScreenBeforeLoop : Bool := {'true' if ch['nanScreenBeforeLoop'] else 'false'}",
        f"def nanSource : String := {lean_str(ch.get('nanSource', '?'))}",
        f"def nanTest : String := {lean_str(ch.get('nanTest', '?'))}",
        f"def raises : List String := {strs(ch['raises'])}",
        f"def warnCategory : String := {lean_str(ch['warnCategory'])}",
        f"def warnInLoop : Bool := {'true' if ch['warnInLoop'] else 'false'}",
        f"def loopBodyKinds : List String := {strs(ch['loopBodyKinds'])}",
        f"def jitterDefaultExpr : String := {lean_str(ch['jitterDefaultExpr'])}",
        f"def maxTriesDefaultExpr : String := {lean_str(ch['maxTriesDefaultExpr'])}",
        f"def coreParams : List (String × String) := {pairs(ch['coreParams'])}",
        f"def wrapperParams : List (String × String) := {pairs(ch['wrapperParams'])}",
        f"def wrapperUpperExpr : String := {lean_str(ch['wrapperUpperExpr'])}",
        "/-- number of `return`/`raise` statements before the first `cholesky_ex` call (core) / before the core call (wrapper): size or other shortcuts -/",
        f"def coreEarlyExits : Nat := {nat(ch.get('coreEarlyExits', 99), 99)}",
        f"def wrapperEarlyExits : Nat := {nat(ch.get('wrapperEarlyExits', 99), 99)}",
        f"def wrapperCoreCall : String := {lean_str(ch.get('wrapperCoreCall', '?'))}",
        "/-- `LinearOperator._cholesky` / `cholesky` -/",
        f"def opShortcutTest : String := {lean_str(ch.get('opShortcutTest', '?'))}",
        f"def opShortcutReturn : String := {lean_str(ch.get('opShortcutReturn', '?'))}",
        f"def opPscCall : String := {lean_str(ch.get('opPscCall', '?'))}",
        f"def opCholeskyCallsLower : Bool := {'true' if ch.get('opCholeskyCallsLower') else 'false'}",
        "/-- statement skeleton (nesting depth, role) of `_psd_safe_cholesky` / `psd_safe_cholesky`, in source order; roles are",
        "documented in LinOp/C16/Skeleton.lean; `?…` = statement not recognised -/",
        "def coreSkeleton : List (Nat × String) := [" + ", ".join(f"({d}, {lean_str(r)})" for _, d, r in ch['coreSkeleton']) + "]",
        "def wrapperSkeleton : List (Nat × String) := [" + ", ".join(f"({d}, {lean_str(r)})" for _, d, r in ch['wrapperSkeleton']) + "]",
        "",
        "/-- `settings.cholesky_jitter._global_float_value` / `_global_double_value` (sentinel -1 if absent) -/",
        f"def jitterFloat : Rat := {lean_rat(se['jitterFloat'])}",
        f"def jitterDouble : Rat := {lean_rat(se['jitterDouble'])}",
        f"def jitterHalfSet : Bool := {'true' if se['jitterHalfSet'] else 'false'}",
        "/-- the defaults the class docstrings document -/",
        f"def docJitterFloat : Rat := {lean_rat(se['docJitterFloat'])}",
        f"def docJitterDouble : Rat := {lean_rat(se['docJitterDouble'])}",
        f"def jitterBaseClass : String := {lean_str(se['jitterBase'])}",
        f"def maxTries : Nat := {nat(se['maxTries'])}",
        f"def docMaxTries : Nat := {nat(se['docMaxTries'], 999)}",
        f"def maxTriesBaseClass : String := {lean_str(se['maxTriesBase'])}",
        "", "end LinOp.Generated.C16", ""]
    return "\n".join(out)


def generate():
    ch, se = extract()
    text = render(ch, se)
    path = os.path.join(LEAN, "LinOp", "Generated", "C16Consts.lean")
    if not os.path.exists(path) or open(path).read() != text:
        with open(path, "w") as fh:
            fh.write(text)
    return ch, se


if __name__ == "__main__":
    import json
    ch, se = generate()
    print(json.dumps({k: str(v) for k, v in {**ch, **se}.items()}, indent=1))
