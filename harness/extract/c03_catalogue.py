"""C03 — operator catalogue and index-language generator (belongs to harness/checks/c03.py).

Everything random derives from the `random.Random` handed in.  Data are small integers stored in
float64 (or float32) tensors, so every ring expression is exact."""
import torch


class Gen:
    def __init__(self, rng, dtype=torch.float64):
        self.rng = rng
        self.dtype = dtype

    def ints(self, *shape, lo=-3, hi=3, nonzero=False):
        n = 1
        for s in shape:
            n *= s
        vals = []
        for _ in range(n):
            v = self.rng.randint(lo, hi)
            while nonzero and v == 0:
                v = self.rng.randint(lo, hi)
            vals.append(float(v))
        return torch.tensor(vals, dtype=self.dtype).reshape(tuple(shape))

    def longs(self, *shape, hi):
        n = 1
        for s in shape:
            n *= s
        return torch.tensor([self.rng.randrange(hi) for _ in range(n)], dtype=torch.long).reshape(tuple(shape))

    def perm(self, *batch, n):
        rows = 1
        for s in batch:
            rows *= s
        out = []
        for _ in range(rows):
            p = list(range(n))
            self.rng.shuffle(p)
            out.append(p)
        return torch.tensor(out, dtype=torch.long).reshape(*batch, n)


# --------------------------------------------------------------------------------------------------
# builders: name -> f(g, batch) -> LinearOperator.   `batch` is a tuple.


def _ops():
    import linear_operator.operators as O
    return O


def b_dense(n=3, m=None):
    def f(g, b):
        return _ops().DenseLinearOperator(g.ints(*b, n, m or n))
    return f


def b_diag(n=3):
    def f(g, b):
        return _ops().DiagLinearOperator(g.ints(*b, n))
    return f


def b_constdiag(n=3):
    def f(g, b):
        return _ops().ConstantDiagLinearOperator(g.ints(*b, 1, nonzero=True), diag_shape=n)
    return f


def b_identity(n=3):
    def f(g, b):
        return _ops().IdentityLinearOperator(n, batch_shape=torch.Size(b), dtype=g.dtype)
    return f


def b_zero(n=3, m=4):
    def f(g, b):
        return _ops().ZeroLinearOperator(*b, n, m, dtype=g.dtype)
    return f


def b_toeplitz(n=4):
    def f(g, b):
        return _ops().ToeplitzLinearOperator(g.ints(*b, n))
    return f


def b_tri(n=3, upper=False, inner=None):
    def f(g, b):
        if inner is not None:
            return _ops().TriangularLinearOperator(inner(g, b), upper=upper)
        t = g.ints(*b, n, n)
        t = t.triu() if upper else t.tril()
        return _ops().TriangularLinearOperator(t, upper=upper)
    return f


def b_chol(n=3):
    def f(g, b):
        t = g.ints(*b, n, n).tril()
        return _ops().CholLinearOperator(_ops().TriangularLinearOperator(t, upper=False))
    return f


def b_root(n=3, r=2, inner=None):
    def f(g, b):
        return _ops().RootLinearOperator(inner(g, b) if inner else g.ints(*b, n, r))
    return f


def b_lowrankroot(n=4, r=2):
    def f(g, b):
        return _ops().LowRankRootLinearOperator(g.ints(*b, n, r))
    return f


def b_kron(*factors, cls="KroneckerProductLinearOperator"):
    def f(g, b):
        return getattr(_ops(), cls)(*[fa(g, b) for fa in factors])
    return f


def b_krontri(upper=False):
    def f(g, b):
        return _ops().KroneckerProductTriangularLinearOperator(b_tri(2, upper)(g, b), b_tri(3, upper)(g, b), upper=upper)
    return f


def b_addeddiag(inner, n, cls="AddedDiagLinearOperator"):
    def f(g, b):
        return getattr(_ops(), cls)(inner(g, b), _ops().DiagLinearOperator(g.ints(*b, n)))
    return f


def b_kronaddeddiag(constdiag=False):
    def f(g, b):
        k = _ops().KroneckerProductLinearOperator(b_dense(2)(g, b), b_dense(3)(g, b))
        d = b_constdiag(6)(g, b) if constdiag else b_diag(6)(g, b)
        return _ops().KroneckerProductAddedDiagLinearOperator(k, d)
    return f


def b_sumkron():
    def f(g, b):
        k1 = _ops().KroneckerProductLinearOperator(b_dense(2)(g, b), b_dense(2)(g, b))
        k2 = _ops().KroneckerProductLinearOperator(b_dense(2)(g, b), b_dense(2)(g, b))
        return _ops().SumKroneckerLinearOperator(k1, k2)
    return f


def b_sum(*parts, cls="SumLinearOperator"):
    def f(g, b):
        return getattr(_ops(), cls)(*[p(g, b) for p in parts])
    return f


def b_matmul(l, r):
    def f(g, b):
        return _ops().MatmulLinearOperator(l(g, b), r(g, b))
    return f


def b_mul(l, r):
    def f(g, b):
        return _ops().MulLinearOperator(l(g, b), r(g, b))
    return f


def b_constmul(inner, scalar_const=False):
    def f(g, b):
        c = g.ints(nonzero=True) if scalar_const else g.ints(*b, nonzero=True)
        return _ops().ConstantMulLinearOperator(inner(g, b), c)
    return f


def b_block(inner, k=2, cls="BlockDiagLinearOperator", block_dim=-3):
    """inner builds an operator with batch (*b, k)"""
    def f(g, b):
        if block_dim == -3:
            return getattr(_ops(), cls)(inner(g, (*b, k)))
        # block dim in front of the batch dims
        return getattr(_ops(), cls)(inner(g, (k, *b)), block_dim=block_dim)
    return f


def b_sumbatch(inner, k=2):
    def f(g, b):
        return _ops().SumBatchLinearOperator(inner(g, (*b, k)))
    return f


def b_batchrepeat(inner, base_batch_of):
    """base_batch_of(b) -> (base batch, repeat) with base*repeat == b elementwise (left padded)"""
    def f(g, b):
        base, rep = base_batch_of(b)
        return _ops().BatchRepeatLinearOperator(inner(g, base), batch_repeat=torch.Size(rep))
    return f


def rep_split_a(b):
    # repeat everything: base has batch of ones
    if len(b) == 0:
        return (), ()
    return tuple(1 for _ in b), tuple(b)


def rep_split_b(b):
    # base keeps the last batch dim, repeats the others (base has fewer dims)
    if len(b) == 0:
        return (), ()
    if len(b) == 1:
        return (), tuple(b)
    return (b[-1],), (*b[:-1], 1)


def rep_split_c(b):
    # genuine fmod: base batch 1 in last, base size kept in first
    if len(b) <= 1:
        return tuple(1 for _ in b), tuple(b)
    return (b[0], 1), (1, b[1])


def b_cat(parts, dim):
    """parts: builders; dim in {-1,-2}: matrix dim; dim == 'b0'/'b-1': batch dims (first / last)."""
    def f(g, b):
        O = _ops()
        if dim in (-1, -2):
            return O.CatLinearOperator(*[p(g, b) for p in parts], dim=dim)
        pos = 0 if dim == "b0" else len(b) - 1
        sizes = _split_sizes(b[pos], len(parts))
        ops = []
        for p, s in zip(parts, sizes):
            bb = list(b)
            bb[pos] = s
            ops.append(p(g, tuple(bb)))
        return O.CatLinearOperator(*ops, dim=pos - len(b) - 2)
    return f


def _split_sizes(n, k):
    # n >= k
    base = [1] * k
    base[0] += n - k
    return base


def b_interp(inner, n_base, n_rows, n_cols, k=2):
    def f(g, b):
        return _ops().InterpolatedLinearOperator(
            inner(g, b), g.longs(*b, n_rows, k, hi=n_base), g.ints(*b, n_rows, k),
            g.longs(*b, n_cols, k, hi=n_base), g.ints(*b, n_cols, k))
    return f


def b_interp_asym(inner, n_base, n, k=2):
    """square n x n operator W_l B W_r^T with DIFFERENT left/right interpolation indices and values"""
    def f(g, b):
        return _ops().InterpolatedLinearOperator(
            inner(g, b), g.longs(*b, n, k, hi=n_base), g.ints(*b, n, k, nonzero=True),
            g.longs(*b, n, k, hi=n_base), g.ints(*b, n, k, nonzero=True))
    return f


def b_interp_sym(inner, n_base, n, k=2):
    """the SKI structure W B W^T (same left and right interpolation); asymmetry only arises by indexing it"""
    def f(g, b):
        ii, vv = g.longs(*b, n, k, hi=n_base), g.ints(*b, n, k, nonzero=True)
        return _ops().InterpolatedLinearOperator(inner(g, b), ii, vv, ii.clone(), vv.clone())
    return f


def b_chol_upper(n=3):
    def f(g, b):
        t = g.ints(*b, n, n).triu()
        return _ops().CholLinearOperator(_ops().TriangularLinearOperator(t, upper=True), upper=True)
    return f


def b_interp_default(inner):
    def f(g, b):
        return _ops().InterpolatedLinearOperator(inner(g, b))
    return f


def b_masked(inner, row_mask, col_mask):
    def f(g, b):
        return _ops().MaskedLinearOperator(inner(g, b), torch.tensor(row_mask), torch.tensor(col_mask))
    return f


def b_perm(n=4):
    def f(g, b):
        return _ops().PermutationLinearOperator(g.perm(*b, n=n))
    return f


def b_transperm(m=2):
    def f(g, b):
        return _ops().TransposePermutationLinearOperator(m)
    return f


def _lin_kernel(x1, x2, **kw):
    return x1 @ x2.mT


def _lin_kernel_op(x1, x2, **kw):
    return _ops().MatmulLinearOperator(_ops().DenseLinearOperator(x1), _ops().DenseLinearOperator(x2.mT))


def _scaled_kernel(x1, x2, scale=None, **kw):
    return (x1 @ x2.mT) * scale


def _mt_kernel(x1, x2, task=None, **kw):
    # multi-output kernel: K(x1,x2) kron T  (outputs-per-input = T.shape)
    k = x1 @ x2.mT
    return torch.kron(k, task) if k.dim() == 2 and task.dim() == 2 else _bkron(k, task)


def _bkron(a, b):
    # batched kronecker of a (... m n) with b (p q) [b unbatched parameter passed as nontensor]
    res = a.unsqueeze(-1).unsqueeze(-3) * b.unsqueeze(-2).unsqueeze(-4)
    return res.reshape(*a.shape[:-2], a.shape[-2] * b.shape[-2], a.shape[-1] * b.shape[-1])


def b_kernel(kind="lin", n1=3, n2=4, d=2):
    def f(g, b):
        O = _ops()
        x1, x2 = g.ints(*b, n1, d), g.ints(*b, n2, d)
        if kind == "lin":
            return O.KernelLinearOperator(x1, x2, covar_func=_lin_kernel)
        if kind == "linop":
            return O.KernelLinearOperator(x1, x2, covar_func=_lin_kernel_op)
        if kind == "scaled":
            return O.KernelLinearOperator(x1, x2, covar_func=_scaled_kernel, scale=g.ints(*b, 1, 1, nonzero=True),
                                          num_nonbatch_dimensions={"scale": 2})
        raise ValueError(kind)
    return f


class _TaskKernel:
    """covar_func with a fixed task matrix (a non-tensor parameter would be hashed; keep it in a closure)"""
    def __init__(self, task):
        self.task = task

    def __call__(self, x1, x2, **kw):
        return _ops().DenseLinearOperator(_bkron(x1 @ x2.mT, self.task))


def _sym(t):
    return t + t.mT


def b_kernel_mt(n1=2, n2=3, d=2, p=2, q=2):
    def f(g, b):
        x1, x2 = g.ints(*b, n1, d), g.ints(*b, n2, d)
        return _ops().KernelLinearOperator(x1, x2, covar_func=_TaskKernel(_sym(g.ints(p, p))), num_outputs_per_input=(p, p))
    return f


def base_catalogue():
    """(name, builder, meta) — meta: dict(square=bool, tags=...)."""
    D3, D2, D4 = b_dense(3), b_dense(2), b_dense(4)
    cat = [
        ("Dense", b_dense(3, 4), {}),
        ("Diag", b_diag(4), {}),
        ("ConstantDiag", b_constdiag(3), {}),
        ("Identity", b_identity(4), {}),
        ("Zero", b_zero(3, 4), {}),
        ("Toeplitz", b_toeplitz(4), {}),
        ("Triangular(lower)", b_tri(3, False), {}),
        ("Triangular(upper)", b_tri(3, True), {}),
        ("Chol(lower)", b_chol(3), {}),
        ("Root", b_root(4, 2), {}),
        ("LowRankRoot", b_lowrankroot(4, 2), {}),
        ("Kron(Dense2,Dense3)", b_kron(D2, D3), {"kron": (2, 3)}),
        ("Kron(Dense2x3,Dense2x2)", b_kron(b_dense(2, 3), D2), {}),
        ("Kron(Dense2,Dense2,Dense2)", b_kron(D2, D2, D2), {}),
        ("Kron(Dense2,Dense2x3)", b_kron(D2, b_dense(2, 3)), {}),
        ("Kron(Dense3x2,Dense2x3,Dense2)", b_kron(b_dense(3, 2), b_dense(2, 3), D2), {}),
        ("KronTriangular(lower)", b_krontri(False), {}),
        ("KronDiag(Diag2,Diag3)", b_kron(b_diag(2), b_diag(3), cls="KroneckerProductDiagLinearOperator"), {}),
        ("AddedDiag(Dense)", b_addeddiag(D3, 3), {}),
        ("KronAddedDiag(Diag)", b_kronaddeddiag(False), {}),
        ("KronAddedDiag(ConstantDiag)", b_kronaddeddiag(True), {}),
        ("SumKron", b_sumkron(), {}),
        ("LowRankRootAddedDiag", b_addeddiag(b_lowrankroot(4, 2), 4, cls="LowRankRootAddedDiagLinearOperator"), {}),
        ("Sum(Dense,Diag)", b_sum(D3, b_diag(3)), {}),
        ("PsdSum(Root,Root)", b_sum(b_root(3, 2), b_root(3, 1), cls="PsdSumLinearOperator"), {}),
        ("Matmul(Dense3x2,Dense2x4)", b_matmul(b_dense(3, 2), b_dense(2, 4)), {}),
        ("Mul(Root,Root)", b_mul(b_root(3, 2), b_root(3, 2)), {}),
        ("ConstantMul(Dense)", b_constmul(b_dense(3, 4)), {}),
        ("BlockDiag(Dense)", b_block(D3, 2), {"block": ("diag", 2, 3)}),
        ("BlockDiag(Dense)[k=3,n=2]", b_block(D2, 3), {"block": ("diag", 3, 2)}),
        ("BlockInterleaved(Dense)", b_block(D3, 2, cls="BlockInterleavedLinearOperator"), {"block": ("inter", 2, 3)}),
        ("SumBatch(Dense)", b_sumbatch(b_dense(3, 4), 2), {}),
        ("BatchRepeat(Dense)[all]", b_batchrepeat(b_dense(3, 4), rep_split_a), {}),
        ("BatchRepeat(Dense)[tail]", b_batchrepeat(b_dense(3, 4), rep_split_b), {}),
        ("BatchRepeat(Dense)[mixed]", b_batchrepeat(b_dense(3, 4), rep_split_c), {}),
        ("Cat(Dense,Dense;rows)", b_cat([b_dense(2, 3), b_dense(3, 3)], -2), {"cat": (-2, (2, 3))}),
        ("Cat(Dense,Dense,Dense;cols)", b_cat([b_dense(3, 2), b_dense(3, 1), b_dense(3, 2)], -1), {"cat": (-1, (2, 1, 2))}),
        ("Cat(Dense,Dense;batch-1)", b_cat([b_dense(3, 4), b_dense(3, 4)], "b-1"), {"catbatch": "b-1", "needbatch": True}),
        ("Cat(Dense,Dense;batch0)", b_cat([b_dense(3, 4), b_dense(3, 4)], "b0"), {"catbatch": "b0", "needbatch": True}),
        ("Interpolated(Dense)", b_interp(D3, 3, 4, 5), {}),
        ("Interpolated(Dense)[default]", b_interp_default(b_dense(3, 4)), {}),
        ("Masked(Dense)", b_masked(b_dense(4, 5), [True, False, True, True], [True, True, False, True, False]), {}),
        ("Masked(Dense)[eq]", b_masked(D4, [True, False, True, True], [True, False, True, True]), {}),
        ("Permutation", b_perm(4), {}),
        ("TransposePermutation", b_transperm(2), {"nobatch": True}),
        ("Kernel(lin)", b_kernel("lin"), {}),
        ("Kernel(linop)", b_kernel("linop"), {}),
        ("Kernel(scaled)", b_kernel("scaled"), {}),
        ("Kernel(multitask2x2)", b_kernel_mt(2, 3, 2, 2, 2), {"kernel_mt": (2, 2)}),
    ]
    return cat


def nested_catalogue():
    D3, D2 = b_dense(3), b_dense(2)
    T3 = b_toeplitz(3)
    return [
        # --- every branch of every `_diagonal` override must be reached by a SQUARE entry
        ("Dense[sq]", b_dense(4), {}),
        ("Zero[sq]", b_zero(3, 3), {}),
        ("Chol(upper)", b_chol_upper(3), {}),
        ("ConstantMul(Dense)[sq]", b_constmul(b_dense(3)), {}),
        ("SumBatch(Dense)[sq]", b_sumbatch(b_dense(3), 2), {}),
        ("BatchRepeat(Dense)[sq,mixed]", b_batchrepeat(b_dense(3), rep_split_c), {}),
        ("Matmul(Dense3x2,Dense2x3)", b_matmul(b_dense(3, 2), b_dense(2, 3)), {}),
        ("Matmul(Toeplitz,Dense)", b_matmul(T3, D3), {}),
        ("Matmul(Dense,Diag)", b_matmul(D3, b_diag(3)), {}),
        ("Cat(Dense2x5,Dense3x5;rows)[sq]", b_cat([b_dense(2, 5), b_dense(3, 5)], -2), {"cat": (-2, (2, 3))}),
        ("Cat(Dense5x2,Dense5x3;cols)[sq]", b_cat([b_dense(5, 2), b_dense(5, 3)], -1), {"cat": (-1, (2, 3))}),
        ("Cat(Dense,Dense;batch-1)[sq]", b_cat([D3, D3], "b-1"), {"catbatch": "b-1", "needbatch": True}),
        ("Cat(Dense,Dense;batch0)[sq]", b_cat([D3, D3], "b0"), {"catbatch": "b0", "needbatch": True}),
        ("Kernel(lin)[sq]", b_kernel("lin", 4, 4), {}),
        ("Kernel(scaled)[sq]", b_kernel("scaled", 3, 3), {}),
        ("Kernel(multitask2x2)[sq]", b_kernel_mt(3, 3, 2, 2, 2), {"kernel_mt": (2, 2)}),
        ("Interpolated(Root(dense))[asym]", b_interp_asym(b_root(4, 2), 4, 6), {}),
        ("Interpolated(Root(dense))[sym]", b_interp_sym(b_root(4, 2), 4, 7), {}),
        ("Interpolated(LowRankRoot)[asym]", b_interp_asym(b_lowrankroot(4, 2), 4, 5), {}),
        ("Interpolated(LowRankRoot)[sym]", b_interp_sym(b_lowrankroot(4, 2), 4, 6), {}),
        ("Interpolated(Chol(lower))[asym]", b_interp_asym(b_chol(3), 3, 5), {}),
        ("Interpolated(Chol(upper))[asym]", b_interp_asym(b_chol_upper(3), 3, 5), {}),
        ("Interpolated(Root(Kron))[asym]", b_interp_asym(b_root(inner=b_kron(D2, D2)), 4, 5), {}),
        ("Interpolated(Dense)[asym,sq]", b_interp_asym(b_dense(4), 4, 5), {}),
        ("Root(dense)[sq-root]", b_root(3, 3), {}),
        ("Masked(Root(dense))[eq]", b_masked(b_root(4, 2), [True, False, True, True], [True, False, True, True]), {}),
        ("Sum(Interpolated(Root(dense))[asym],Diag)", b_sum(b_interp_asym(b_root(4, 2), 4, 5), b_diag(5)), {}),
        ("ConstantMul(Interpolated(Root(dense))[asym])", b_constmul(b_interp_asym(b_root(4, 2), 4, 5)), {}),
        ("Sum(Kron(Dense2,Dense2),Dense4)", b_sum(b_kron(D2, D2), b_dense(4)), {}),
        ("Sum(Toeplitz,Diag,Dense)", b_sum(T3, b_diag(3), D3), {}),
        ("BlockDiag(Toeplitz)", b_block(T3, 2), {"block": ("diag", 2, 3)}),
        ("BlockInterleaved(Toeplitz)", b_block(T3, 2, cls="BlockInterleavedLinearOperator"), {"block": ("inter", 2, 3)}),
        ("BlockDiag(Kron(Dense2,Dense2))", b_block(b_kron(D2, D2), 2), {"block": ("diag", 2, 4)}),
        ("ConstantMul(Cat(rows))", b_constmul(b_cat([b_dense(2, 3), b_dense(2, 3)], -2)), {"cat": (-2, (2, 2))}),
        ("Kron(Diag2,Dense3)", b_kron(b_diag(2), D3), {}),
        ("Kron(Toeplitz3,Dense2)", b_kron(T3, D2), {}),
        ("Kron(Dense2,Kron(Dense2,Dense2))", b_kron(D2, b_kron(D2, D2)), {}),
        ("Kron(Triangular,Identity)", b_kron(b_tri(2), b_identity(3)), {}),
        ("Matmul(Diag,Toeplitz)", b_matmul(b_diag(3), T3), {}),
        ("Matmul(Kron(Dense2,Dense2),Dense4x3)", b_matmul(b_kron(D2, D2), b_dense(4, 3)), {}),
        ("Mul(Root(Toeplitz),Root)", b_mul(b_root(inner=T3), b_root(3, 2)), {}),
        ("Root(Kron(Dense2,Dense2))", b_root(inner=b_kron(D2, D2)), {}),
        ("ConstantMul(Toeplitz)", b_constmul(T3), {}),
        ("ConstantMul(Kron(Dense2,Dense3))[scalar]", b_constmul(b_kron(D2, D3), scalar_const=True), {}),
        ("SumBatch(Toeplitz)", b_sumbatch(T3, 3), {}),
        ("SumBatch(Kron(Dense2,Dense2))", b_sumbatch(b_kron(D2, D2), 2), {}),
        ("BatchRepeat(Toeplitz)[mixed]", b_batchrepeat(b_toeplitz(4), rep_split_c), {}),
        ("BatchRepeat(Kron(Dense2,Dense2))[tail]", b_batchrepeat(b_kron(D2, D2), rep_split_b), {}),
        ("BatchRepeat(BlockDiag(Dense))[all]", b_batchrepeat(b_block(D2, 2), rep_split_a), {}),
        ("CatND(Toeplitz,Diag;rows)", b_cat([T3, b_diag(3)], -2), {"cat": (-2, (3, 3))}),
        ("CatND(Kron(Dense2,Dense2),Dense4x2;cols)", b_cat([b_kron(D2, D2), b_dense(4, 2)], -1), {"cat": (-1, (4, 2))}),
        ("CatND(Cat(rows),Dense;rows)", b_cat([b_cat([b_dense(1, 3), b_dense(2, 3)], -2), b_dense(2, 3)], -2), {"cat": (-2, (3, 2))}),
        ("Interpolated(Toeplitz)", b_interp(b_toeplitz(4), 4, 3, 3), {}),
        ("Interpolated(Kron(Dense2,Dense2))", b_interp(b_kron(D2, D2), 4, 3, 5), {}),
        ("Masked(Toeplitz)", b_masked(b_toeplitz(4), [True, True, False, True], [False, True, True, True]), {}),
        ("Masked(Kron(Dense2,Dense2))", b_masked(b_kron(D2, D2), [True, False, True, True], [True, True, True, False]), {}),
        ("Triangular(BlockDiag?)", None, {}),
        ("AddedDiag(Toeplitz)", b_addeddiag(T3, 3), {}),
        ("AddedDiag(Root)", b_addeddiag(b_root(3, 2), 3), {}),
        ("Sum(BlockDiag(Dense),Dense)", b_sum(b_block(D2, 2), b_dense(4)), {}),
        ("Sum(Cat(rows),Dense)", b_sum(b_cat([b_dense(2, 3), b_dense(1, 3)], -2), D3), {"cat": (-2, (2, 1))}),
        ("BlockDiag(Diag)", b_block(b_diag(3), 2), {"block": ("diag", 2, 3)}),
        ("BlockDiag(Dense)[block_dim=0]", b_block(D3, 2, block_dim=0), {"block": ("diag", 2, 3), "needbatch": True}),
        ("Matmul(Masked(Dense),Dense)", b_matmul(b_masked(b_dense(4, 5), [True, False, True, True], [True, True, False, True, False]), b_dense(3, 2)), {}),
        ("Sum(Identity,Zero4x4)", b_sum(b_identity(4), b_zero(4, 4)), {}),
        ("Triangular(Kron?)", None, {}),
        # triangular factors of opposite orientation (e.g. the lazily built L @ L.mT): full index sweep + diagonal
        ("Matmul(TriL,TriU)", b_matmul(b_tri(3, False), b_tri(3, True)), {}),
        ("Matmul(TriU,TriL)", b_matmul(b_tri(3, True), b_tri(3, False)), {}),
    ]


def catalogue(nested=True):
    res = list(base_catalogue())
    if nested:
        res += [c for c in nested_catalogue() if c[1] is not None]
    return res


# --------------------------------------------------------------------------------------------------
# index language

BASIC = ["int", "negint", "full", "slice", "sliceneg", "step2", "step3", "over", "stopsize"]
TENSOR1 = ["t0", "t0neg", "t1", "t1neg", "list", "listneg"]
KINDS = BASIC + TENSOR1 + ["t2"]


def gen_slice(rng, kind, n):
    """A python slice of the given kind selecting >= 1 element of a dim of size n (n >= 2), or None."""
    if kind == "full":
        return slice(None, None, None)
    if kind == "slice":  # explicit non-negative bounds, stop < n  (or one bound None)
        form = rng.randrange(3)
        if form == 0:
            a = rng.randrange(0, n - 1)
            b = rng.randrange(a + 1, n)
            return slice(a, b, None)
        if form == 1:
            return slice(None, rng.randrange(1, n), None)
        return slice(rng.randrange(1, n), None, None)
    if kind == "sliceneg":
        form = rng.randrange(3)
        if form == 0:
            return slice(-rng.randrange(1, n), None, None)
        if form == 1:
            return slice(None, -rng.randrange(1, n), None)
        a = rng.randrange(2, n + 1)
        b = rng.randrange(1, a)
        return slice(-a, -b, None)
    if kind in ("step2", "step3"):
        st = 2 if kind == "step2" else 3
        form = rng.randrange(3)
        if form == 0:
            return slice(None, None, st)
        if form == 1:
            return slice(rng.randrange(0, n), None, st)
        a = rng.randrange(0, n - 1)
        return slice(a, rng.randrange(a + 1, n + 1), st)
    if kind == "over":
        form = rng.randrange(3)
        if form == 0:
            return slice(rng.randrange(0, n), n + rng.randrange(1, 5), None)
        if form == 1:
            return slice(-n - rng.randrange(1, 5), rng.randrange(1, n + 1), None)
        return slice(-n - rng.randrange(1, 5), n + rng.randrange(1, 5), None)
    if kind == "stopsize":
        return slice(rng.choice([None, 0] + list(range(1, n))), n, None)
    raise ValueError(kind)


def gen_item(rng, kind, n, L, t2shape=None):
    """concrete index item of `kind` for a dim of size n; L = common length of 1-d tensor indices."""
    if kind == "int":
        return rng.randrange(n)
    if kind == "negint":
        return -rng.randrange(1, n + 1)
    if kind == "ell":
        return Ellipsis
    if kind == "t0":
        return torch.tensor(rng.randrange(n))
    if kind == "t0neg":
        return torch.tensor(-rng.randrange(1, n + 1))
    if kind in ("t1", "list"):
        ln = L if rng.random() < 0.8 else 1
        v = [rng.randrange(n) for _ in range(ln)]
        return torch.tensor(v) if kind == "t1" else v
    if kind in ("t1neg", "listneg"):
        ln = L if rng.random() < 0.8 else 1
        v = [rng.randrange(-n, n) for _ in range(ln)]
        v[rng.randrange(ln)] = -rng.randrange(1, n + 1)
        return torch.tensor(v) if kind == "t1neg" else v
    if kind == "t2":
        sh = t2shape
        cnt = sh[0] * sh[1]
        return torch.tensor([rng.randrange(n) for _ in range(cnt)]).reshape(sh)
    return gen_slice(rng, kind, n)


def item_kind_norm(kind):
    """kind as seen after __getitem__ normalisation (for the cell id)"""
    return kind


def describe_item(it):
    if it is Ellipsis:
        return "..."
    if isinstance(it, slice):
        f = lambda v: "" if v is None else str(v)
        return f"{f(it.start)}:{f(it.stop)}" + ("" if it.step is None else f":{it.step}")
    if torch.is_tensor(it):
        return "T" + str(it.tolist()).replace(" ", "")
    if isinstance(it, list):
        return "L" + str(it).replace(" ", "")
    return str(it)


def describe_index(idx):
    return "(" + ", ".join(describe_item(i) for i in idx) + ")"


def parse_item(s):
    """inverse of describe_item (for replay)"""
    import ast
    if s == "...":
        return Ellipsis
    if s.startswith("T"):
        return torch.tensor(ast.literal_eval(s[1:]), dtype=torch.long)
    if s.startswith("L"):
        return ast.literal_eval(s[1:])
    if ":" in s:
        parts = s.split(":")
        vals = [None if p == "" else int(p) for p in parts]
        while len(vals) < 3:
            vals.append(None)
        return slice(*vals)
    return int(s)
