"""C16 — psd_safe_cholesky perturbs minimally, per batch member, or fails loudly.

impl  : linear_operator.utils.cholesky.psd_safe_cholesky / op.cholesky() of dense-backed operators, in-process,
        with torch.linalg.cholesky_ex wrapped (arguments and info codes of every call are recorded).
model : LinOp.C16.Driver (Lean model of the function, exact-rational LDL^T stand-in for cholesky_ex).
spec  : oracle computed here from the construction of the inputs (independent of library and model):
        per member the least exponent e with A_b + jitter*10^e*I positive definite, decided exactly with Fractions.

Inputs are exact by construction: every member is P * blockdiag(B, p_1[, p_2]) * P^T with B = L0 L0^T for a small integer
lower-triangular L0 and decoupled "probe" coordinates p_k that decide definiteness:
    pd    p in {1, 1/4, 4}                      never fails
    psd0  p = 0                                  exact zero pivot, needs exponent 0
    ind0  p = -m*jitter/10                       needs exponent 0
    ind<i> p = -m*jitter*10^(i-1), m in {2,3,5}  needs exactly exponent i (margins of factor >= 2 on both sides)
    neg   p <= -4 (and beyond the last try)      never succeeds
    psdc  B itself singular (zero last pivot, coupled), only with jitter >> eps*|B|
    two   two probes (0 and ind<i>)
    nan   NaN at a symmetric position
"""
import json
import math
import warnings
from fractions import Fraction

import torch

from ..common import fmt_rat
from ..extract import c16_cholesky

SPEC_BASE = 10
SPEC_JITTER = {"f32": Fraction(1, 10**6), "f64": Fraction(1, 10**8)}   # documented defaults
SPEC_MAX_TRIES = 3
DT = {"f32": torch.float32, "f64": torch.float64}
OTHER = {"f32": "f64", "f64": "f32"}


# --------------------------------------------------------------------------------------------- construction
def _frac(x):
    return Fraction(float(x))


def need_exp(probes, J, limit=40):
    """least e >= 0 with J*10^e + p > 0 for all probes p (Fractions); None if all p > 0 (never fails)."""
    if all(p > 0 for p in probes):
        return None
    e = 0
    while e < limit and not all(J * SPEC_BASE**e + p > 0 for p in probes):
        e += 1
    return e


def ldl_pivots(A):
    """exact LDL^T pivots (Fractions) up to and including the first non-positive one; reads the lower triangle"""
    n = len(A)
    L = [[Fraction(0)] * n for _ in range(n)]
    d = []
    for i in range(n):
        for j in range(i + 1):
            s = A[i][j] - sum(L[i][k] * L[j][k] * d[k] for k in range(j))
            if j < i:
                L[i][j] = s / d[j]
            else:
                d.append(s)
                if s <= 0:
                    return d
    return d


def exact_need(Afrac, J, limit=14):
    """least e with A + J*10^e*I positive definite (exact); None if A itself is; `limit` if none below it"""
    n = len(Afrac)
    if all(x > 0 for x in ldl_pivots(Afrac)):
        return None
    for e in range(limit):
        t = J * SPEC_BASE**e
        if all(x > 0 for x in ldl_pivots([[Afrac[i][j] + (t if i == j else 0) for j in range(n)] for i in range(n)])):
            return e
    return limit


def build_coupled(rng, n, J, T, dtype):
    """indefinite member without decoupled coordinates: A = L D L^T, L unit lower triangular with entries in {-1,0,1},
    one negative pivot.  Accepted only if every pivot that decides an info code of any try is far from 0 in the dtype."""
    tdt = DT[dtype]
    eps = 1.2e-7 if dtype == "f32" else 2.3e-16
    for _ in range(40):
        L = [[Fraction(1 if i == j else (rng.choice([-1, 0, 1]) if j < i else 0)) for j in range(n)] for i in range(n)]
        k = rng.randrange(n)
        c = Fraction(rng.choice([2, 3, 5])) * J * Fraction(10) ** rng.choice([-1, 0, 1, 2])
        D = [Fraction(rng.choice([1, 2, 3])) for _ in range(n)]
        D[k] = -c
        A = [[sum(L[i][m] * D[m] * L[j][m] for m in range(n)) for j in range(n)] for i in range(n)]
        Af = [[torch.tensor(float(x), dtype=tdt).item() for x in r] for r in A]
        Afr = [[Fraction(x) for x in r] for r in Af]
        need = exact_need(Afr, J)
        if need is None:
            continue
        amax = max(abs(x) for r in Af for x in r)
        guard = 2000 * eps * amax
        ok = True
        last = min(need, max(T, 1) - 1) if need is not None else 0
        for e in [None] + list(range(0, min(last, 13) + 1)):
            t = Fraction(0) if e is None else J * SPEC_BASE**e
            piv = ldl_pivots([[Afr[i][j] + (t if i == j else 0) for j in range(n)] for i in range(n)])
            if any(abs(float(x)) < guard for x in piv):
                ok = False
        # the jitter must be measurable on the diagonal of the dtype
        if float(J) < 50 * eps * amax:
            ok = False
        if ok:
            return Af
    return None


def build_member(rng, kind, n, J, T, dtype):
    """-> (matrix as list of lists of python floats (exactly representable in dtype), probe indices, probe values)"""
    tdt = DT[dtype]
    if kind == "cpl":
        Af = build_coupled(rng, n, J, T, dtype)
        if Af is not None:
            return Af, [], []
        kind = "ind1"   # fall back to a decoupled member (the spec works from the matrix, not from the kind)
    nprobe = 2 if kind == "two" else 1
    nb = n - nprobe
    # integer Cholesky factor of the coupled block
    L0 = [[0] * nb for _ in range(nb)]
    for i in range(nb):
        for j in range(i):
            L0[i][j] = rng.choice([-2, -1, 0, 1, 1, 2])
        L0[i][i] = rng.choice([1, 1, 2, 3])
    if kind == "psdc":
        L0[nb - 1][nb - 1] = 0
        if nb >= 2 and all(v == 0 for v in L0[nb - 1][:nb - 1]):
            L0[nb - 1][0] = 1
    B = [[sum(L0[i][k] * L0[j][k] for k in range(nb)) for j in range(nb)] for i in range(nb)]
    Jf = float(J)
    m = rng.choice([2, 3, 5])
    if kind in ("pd", "psdc", "nan"):
        probes = [rng.choice([1.0, 0.25, 4.0])]
    elif kind == "psd0":
        probes = [0.0]
    elif kind == "ind0":
        probes = [-m * Jf / 10]
    elif kind.startswith("ind"):
        i = int(kind[3:])
        probes = [-m * Jf * 10 ** (i - 1)]
    elif kind == "neg":
        probes = [-(4.0 + rng.choice([0, 1, 4]) + 4 * Jf * 10 ** max(T, 1))]
    elif kind == "two":
        i = rng.choice([1, 2])
        probes = [0.0, -m * Jf * 10 ** (i - 1)]
        rng.shuffle(probes)
    else:
        raise ValueError(kind)
    probes = [torch.tensor(p, dtype=tdt).item() for p in probes]   # round to the dtype
    pos = sorted(rng.sample(range(n), nprobe))
    rest = [i for i in range(n) if i not in pos]
    A = [[0.0] * n for _ in range(n)]
    for a, i in enumerate(rest):
        for b, j in enumerate(rest):
            A[i][j] = float(B[a][b])
    for k, i in enumerate(pos):
        A[i][i] = probes[k]
    if kind == "nan":
        if rng.random() < 0.5 or n < 2:
            i = rng.randrange(n)
            A[i][i] = float("nan")
        else:
            i, j = rng.sample(range(n), 2)
            A[i][j] = A[j][i] = float("nan")
    return A, pos, probes


MIXES = {
    "allpd": ["pd", "pd", "pd"],
    "pd+psd0": ["pd", "psd0"],
    "pd+ind1+psd0": ["pd", "ind1", "psd0"],
    "ind1+ind2+pd": ["ind1", "ind2", "pd"],
    "ind0+ind2": ["ind0", "ind2"],
    "psd0+neg+pd": ["psd0", "neg", "pd"],
    "pd+nan": ["pd", "nan"],
    "ind2+nan+psd0": ["ind2", "nan", "psd0"],
    "allpsd0": ["psd0", "psd0"],
    "last+pd": ["indLAST", "pd"],          # needs exactly the last allowed try
    "over+psd0": ["indOVER", "psd0", "pd"],  # needs one try more than allowed
    "psdc+pd": ["psdc", "pd"],
    "two+ind0": ["two", "ind0", "pd"],
    "neg": ["neg"],
    "cpl+pd": ["cpl", "pd", "cpl"],       # coupled indefinite members (no decoupled coordinate)
}


def resolve_kind(kind, T):
    if kind == "indLAST":
        return "psd0" if T <= 1 else f"ind{T - 1}"
    if kind == "indOVER":
        return "neg" if T <= 0 else f"ind{T}"
    return kind


def make_case(rng, mix, dtype, batch, cfg):
    """cfg: dict(jit_mode, jit, tries_mode, tries, upper, out, layout, via, trace).  Returns the case dict."""
    Jeff = Fraction(cfg["jit"]) if cfg["jit_mode"] != "default" else SPEC_JITTER[dtype]
    Teff = cfg["tries"] if cfg["tries_mode"] != "default" else SPEC_MAX_TRIES
    nmem = 1
    for b in batch:
        nmem *= b
    kinds = [resolve_kind(k, Teff) for k in MIXES[mix]]
    if cfg["layout"] == "expanded":
        order = [kinds[0] if nmem == 1 else next((k for k in kinds if k != "pd"), kinds[0])] * nmem
    elif nmem == 1:
        order = [next((k for k in kinds if k != "pd"), kinds[0])]
    else:
        order = [kinds[i % len(kinds)] for i in range(nmem)]
        if nmem >= len(kinds):
            rng.shuffle(order)
    n = rng.choice(cfg.get("sizes", [2, 3, 4]))
    if any(k == "two" for k in order):
        n = max(n, 3)
    if any(k == "psdc" for k in order):
        n = max(n, 3)
    mats, poss, probes = [], [], []
    first = None
    for k in order:
        if cfg["layout"] == "expanded" and first is not None:
            A, pos, pr = first
        else:
            A, pos, pr = build_member(rng, k, n, Jeff, Teff, dtype)
            first = (A, pos, pr)
        mats.append(A)
        poss.append(pos)
        probes.append(pr)
    case = dict(cfg)
    case.update(mix=mix, dtype=dtype, batch=list(batch), n=n, kinds=order, mats=[[[x.hex() for x in r] for r in A] for A in mats],
                pos=poss, probes=[[p.hex() for p in pr] for pr in probes])
    return case


def cell_of(c):
    b = "x".join(map(str, c["batch"])) or "scalar"
    return (f"C16/{c['via']}/{c['dtype']}/b={b}/mix={c['mix']}/jit={c['jit_mode']}/tries={c['tries_mode']}:{c['tries']}"
            f"/upper={int(c['upper'])}/out={int(c['out'])}/layout={c['layout']}/trace={int(c.get('trace', False))}"
            f"/n={c['n'] if c['n'] <= 2 else '3+'}" + ("/jitter=0d-tensor" if c.get("jit_tensor") else ""))


def case_tensors(c):
    tdt = DT[c["dtype"]]
    mats = [[[float.fromhex(x) for x in r] for r in A] for A in c["mats"]]
    A = torch.tensor(mats, dtype=tdt).reshape(*c["batch"], c["n"], c["n"])
    return mats, A


def apply_layout(A, layout, batch):
    """returns (tensor handed to the library, enclosing storage tensor to watch for stray writes)"""
    if layout == "contig" or (layout == "expanded" and not batch):
        return A.clone(), None
    if layout == "expanded":
        one = A.reshape(-1, A.shape[-2], A.shape[-1])[0].clone()
        return one.expand(*batch, *one.shape), one
    if layout == "mT":
        base = A.mT.contiguous()
        return base.mT, base
    if layout == "slice":
        n = A.shape[-1]
        big = torch.zeros(*A.shape[:-2], n + 1, n + 2, dtype=A.dtype)
        big[..., 1:, 1:n + 1] = A
        return big[..., 1:, 1:n + 1], big
    raise ValueError(layout)


# --------------------------------------------------------------------------------------------- spec oracle
def spec_of(c):
    dtype = c["dtype"]
    J = Fraction(c["jit"]) if c["jit_mode"] != "default" else SPEC_JITTER[dtype]
    T = c["tries"] if c["tries_mode"] != "default" else SPEC_MAX_TRIES
    needs, has_nan = [], False
    for kind, pr in zip(c["kinds"], c["probes"]):
        if kind == "nan":
            has_nan = True
            needs.append("nan")
            continue
        ps = [Fraction(float.fromhex(p)) for p in pr]
        if not ps:
            Afr = [[Fraction(float.fromhex(x)) for x in r] for r in c["mats"][len(needs)]]
            e = exact_need(Afr, J)
        else:
            e = need_exp(ps, J)
        if kind == "psdc":
            e = 0   # singular PSD block: any positive jitter makes it PD
        needs.append(e)
    if c.get("trace"):
        return dict(err="trace", J=J, T=T, needs=needs)
    if c["via"] != "func" and c["n"] == 1:
        # LinearOperator._cholesky: legitimate 1x1 shortcut clamp_min(0).sqrt(); psd_safe_cholesky is not involved
        return dict(err="opshortcut", J=J, T=T, needs=needs)
    failing = [e for e in needs if e is not None]
    if not failing:
        return dict(err="ok", tries=0, added=[Fraction(0)] * len(needs), J=J, T=T, needs=needs)
    if has_nan:
        return dict(err="nan", tries=0, J=J, T=T, needs=needs)
    E = max(failing)
    if E >= T:
        return dict(err="notpsd", tries=max(T, 0), J=J, T=T, needs=needs)
    return dict(err="ok", tries=E + 1, added=[Fraction(0) if e is None else J * SPEC_BASE**e for e in needs], J=J, T=T, needs=needs)


# --------------------------------------------------------------------------------------------- implementation
def run_impl(c):
    import linear_operator
    from linear_operator import settings
    from linear_operator.utils.cholesky import psd_safe_cholesky
    from linear_operator.operators import DenseLinearOperator, BlockDiagLinearOperator
    dtype = c["dtype"]
    tdt = DT[dtype]
    mats, A0 = case_tensors(c)
    A, enclosing = apply_layout(A0, c["layout"], c["batch"])
    enc0 = None if enclosing is None else enclosing.clone()
    Asaved = A.clone()
    ver0 = A._version
    records = []
    orig = torch.linalg.cholesky_ex

    def wrapped(X, *a, **k):
        r = orig(X, *a, **k)
        info = r[1] if isinstance(r, tuple) else r.info
        records.append((X.detach().clone(), info.detach().clone()))
        return r

    ctxs = []
    if c["jit_mode"] in ("settings", "explicit+settings"):
        v = c["jit"] if c["jit_mode"] == "settings" else c["jit_decoy"]
        kw = {"float_value" if dtype == "f32" else "double_value": v,
              "double_value" if dtype == "f32" else "float_value": c["jit_other"]}
        ctxs.append(settings.cholesky_jitter(**kw))
    if c["tries_mode"] in ("settings", "explicit+settings"):
        ctxs.append(settings.cholesky_max_tries(c["tries"] if c["tries_mode"] == "settings" else c["tries_decoy"]))
    if c.get("trace"):
        ctxs.append(settings.trace_mode(True))
    kwargs = {}
    if c["jit_mode"] in ("explicit", "explicit+settings"):
        # extension session 5: `jitter` given as a 0-d float64 tensor holding the same value (schedule, mask product, in-place add and
        # the `:.1e` formatting of the warning / error text must behave as with the Python float)
        kwargs["jitter"] = torch.tensor(c["jit"], dtype=torch.float64) if c.get("jit_tensor") else c["jit"]
    if c["tries_mode"] in ("explicit", "explicit+settings"):
        kwargs["max_tries"] = c["tries"]
    out_t = None
    if c["out"]:
        out_t = torch.full(A0.shape, 7.0, dtype=tdt)
        kwargs["out"] = out_t
    res, err, op, w = None, None, None, []
    # statement-level execution trace of `_psd_safe_cholesky` (line events of its frames), for the skeleton correspondence
    import sys
    from linear_operator.utils import cholesky as _cmod
    core_code = getattr(getattr(_cmod, "_psd_safe_cholesky", None), "__code__", None)
    exec_lines, core_frames = [], []

    def _local(frame, event, arg):
        if event == "line":
            exec_lines.append(frame.f_lineno)
        return _local

    def _tracer(frame, event, arg):
        if event == "call" and frame.f_code is core_code:
            core_frames.append(frame.f_code.co_firstlineno)
            return _local
        return None

    old_trace = sys.gettrace()
    torch.linalg.cholesky_ex = wrapped
    sys.settrace(_tracer)
    try:
        for cx in ctxs:
            cx.__enter__()
        try:
            with warnings.catch_warnings(record=True) as w:
                warnings.simplefilter("always")
                via = c["via"]
                if via == "func":
                    res = psd_safe_cholesky(A, upper=c["upper"], **kwargs)
                elif via == "dense_op":
                    op = DenseLinearOperator(A)
                    res = op.cholesky(upper=c["upper"])
                elif via == "to_linop":
                    op = linear_operator.to_linear_operator(A)
                    res = op.cholesky(upper=c["upper"])
                elif via == "sum_op":
                    # A = (A - S) + S with S an integer diagonal supported off the probe coordinates: the sum is exact
                    S = torch.zeros_like(A0)
                    flat = S.reshape(-1, c["n"], c["n"])
                    for b, pos in enumerate(c["pos"]):
                        for i in range(c["n"]):
                            if i not in pos:
                                flat[b, i, i] = 1.0
                    op = DenseLinearOperator(A - S) + DenseLinearOperator(S)
                    res = op.cholesky(upper=c["upper"])
                elif via == "blockdiag_op":
                    op = BlockDiagLinearOperator(DenseLinearOperator(A))
                    res = op.cholesky(upper=c["upper"])
                else:
                    raise ValueError(via)
        finally:
            for cx in reversed(ctxs):
                cx.__exit__(None, None, None)
    except Exception as e:  # noqa: BLE001 - the class is the observation
        err = e
    finally:
        sys.settrace(old_trace)
        torch.linalg.cholesky_ex = orig
    obs = dict(err=err, warns=list(w), records=records, raw=res, out_t=out_t,
               A=A, A0=A0, Asaved=Asaved, ver0=ver0, enclosing=enclosing, enc0=enc0, op=op,
               exec_lines=exec_lines, core_frames=core_frames)
    return obs


def same_bits(X, Y):
    if X.shape != Y.shape or X.dtype != Y.dtype:
        return False
    nx, ny = torch.isnan(X), torch.isnan(Y)
    return bool(torch.equal(nx, ny)) and bool(torch.equal(torch.nan_to_num(X, nan=0.0), torch.nan_to_num(Y, nan=0.0)))


def dense_result(c, obs):
    """The factor as a dense tensor of shape batch x n x n in *lower* orientation, plus the raw dense result."""
    r = obs["raw"]
    if r is None:
        return None, None
    if c["via"] == "func":
        d = r
    else:
        d = r.to_dense()
        if c["via"] == "blockdiag_op":
            n = c["n"]
            lead = c["batch"][:-1]
            nb = c["batch"][-1]
            blocks = [d[..., i * n:(i + 1) * n, i * n:(i + 1) * n] for i in range(nb)]
            offd = d.clone()
            for i in range(nb):
                offd[..., i * n:(i + 1) * n, i * n:(i + 1) * n] = 0
            if offd.abs().max().item() != 0:
                return None, d
            d = torch.stack(blocks, dim=len(lead))
    return (d.mT if c["upper"] else d), d


def err_name(e):
    from linear_operator.utils.errors import NanError, NotPSDError
    if e is None:
        return "ok"
    if type(e) is NanError:
        return "nan"
    if type(e) is NotPSDError:
        return "notpsd"
    if isinstance(e, UnboundLocalError):
        return "unbound"
    return "other:" + type(e).__name__


TOL_L = {"f32": 5e-4, "f64": 1e-6}   # f64: the jitter increment is rounded through float32 by the code (rel. 6e-8)
TOL_REC = {"f32": 2e-5, "f64": 1e-12}


def check_impl_vs_spec(c, obs, sp):
    """list of (what) strings where the implementation violates the property on this input."""
    from linear_operator.utils.warnings import NumericalWarning
    bad = []
    n, dtype = c["n"], c["dtype"]
    e = err_name(obs["err"])
    nw = [x for x in obs["warns"] if issubclass(x.category, NumericalWarning)]
    # input never modified
    if obs["A"]._version != obs["ver0"] or not same_bits(obs["A"], obs["Asaved"]):
        bad.append("input tensor modified")
    if obs["enclosing"] is not None and not same_bits(obs["enclosing"], obs["enc0"]):
        bad.append("storage around the input view modified")
    if sp["err"] == "trace":
        return bad
    if sp["err"] == "opshortcut":
        # outside the property (it is about psd_safe_cholesky); positive members must still get their exact factor
        if obs["err"] is None:
            Llow, raw = dense_result(c, obs)
            _, A0 = case_tensors(c)
            if Llow is not None and list(Llow.shape) == c["batch"] + [1, 1]:
                for b, e_ in enumerate(sp["needs"]):
                    if e_ is None and not torch.equal(Llow.reshape(-1)[b], A0.reshape(-1)[b].sqrt()):
                        bad.append(f"1x1 operator, member {b} positive: factor is not sqrt(a)")
        return bad
    want = sp["err"]
    if e != want:
        if want == "notpsd" and e == "unbound":
            bad.append("max_tries<=0: UnboundLocalError instead of NotPSDError")
        else:
            bad.append(f"outcome {e} (exception {obs['err']!r:.120}) but property demands {want}")
        return bad
    if want != "ok":
        if want == "nan" and nw:
            bad.append("NanError raised only after jitter warnings")
        if want == "nan" and len(obs["records"]) > 1:
            bad.append("NanError raised only after retrying")
        return bad
    Llow, raw = dense_result(c, obs)
    if Llow is None:
        bad.append("result not retrievable as per-member factors (off-block entries non-zero)")
        return bad
    if list(Llow.shape) != c["batch"] + [n, n] or Llow.dtype != DT[dtype]:
        bad.append(f"result shape/dtype {tuple(Llow.shape)} {Llow.dtype}")
        return bad
    if not torch.isfinite(raw).all():
        bad.append("factor contains NaN/Inf")
        return bad
    if c["via"] == "func":
        strict = torch.triu(Llow, 1)
        if strict.abs().max().item() != 0:
            bad.append("upper=%s: factor not triangular in the requested orientation" % c["upper"])
    else:
        from linear_operator.operators import TriangularLinearOperator
        tri = obs["raw"]
        if c["via"] != "blockdiag_op" and (not isinstance(tri, TriangularLinearOperator) or bool(tri.upper) != bool(c["upper"])):
            bad.append("op.cholesky(upper=%s) did not return a TriangularLinearOperator with that orientation" % c["upper"])
        if torch.triu(Llow, 1).abs().max().item() != 0:
            bad.append("op.cholesky(upper=%s): dense factor not triangular in the requested orientation" % c["upper"])
    if c["out"]:
        if obs["raw"] is not obs["out_t"]:
            bad.append("out= given but a different tensor returned")
        elif not same_bits(obs["out_t"], obs["raw"]):
            bad.append("out= buffer differs from result")
    # warnings iff jitter
    if sp["tries"] == 0 and nw:
        bad.append("NumericalWarning although the input is positive definite")
    if sp["tries"] > 0 and not nw:
        bad.append("jitter needed but no NumericalWarning")
    mats, A0 = case_tensors(c)
    Lf = Llow.reshape(-1, n, n).double()
    Af = A0.reshape(-1, n, n).double()
    for b in range(Lf.shape[0]):
        want_t = float(sp["added"][b])
        rec = Lf[b] @ Lf[b].mT - Af[b] - want_t * torch.eye(n, dtype=torch.float64)
        scale = max(1.0, Af[b].abs().max().item() + want_t)
        # (the increment passes through a float32 tensor `(info > 0) * python_float` even for float64 inputs: rel. 6e-8)
        if rec.abs().max().item() > TOL_REC[dtype] * scale * n + 5e-7 * want_t:
            bad.append(f"member {b} ({c['kinds'][b]}): L L^T - (A + {want_t:.3e} I) = {rec.abs().max().item():.3e}")
            continue
        # precise per-member jitter from the decoupled probe coordinates: L_kk^2 - p
        for k, i in enumerate(c["pos"][b]):
            p = float.fromhex(c["probes"][b][k])
            t = Lf[b, i, i].item() ** 2 - p
            ref = max(abs(p), want_t)
            if abs(t - want_t) > 2e-3 * max(want_t, 0.0) + 4e-7 * ref * (1 if dtype == "f32" else 1e-8):
                bad.append(f"member {b} ({c['kinds'][b]}): jitter on probe coordinate {i} is {t:.6e}, property demands {want_t:.6e}")
                break
        if sp["needs"][b] is None:
            ref = torch.linalg.cholesky(A0.reshape(-1, n, n)[b])
            if not torch.equal(ref, Llow.reshape(-1, n, n)[b]):
                bad.append(f"member {b} (positive definite): factor is not the Cholesky factor of A itself "
                           f"(max diff {(ref - Llow.reshape(-1, n, n)[b]).abs().max().item():.3e})")
    return bad


# --------------------------------------------------------------------------------------------- model line / comparison
def model_line(c):
    def xs(v):
        return "nan" if v != v else fmt_rat(Fraction(v))
    mats, _ = case_tensors(c)
    mem = "|".join(";".join(",".join(xs(x) for x in r) for r in A) for A in mats)
    j = fmt_rat(Fraction(c["jit"])) if c["jit_mode"] in ("explicit", "explicit+settings") else "n"
    mt = str(max(c["tries"], 0)) if c["tries_mode"] in ("explicit", "explicit+settings") else "n"
    if c["jit_mode"] == "settings":
        sj = fmt_rat(Fraction(c["jit"]))
    elif c["jit_mode"] == "explicit+settings":
        sj = fmt_rat(Fraction(c["jit_decoy"]))
    else:
        sj = "n"
    if c["tries_mode"] == "settings":
        sm = str(c["tries"])
    elif c["tries_mode"] == "explicit+settings":
        sm = str(c["tries_decoy"])
    else:
        sm = "n"
    pre = "" if c["via"] == "func" else "op "
    return f"{pre}{j} {mt} {c['dtype']} {sj} {sm} {int(bool(c.get('trace')))} {int(c['upper'])} {int(c['out'])} {mem}"


def parse_model(out):
    d = {}
    for tok in out.split(" "):
        k, _, v = tok.partition("=")
        d[k] = v
    return d


def fr(s):
    return Fraction(s)


def compare_model(c, obs, mo):
    """list of differences between the Lean model's prediction and what the implementation did (discrete, exact;
    jitter amounts and factors with tolerances far below the factor-10 gaps)."""
    from linear_operator.utils.warnings import NumericalWarning
    diffs = []
    n, dtype = c["n"], c["dtype"]
    if "err" not in mo:
        return [f"driver output unparsable: {mo}"]
    e = err_name(obs["err"])
    if e != mo["err"]:
        diffs.append(f"outcome impl={e} model={mo['err']}")
        return diffs
    ncalls = len(obs["records"])
    if ncalls != int(mo["calls"]):
        diffs.append(f"cholesky_ex calls impl={ncalls} model={mo['calls']}")
    mw = [] if mo["warns"] == "-" else [fr(x) for x in mo["warns"].split(",")]
    iw = [x for x in obs["warns"] if issubclass(x.category, NumericalWarning)]
    if len(iw) != len(mw):
        diffs.append(f"warnings impl={len(iw)} model={len(mw)}")
    else:
        for x, r in zip(iw, mw):
            txt = f"{float(r):.1e}"
            if txt not in str(x.message):
                diffs.append(f"warning text `{x.message}` does not report jitter {txt}")
                break
    # info history
    hist = [[int(v) for v in h.split(",")] for h in mo["hist"].split("/")] if mo["hist"] not in ("", "-") else []
    for k, (h, (_, info)) in enumerate(zip(hist, obs["records"])):
        ii = [int(v) for v in info.reshape(-1).tolist()]
        if len(ii) != len(h):
            diffs.append(f"call {k}: info has {len(ii)} members, model {len(h)}")
            break
        for b, (x, y) in enumerate(zip(ii, h)):
            if c["kinds"][b] == "nan":
                ok = (x > 0) == (y > 0)
            else:
                ok = x == y
            if not ok:
                diffs.append(f"call {k} member {b} ({c['kinds'][b]}): info impl={x} model={y}")
                break
        if diffs:
            break
    # per-member jitter on the matrix of the last call (exact observation of Aprime)
    madd = mo["added"].split(",")
    if obs["records"] and mo["err"] != "nan" and not c.get("trace"):
        last = obs["records"][-1][0].reshape(-1, n, n).double()
        A0 = obs["A0"].reshape(-1, n, n).double()
        for b in range(A0.shape[0]):
            if c["kinds"][b] == "nan" or madd[b] in ("?", "nan"):
                continue
            want = float(fr(madd[b]))
            d = (last[b] - A0[b])
            off = d - torch.diag(torch.diagonal(d))
            if off.abs().max().item() != 0:
                diffs.append(f"member {b}: off-diagonal entries changed")
                break
            # probe coordinates are the precise ones
            i = c["pos"][b][0] if c["pos"][b] else int(torch.diagonal(A0[b]).abs().argmin().item())
            got = d[i, i].item()
            if want == 0:
                ok = torch.diagonal(d).abs().max().item() == 0
            else:
                eps = 1.2e-7 if dtype == "f32" else 2.3e-16
                ok = abs(got - want) <= 1e-3 * want + 2 * eps * max(abs(A0[b, i, i].item()), abs(last[b, i, i].item()))
            if not ok:
                diffs.append(f"member {b} ({c['kinds'][b]}): jitter carried at the last call impl={got:.6e} model={want:.6e}")
                break
    changed = obs["A"]._version != obs["ver0"] or not same_bits(obs["A"], obs["Asaved"])
    if changed != (mo["changed"] == "1"):
        diffs.append(f"input modified impl={changed} model={mo['changed']}")
    if mo["err"] == "ok" and not c.get("trace"):
        Llow, raw = dense_result(c, obs)
        if Llow is not None and list(Llow.shape) == c["batch"] + [n, n]:
            if c["via"] == "func":
                isup = torch.tril(raw, -1).abs().max().item() == 0 and torch.triu(raw, 1).abs().max().item() != 0
                islow = torch.triu(raw, 1).abs().max().item() == 0 and torch.tril(raw, -1).abs().max().item() != 0
                mu = set(mo["upper"].split(","))
                if (isup and mu == {"0"}) or (islow and mu == {"1"}):
                    diffs.append(f"orientation impl={'upper' if isup else 'lower'} model upper flags={mo['upper']}")
            Lf = Llow.reshape(-1, n, n).double()
            for b, ms in enumerate(mo["ldl"].split("|")):
                rows = [[float("nan") if x == "nan" else Fraction(x) for x in r.split(",")] for r in ms.split(";")]
                D = [float(rows[i][i]) for i in range(n)]
                if any(x != x for x in D):
                    if not bool(torch.isnan(Lf[b]).any()):
                        diffs.append(f"member {b}: model factor is NaN, implementation's is not")
                        break
                    continue
                ref = torch.zeros(n, n, dtype=torch.float64)
                for i in range(n):
                    for j in range(i + 1):
                        ref[i, j] = (1.0 if i == j else float(rows[i][j])) * math.sqrt(D[j])
                if (ref - Lf[b]).abs().max().item() > TOL_L[dtype] * max(1.0, ref.abs().max().item()):
                    diffs.append(f"member {b}: factor differs from the model's L*sqrt(D) by {(ref - Lf[b]).abs().max().item():.3e}")
                    break
        if c["out"] and mo["out"] != "result":
            diffs.append("model: out buffer is not the result")
    return diffs


# --------------------------------------------------------------------------------------------- skeleton correspondence
SK_MAX = 12


def sk_lines():
    """driver lines asking for the role trace of every outcome kind / number of tries that can occur"""
    keys = [("first", 0), ("nan", 0)] + [(o, k) for o in ("ok", "fail") for k in range(SK_MAX + 1)]
    return keys, [f"sk {o} {k}" for o, k in keys]


def executed_roles(obs, skeleton):
    """roles of the skeleton statements the interpreter executed, in order (line events of the core's frame mapped through
    the statement line numbers of the AST skeleton; consecutive repeats of one statement - multi-line calls - collapsed)"""
    role_at = {ln: role for ln, _, role in skeleton}
    seq, last = [], None
    for ln in obs["exec_lines"]:
        if ln in role_at:
            if ln != last:
                seq.append(role_at[ln])
            last = ln
        # lines of nested statements (`return L`, continuation lines of a call) are not skeleton statements
    return seq


def compare_skeleton(c, obs, mo, sktr, skeleton):
    """executed statement order of the real function vs. the control flow of the Lean-pinned skeleton for the model's outcome"""
    if not obs["core_frames"]:
        # the function was not entered (1x1 operator shortcut): the model must not have called cholesky_ex either
        return [] if mo.get("calls") == "0" else ["_psd_safe_cholesky was not entered but the model makes cholesky_ex calls"]
    if len(obs["core_frames"]) != 1:
        return [f"_psd_safe_cholesky entered {len(obs['core_frames'])} times in one call"]
    calls = int(mo["calls"])
    if mo["err"] == "nan":
        key = ("nan", 0)
    elif mo["err"] == "ok":
        key = ("first", 0) if calls == 1 else ("ok", calls - 1)
    else:
        key = ("fail", calls - 1)
    want = sktr.get(key)
    if want is None:
        return [f"no skeleton trace for {key}"]
    got = executed_roles(obs, skeleton)
    if got != want:
        k = next((i for i, (x, y) in enumerate(zip(got, want)) if x != y), min(len(got), len(want)))
        return [f"executed statement order differs from the pinned skeleton at step {k}: executed "
                f"{got[k] if k < len(got) else '<end>'}, skeleton {want[k] if k < len(want) else '<end>'} (outcome {key})"]
    return []


def compare_sem(c, obs, mo):
    """state semantics of the EXTRACTED statement skeleton (Lean interpreter `runSkeleton`, LinOp/C16/SkSem.lean, run by the driver on
    `Generated.C16.coreSkeleton`) vs. (a) the model's core - equal by theorem `model_refines_translated_body` while the pinned
    skeleton obligation holds, reported per input when it does not - and (b) the implementation directly: outcome, number of
    cholesky_ex calls, number of NumericalWarnings, input modified, per-member jitter of the final work tensor (vs the model's)."""
    from linear_operator.utils.warnings import NumericalWarning
    sem = mo.get("sem")
    if sem is None:
        return ["driver printed no sem= field"]
    if sem == "na":
        return [] if not obs["core_frames"] else ["interpreter not applicable (1x1 operator shortcut) but _psd_safe_cholesky was entered"]
    if sem == "stuck":
        return ["state semantics of the extracted skeleton is stuck / falls off the end on this input (reads an unbound local, "
                "unsupported statement, or no return/raise reached)"]
    d = []
    if sem != "ok":
        d.append(f"interpreted extracted skeleton and model core disagree on this input (semobs {mo.get('semobs')} vs model "
                 f"err={mo['err']} calls={mo['calls']})")
    parts = mo.get("semobs", "-").split(":")
    if len(parts) != 5:
        return d + [f"semobs unparsable: {mo.get('semobs')}"]
    e, calls, nw, chg, added = parts
    if e != err_name(obs["err"]):
        d.append(f"outcome impl={err_name(obs['err'])} interpreted skeleton={e}")
        return d
    if int(calls) != len(obs["records"]):
        d.append(f"cholesky_ex calls impl={len(obs['records'])} interpreted skeleton={calls}")
    iw = [x for x in obs["warns"] if issubclass(x.category, NumericalWarning)]
    if int(nw) != len(iw):
        d.append(f"warnings impl={len(iw)} interpreted skeleton={nw}")
    changed = obs["A"]._version != obs["ver0"] or not same_bits(obs["A"], obs["Asaved"])
    if changed != (chg == "1"):
        d.append(f"input modified impl={changed} interpreted skeleton={chg}")
    if added != mo["added"]:
        d.append(f"per-member jitter of the work tensor: interpreted skeleton {added}, model {mo['added']}")
    return d


# --------------------------------------------------------------------------------------------- catalogue
JITS = {"f32": [1e-5, 1e-4, 1e-3, 1e-2], "f64": [1e-12, 1e-10, 1e-6, 1e-3]}
JITS_BIG = {"f32": [1e-3, 1e-2], "f64": [1e-10, 1e-6, 1e-3]}


def gen_cfg(rng, mix, dtype, batch, via, forced=None):
    forced = forced or {}
    func = via == "func"
    jit_mode = forced.get("jit_mode") or rng.choice(["default", "settings", "explicit", "explicit+settings"] if func else ["default", "settings"])
    tries_mode = forced.get("tries_mode") or rng.choice(["default", "settings", "explicit", "explicit+settings"] if func else ["default", "settings"])
    pool = JITS_BIG if mix in ("psdc+pd", "cpl+pd") else JITS
    if mix in ("psdc+pd", "cpl+pd") and dtype == "f32" and jit_mode == "default":
        jit_mode = "explicit" if func else "settings"
    jit = rng.choice(pool[dtype])
    tries = forced.get("tries", rng.choice([1, 2, 2, 3, 3, 4, 5]))
    if tries_mode == "default":
        tries = SPEC_MAX_TRIES
    if mix in ("ind1+ind2+pd", "ind2+nan+psd0", "ind0+ind2", "two+ind0", "cpl+pd") and tries_mode != "default" and "tries" not in forced:
        tries = max(tries, rng.choice([2, 3, 4]))   # both outcomes (enough / not enough tries) occur; id carries the number
    nb = 1
    for b in batch:
        nb *= b
    layouts = ["contig", "contig", "mT", "slice"] + (["expanded"] if nb > 1 else [])
    cfg = dict(jit_mode=jit_mode, jit=jit, jit_decoy=jit * 1000 if jit < 1e-4 else jit / 1000, jit_other=jit * 100,
               tries_mode=tries_mode, tries=tries, tries_decoy=tries + rng.choice([1, 2]) if rng.random() < 0.5 else max(tries - 1, 1) if tries > 1 else tries + 2,
               upper=forced.get("upper", rng.random() < 0.5), out=forced.get("out", func and rng.random() < 0.35),
               layout=forced.get("layout") or rng.choice(layouts), via=via, trace=forced.get("trace", False))
    if cfg["tries_decoy"] == cfg["tries"]:
        cfg["tries_decoy"] = cfg["tries"] + 1
    if not func:
        cfg["out"] = False
    if jit_mode == "default":
        cfg["jit"] = float(SPEC_JITTER[dtype])
    return cfg


def catalogue(rng, tier):
    cases = []
    batches = [(), (1,), (3,), (2, 2)] if tier == "quick" else [(), (1,), (2,), (3,), (5,), (2, 2), (3, 1), (2, 1, 2)]
    reps = 2 if tier == "quick" else 12
    sizes = [2, 3, 4] if tier == "quick" else [2, 3, 4, 5, 6]
    for mix in MIXES:
        for dtype in ("f32", "f64"):
            for batch in batches:
                for _ in range(reps):
                    cfg = gen_cfg(rng, mix, dtype, batch, "func")
                    cfg["sizes"] = sizes
                    cases.append(make_case(rng, mix, dtype, batch, cfg))
    # directed sweeps on the function: every jitter/max_tries source x upper x out on a mixed batch
    for dtype in ("f32", "f64"):
        for jm in ("default", "settings", "explicit", "explicit+settings"):
            for tm in ("default", "settings", "explicit", "explicit+settings"):
                up = rng.random() < 0.5
                for mix in ("pd+ind1+psd0", "last+pd", "over+psd0"):
                    cfg = gen_cfg(rng, mix, dtype, (3,), "func", dict(jit_mode=jm, tries_mode=tm, upper=up, out=not up))
                    cases.append(make_case(rng, mix, dtype, (3,), cfg))
        for up in (False, True):
            for out in (False, True):
                for lay in ("contig", "mT", "slice", "expanded"):
                    mix = rng.choice(["ind1+ind2+pd", "pd+psd0", "allpd", "two+ind0"])
                    cfg = gen_cfg(rng, mix, dtype, (2, 2), "func", dict(upper=up, out=out, layout=lay))
                    cases.append(make_case(rng, mix, dtype, (2, 2), cfg))
        # every number of tries, success at the last try / one short
        for T in (1, 2, 3, 4, 5, 6):
            for mix in ("last+pd", "over+psd0"):
                for tm in ("explicit", "settings"):
                    cfg = gen_cfg(rng, mix, dtype, (2,), "func", dict(tries_mode=tm, tries=T))
                    cases.append(make_case(rng, mix, dtype, (2,), cfg))
        # max_tries = 0 (and negative): loud failure required
        for T in (0, -1):
            for mix in ("pd+psd0", "neg", "allpd", "pd+nan"):
                cfg = gen_cfg(rng, mix, dtype, (2,), "func", dict(tries_mode="explicit", tries=T))
                cases.append(make_case(rng, mix, dtype, (2,), cfg))
        # tensor-valued jitter (0-d): every outcome kind, batch shapes incl. scalar, both sources that pass it explicitly
        for batch in ((), (3,), (2, 2)):
            for mix in ("pd+ind1+psd0", "last+pd", "over+psd0", "ind1+ind2+pd", "pd+nan", "neg"):
                jm = rng.choice(["explicit", "explicit+settings"])
                cfg = gen_cfg(rng, mix, dtype, batch, "func", dict(jit_mode=jm))
                if cfg["jit_mode"] in ("explicit", "explicit+settings"):
                    cfg["jit_tensor"] = True
                cases.append(make_case(rng, mix, dtype, batch, cfg))
        # trace mode (outside the property; model correspondence and immutability only)
        for mix in ("pd+psd0", "allpd"):
            cfg = gen_cfg(rng, mix, dtype, (2,), "func", dict(trace=True, out=False))
            cases.append(make_case(rng, mix, dtype, (2,), cfg))
    # 1x1 and 2x2 members of every kind, single and in mixed batches, on every route.  (The function has no size shortcut;
    # LinearOperator._cholesky has a legitimate 1x1 one, modelled by `opCholesky`.)
    small_mixes = [m for m in MIXES if m not in ("psdc+pd", "two+ind0")]
    for n_ in (1, 2):
        for via in ("func", "dense_op", "to_linop", "sum_op", "blockdiag_op"):
            for dtype in ("f32", "f64"):
                for mix in small_mixes:
                    for batch in ([(), (3,), (2, 2)] if via != "blockdiag_op" else [(3,), (2, 2)]):
                        for _ in range(1 if tier == "quick" else 3):
                            cfg = gen_cfg(rng, mix, dtype, batch, via, dict(layout="contig" if via == "sum_op" else None))
                            cfg["sizes"] = [n_]
                            cases.append(make_case(rng, mix, dtype, batch, cfg))
    # operator routes
    opmixes = ["allpd", "pd+psd0", "pd+ind1+psd0", "ind1+ind2+pd", "psd0+neg+pd", "pd+nan", "last+pd", "over+psd0", "two+ind0", "cpl+pd"]
    for via in ("dense_op", "to_linop", "sum_op", "blockdiag_op"):
        for dtype in ("f32", "f64"):
            for mix in (opmixes if tier == "thorough" or via in ("dense_op", "blockdiag_op") else opmixes[:5]):
                for batch in ([(), (3,), (2, 2)] if via != "blockdiag_op" else [(3,), (2, 2)]):
                    for _ in range(reps if tier == "thorough" else 1):
                        cfg = gen_cfg(rng, mix, dtype, batch, via, dict(layout="contig" if via in ("sum_op",) else None))
                        cases.append(make_case(rng, mix, dtype, batch, cfg))
    return cases


# --------------------------------------------------------------------------------------------- run / replay
def translator_crosscheck(chk, ch, se):
    """The extracted constants are the run-time objects."""
    import inspect
    from linear_operator import settings
    from linear_operator.utils import cholesky as cmod
    from linear_operator.utils.errors import NanError, NotPSDError
    from linear_operator.utils.warnings import NumericalWarning
    def brk(d):
        chk.proof_break("translator(C16Consts)", d)
    if se["jitterFloat"] is None or Fraction(settings.cholesky_jitter._global_float_value) != Fraction(float(se["jitterFloat"])):
        brk(f"cholesky_jitter float default: run time {settings.cholesky_jitter._global_float_value} vs extracted {se['jitterFloat']}")
    if se["jitterDouble"] is None or Fraction(settings.cholesky_jitter._global_double_value) != Fraction(float(se["jitterDouble"])):
        brk(f"cholesky_jitter double default: run time {settings.cholesky_jitter._global_double_value} vs extracted {se['jitterDouble']}")
    if settings.cholesky_max_tries._global_value != se["maxTries"]:
        brk(f"cholesky_max_tries default: run time {settings.cholesky_max_tries._global_value} vs extracted {se['maxTries']}")
    if settings.cholesky_jitter.value(torch.float) != settings.cholesky_jitter._global_float_value or \
            settings.cholesky_jitter.value(torch.double) != settings.cholesky_jitter._global_double_value:
        brk("cholesky_jitter.value(dtype) does not return the per-dtype slot")
    sig = inspect.signature(cmod.psd_safe_cholesky)
    got = [(k, "<required>" if p.default is inspect.Parameter.empty else repr(p.default)) for k, p in sig.parameters.items()]
    if got != [tuple(x) for x in ch["wrapperParams"]]:
        brk(f"psd_safe_cholesky signature at run time {got} vs extracted {ch['wrapperParams']}")
    if not (issubclass(NanError, RuntimeError) and issubclass(NotPSDError, RuntimeError) and issubclass(NumericalWarning, RuntimeWarning)):
        brk("error / warning base classes changed")
    if cmod.NanError is not NanError or cmod.NotPSDError is not NotPSDError or cmod.NumericalWarning is not NumericalWarning:
        brk("cholesky.py raises classes other than utils.errors.NanError/NotPSDError")


def process(chk, cases, ch=None):
    if ch is None:
        ch, _ = c16_cholesky.extract()
    skeleton = ch["coreSkeleton"]
    lines = [model_line(c) for c in cases]
    keys, extra = sk_lines()
    outs_all = chk.run_driver("C16", lines + extra + ["skeleton core", "skeleton wrapper"])
    outs, sktr = None, {}
    if outs_all is not None:
        outs = outs_all[:len(lines)]
        for key, o in zip(keys, outs_all[len(lines):len(lines) + len(keys)]):
            if o.startswith("trace="):
                sktr[key] = [x for x in o[len("trace="):].split("~") if x]
        # readable diff of the translator's skeleton against the one pinned in Lean (the obligation gen_skeleton_* is the proof)
        for name, sk, o in (("core", ch["coreSkeleton"], outs_all[-2]), ("wrapper", ch["wrapperSkeleton"], outs_all[-1])):
            mine = "~".join(f"{d}:{r}" for _, d, r in sk)
            if o != "skeleton=" + mine:
                chk.proof_break(f"translator(C16 skeleton {name})", f"source has `{mine}`, the model mirrors `{o[len('skeleton='):]}`")
    for idx, c in enumerate(cases):
        cell = cell_of(c)
        desc = json.dumps({k: c[k] for k in ("mix", "dtype", "batch", "n", "kinds", "mats", "jit_mode", "jit", "tries_mode", "tries",
                                             "upper", "out", "layout", "via", "trace")} | ({"jit_tensor": True} if c.get("jit_tensor") else {}), sort_keys=True)
        failing = [k for k in c["kinds"] if k != "pd"]
        chk.case(cell + " " + desc, nontrivial=bool(failing) or len(c["kinds"]) > 1)
        chk.count("via:" + c["via"])
        chk.count("dtype:" + c["dtype"])
        chk.count("batch:" + "x".join(map(str, c["batch"])))
        chk.count("mix:" + c["mix"])
        chk.count("layout:" + c["layout"])
        chk.count("n:" + str(c["n"]))
        chk.count(f"jit:{c['jit_mode']}")
        chk.count(f"tries:{c['tries_mode']}")
        for k, pos in zip(c["kinds"], c["pos"]):
            chk.count("member:" + (k if (k != "cpl" or not pos) else "cpl->ind1(fallback)"))
        sp = spec_of(c)
        chk.count("spec-outcome:" + sp["err"])
        try:
            obs = run_impl(c)
        except Exception as e:  # harness failure must be loud
            chk.corr_break(cell, f"harness could not run the case: {type(e).__name__}: {e}", {"case": c})
            continue
        bad = check_impl_vs_spec(c, obs, sp)
        if bad:
            chk.violation(cell, "; ".join(bad[:3]), {"case": c})
            continue
        if outs is None:
            continue
        mo = parse_model(outs[idx])
        diffs = compare_model(c, obs, mo)
        if not diffs:
            diffs = compare_skeleton(c, obs, mo, sktr, skeleton)
            chk.count("skeleton-trace:" + ("entered" if obs["core_frames"] else "not-entered"))
            dsem = compare_sem(c, obs, mo)
            chk.count("skeleton-state-semantics:" + mo.get("sem", "?"))
            if diffs and not dsem:
                diffs = [diffs[0] + " [the state semantics of the EXTRACTED skeleton still equals model and implementation on this input: "
                         "statement order changed without changing this case's behaviour]"] + diffs[1:]
            diffs = diffs + dsem
        if diffs:
            chk.corr_break(cell, "; ".join(diffs[:3]) + f" | line `{lines[idx][:200]}` -> `{outs[idx][:200]}`", {"case": c})
        else:
            chk.traces_validated += 1


def reset_settings():
    from linear_operator import settings
    return (settings.cholesky_jitter._global_float_value, settings.cholesky_jitter._global_double_value,
            settings.cholesky_jitter._global_half_value, settings.cholesky_max_tries._global_value, settings.trace_mode._state)


def run(chk):
    ch, se = c16_cholesky.generate()
    chk.rule = ("fixed catalogue of cells (route x dtype x batch shape x member mix x jitter source x max_tries source/number x upper x out x "
                "layout); inside a cell the integer Cholesky factors, probe values (within their margins), probe positions, sizes and "
                "member order are seed-random.  distinct = distinct (cell, matrices, configuration); non-trivial = at least one member "
                "that is not positive definite or a batch of more than one member")
    chk.assumptions += [
        "torch.linalg.cholesky_ex meets its contract on the exact-by-construction inputs (info = 0 <-> positive definite; first failing "
        "leading minor) - compared call by call with the exact LDL^T stand-in of the model",
        "floating-point rounding is not modelled: jitter amounts are compared with relative tolerance 1e-3 (gaps between admissible "
        "values are factors of 10), factors with 5e-4 (float32) / 1e-9 (float64)",
        "NaN members are placed symmetrically (a NaN only in the strictly upper triangle is never read by cholesky_ex and is returned silently)",
    ]
    translator_crosscheck(chk, ch, se)
    import inspect
    from linear_operator.utils import cholesky as cmod
    try:
        first = inspect.getsourcelines(cmod._psd_safe_cholesky)[1]
    except Exception as e:  # noqa: BLE001
        first = f"unavailable ({type(e).__name__})"
    if first != ch["coreFirstLine"] or cmod._psd_safe_cholesky.__code__.co_firstlineno != ch["coreFirstLine"]:
        chk.proof_break("translator(C16 skeleton)", f"_psd_safe_cholesky at run time starts at line {first}, the parsed source at "
                        f"{ch['coreFirstLine']}: the imported function is not the parsed one")
    chk.prove("LinOp.Properties.C16", ["LinOp/C16", "LinOp/Generated/C16Consts.lean", "LinOp/Core/Parse.lean", "LinOp/Core/Basic.lean"])
    before = reset_settings()
    cases = catalogue(chk.rng, chk.tier)
    process(chk, cases, ch)
    if reset_settings() != before:
        chk.corr_break("C16/harness", "settings leaked out of the cases", None)


def replay(chk, payload):
    p = payload.get("payload") or {}
    c = p.get("case") if isinstance(p, dict) else None
    if not c:
        print("replay names broken obligations / correspondence only:", json.dumps(p)[:2000])
        return run(chk)
    c16_cholesky.generate()
    process(chk, [c])
