"""C05 — logdet and inverse quadratic forms equal the dense values or their quadrature.

Implementation side: every PD catalogue instance (depth 2, plus C05-specific extras and depth+1 wraps)
x batch x rhs kind x reduce_inv_quad x logdet x settings; `inv_quad_logdet`, `logdet`, `torch.logdet`,
`inv_quad` against exact rational determinants / quadratic forms of the independent dense matrix, output
shapes exactly.  Stochastic path: the probes actually used are read back from the InvQuadLogdetBackward
node and the Gauss-Lanczos quadrature is recomputed for THOSE probes in float64 numpy.
Correspondence: the Lean models of the output-shape conventions, of StochasticLQ.to_dense's assembly, of the
column sums / reductions of inv_quad and of the block reductions are run on the same inputs.
"""
import json
import math
import os
import random
import traceback
import warnings
from contextlib import ExitStack
from fractions import Fraction

import numpy as np
import torch

from .. import catalogue
from ..common import fmt_rat

# ----------------------------------------------------------------------------- exact oracles


def _frac_rows(a):
    return [[Fraction(float(x)) for x in row] for row in a.tolist()]


def exact_logdet_and_solve(a, r=None):
    """a: (n,n) float tensor with exactly representable entries; r: (n,m) or None.
    Fraction Gauss-Jordan -> (log|det a| as float, sign, X = a^{-1} r as Fractions)."""
    n = a.shape[-1]
    m_ = _frac_rows(a)
    rr = _frac_rows(r) if r is not None else [[] for _ in range(n)]
    aug = [m_[i] + rr[i] for i in range(n)]
    det = Fraction(1)
    for c in range(n):
        p = next((i for i in range(c, n) if aug[i][c] != 0), None)
        if p is None:
            return None, 0, None
        if p != c:
            aug[c], aug[p] = aug[p], aug[c]
            det = -det
        pv = aug[c][c]
        det *= pv
        aug[c] = [x / pv for x in aug[c]]
        for i in range(n):
            if i != c and aug[i][c] != 0:
                f = aug[i][c]
                aug[i] = [x - f * y for x, y in zip(aug[i], aug[c])]
    sign = 1 if det > 0 else -1
    ad = abs(det)
    ld = math.log(ad.numerator) - math.log(ad.denominator)
    x = [row[n:] for row in aug] if r is not None else None
    return ld, sign, x


def members(t, nb):
    return t.reshape(-1, *t.shape[nb:]) if nb else t.unsqueeze(0)


class Oracle:
    """Exact per-batch-member values of the independent dense matrix."""

    def __init__(self, dense):
        self.A = dense.double()
        self.batch = tuple(self.A.shape[:-2])
        self.n = self.A.shape[-1]
        self.mem = members(self.A, len(self.batch))
        self._ld = None

    def logdet(self):
        if self._ld is None:
            vals = []
            for a in self.mem:
                ld, sign, _ = exact_logdet_and_solve(a)
                vals.append(float("nan") if ld is None or sign < 0 else ld)
            self._ld = torch.tensor(vals, dtype=torch.float64).reshape(self.batch)
        return self._ld

    def inv_quad_cols(self, R):
        """R: (*batch, n, m) -> (*batch, m) exact diag(R^T A^-1 R); also the exact solves as Fractions."""
        Rm = members(R.double(), len(self.batch))
        out, sols = [], []
        for a, r in zip(self.mem, Rm):
            _, _, x = exact_logdet_and_solve(a, r)
            rf = _frac_rows(r)
            m = r.shape[-1]
            out.append([float(sum(rf[i][j] * x[i][j] for i in range(self.n))) for j in range(m)])
            sols.append((x, rf))
        return torch.tensor(out, dtype=torch.float64).reshape(*self.batch, Rm.shape[-1]), sols


# ----------------------------------------------------------------------------- helpers


def find_slq_node(*ts):
    seen, stack = set(), [t.grad_fn for t in ts if t is not None and torch.is_tensor(t)]
    while stack:
        f = stack.pop()
        if f is None or f in seen:
            continue
        seen.add(f)
        if "InvQuadLogdet" in f.name():
            return f
        stack += [g for g, _ in f.next_functions]
    return None


def term_desc(t):
    if t is None:
        return "none"
    if t.numel() == 0 and tuple(t.shape) == (0,):
        return "empty"
    return "shape[" + ",".join(str(s) for s in t.shape) + "]"


def shp(s):
    return "shape[" + ",".join(str(x) for x in s) + "]"


def class_tree(op, depth=0):
    """Class names of an operator and of the operators among its constructor arguments."""
    from linear_operator.operators import LinearOperator
    names = [type(op).__name__]
    if depth < 6:
        for a in list(getattr(op, "_args", ())) + list(getattr(op, "_kwargs", {}).values()):
            if isinstance(a, LinearOperator):
                names += class_tree(a, depth + 1)
    return names


def same_terms(model, impl, has_rhs, lg):
    """Requested terms must agree exactly; for a term that was not requested only the kind of placeholder
    (none / empty / some tensor) is compared — its shape is not part of the documented interface."""
    m, i = model.split(" "), impl.split(" ")
    if len(m) != 2 or len(i) != 2:
        return False
    kind = lambda t: t.split("[")[0]
    ok_iq = m[0] == i[0] if has_rhs else kind(m[0]) == kind(i[0])
    ok_ld = m[1] == i[1] if lg else kind(m[1]) == kind(i[1])
    return ok_iq and ok_ld


def exc_tag(e):
    """ExceptionType@file.function of the innermost linear_operator frame."""
    tb = traceback.extract_tb(e.__traceback__)
    site = "?"
    for fr in tb:
        if "linear_operator" in fr.filename and "/verif/" not in fr.filename:
            site = os.path.basename(fr.filename).replace(".py", "") + "." + fr.name
    return f"{type(e).__name__}@{site}"


def close(got, want, tol):
    got, want = got.double(), want.double()
    if got.shape != want.shape:
        return False
    if torch.isnan(want).any():
        return bool((torch.isnan(got) == torch.isnan(want)).all())
    scale = 1.0 + float(want.abs().max()) if want.numel() else 1.0
    return bool((got - want).abs().max() <= tol * scale) if want.numel() else True


def lanczos_quadrature(At, u, k):
    """Independent Lanczos with full re-orthogonalisation: e1^T log(T_k) e1 for start vector u."""
    n = At.shape[0]
    k = min(k, n)
    Q = np.zeros((n, k))
    al, be = np.zeros(k), np.zeros(max(k - 1, 0))
    q = u / np.linalg.norm(u)
    Q[:, 0] = q
    kk = k
    for j in range(k):
        w = At @ Q[:, j]
        al[j] = Q[:, j] @ w
        w = w - Q[:, : j + 1] @ (Q[:, : j + 1].T @ w)
        w = w - Q[:, : j + 1] @ (Q[:, : j + 1].T @ w)
        if j + 1 < k:
            b = np.linalg.norm(w)
            if b < 1e-10:
                kk = j + 1
                break
            be[j] = b
            Q[:, j + 1] = w / b
    T = np.diag(al[:kk]) + np.diag(be[: kk - 1], 1) + np.diag(be[: kk - 1], -1)
    th, V = np.linalg.eigh(T)
    return float((V[0] ** 2 * np.log(th)).sum())


def slq_expected(A, probes, P, budget):
    """A (*batch,n,n) float64 tensor, probes (*batch,n,m): log|P| + (n/m) sum_i u_i^T log(P^-1/2 A P^-1/2) u_i."""
    batch = tuple(A.shape[:-2])
    n, m = A.shape[-1], probes.shape[-1]
    while probes.dim() > len(batch) + 2 and probes.shape[0] == 1:
        probes = probes[0]
    if probes.dim() > len(batch) + 2 and probes.numel() == int(torch.Size(batch).numel()) * n * m:
        probes = probes.reshape(*batch, n, m)  # size-1 batch dims of a wrapped operator
    Am = members(A, len(batch)).numpy()
    Zm = members(probes.double().expand(*batch, n, m), len(batch)).numpy()
    Pm = members(P.double().expand(*batch, n, n), len(batch)).numpy() if P is not None else [None] * len(Am)
    out = []
    for a, z, p in zip(Am, Zm, Pm):
        if p is not None:
            W = np.linalg.cholesky(p)
            at = np.linalg.solve(W, np.linalg.solve(W, a).T).T
            at = (at + at.T) / 2
            ldp = np.linalg.slogdet(p)[1]
        else:
            W, at, ldp = None, a, 0.0
        tot = 0.0
        if budget >= n:
            w, Q = np.linalg.eigh(at)
        for i in range(m):
            u = z[:, i] if W is None else np.linalg.solve(W, z[:, i])
            u = u / np.linalg.norm(u)
            if budget >= n:
                tot += float(((Q.T @ u) ** 2 * np.log(w)).sum())
            else:
                tot += lanczos_quadrature(at, u, budget)
        out.append(ldp + n / m * tot)
    return torch.tensor(out, dtype=torch.float64).reshape(batch)


def unwrap_for_probes(op, A, rows, pbatch=None):
    """Dense tensor of the operator that draws the probes (`rows` = its size) below Block / BatchRepeat wrappers of any nesting, and the
    function that maps its per-member estimates back to the outer operator's batch (sum over blocks, repeat)."""
    cls = type(op).__name__
    if A.shape[-1] == rows and (pbatch is None or pbatch in (tuple(A.shape[:-2]), ()) or cls != "BatchRepeatLinearOperator"):
        return A, (lambda x: x)       # (a BatchRepeat whose base draws the probes has the same row count: descend while the batch does not fit)
    if cls in ("BlockDiagLinearOperator", "BlockInterleavedLinearOperator"):
        base = op.base_linear_op
        k = base.shape[-3]
        nb = A.shape[-1] // k
        if cls == "BlockDiagLinearOperator":
            Ab = torch.stack([A[..., i * nb:(i + 1) * nb, i * nb:(i + 1) * nb] for i in range(k)], dim=-3)
        else:
            Ab = torch.stack([A[..., i::k, i::k] for i in range(k)], dim=-3)
        An, comb = unwrap_for_probes(base, Ab, rows, pbatch)
        return An, (lambda x, comb=comb: comb(x).sum(-1))
    if cls == "BatchRepeatLinearOperator":
        base = op.base_linear_op
        bb = tuple(base.batch_shape)
        idx = (0,) * (A.dim() - 2 - len(bb)) + tuple(slice(0, s) for s in bb)
        An, comb = unwrap_for_probes(base, A[idx], rows, pbatch)
        reps = tuple(op.batch_repeat)
        return An, (lambda x, comb=comb, reps=reps: comb(x).repeat(*reps))
    return A, (lambda x: x)


# ----------------------------------------------------------------------------- path descriptor (input of the Lean shape model)


def path_of(op, settings):
    from linear_operator.operators import (BatchRepeatLinearOperator, BlockDiagLinearOperator, BlockInterleavedLinearOperator,
                                           CatLinearOperator, CholLinearOperator, DiagLinearOperator, IdentityLinearOperator,
                                           KroneckerProductAddedDiagLinearOperator, KroneckerProductLinearOperator,
                                           LowRankRootAddedDiagLinearOperator, SumKroneckerLinearOperator, TriangularLinearOperator)
    short = settings.fast_computations.log_prob.off() or op.size(-1) <= settings.max_cholesky_size.value()
    base = "chol" if short else "slq"
    if isinstance(op, CholLinearOperator):
        return "chol"
    if isinstance(op, CatLinearOperator):
        return f"cat/{base}"      # super().inv_quad_logdet(...) then .to(device) on the non-None terms
    if isinstance(op, IdentityLinearOperator):
        return "identity"
    if isinstance(op, DiagLinearOperator):
        return "diag"
    if isinstance(op, KroneckerProductAddedDiagLinearOperator):
        from linear_operator.operators import ConstantDiagLinearOperator, KroneckerProductDiagLinearOperator
        if op._diag_is_constant:
            return f"kron/{base}"
        if op.shape[-1] >= settings.max_cholesky_size.value() and isinstance(op.diag_tensor, KroneckerProductDiagLinearOperator):
            if len(op.linear_op.linear_ops) == len(op.diag_tensor.linear_ops) and all(
                    isinstance(d, ConstantDiagLinearOperator) for d in op.diag_tensor.linear_ops):
                return f"kron/{base}"  # closed form (was D12 until /repo 04e576d)
            return f"kron/{base}"
        return f"kronfb/{base}"
    if isinstance(op, KroneckerProductLinearOperator):
        return f"kron/{base}"
    if isinstance(op, TriangularLinearOperator):
        return "tri"
    if isinstance(op, (SumKroneckerLinearOperator, LowRankRootAddedDiagLinearOperator)):
        return "closed"
    if isinstance(op, (BlockDiagLinearOperator, BlockInterleavedLinearOperator)):
        return f"block/{op.base_linear_op.shape[-3]}/{path_of(op.base_linear_op, settings)}"
    if isinstance(op, BatchRepeatLinearOperator):
        bb = ".".join(str(s) for s in op.base_linear_op.batch_shape) or "-"
        return f"rep/{bb}/{'.'.join(str(s) for s in op.batch_repeat)}/{path_of(op.base_linear_op, settings)}"
    return base


def stochastic_expected(path):
    """Does this path reach InvQuadLogdet (stochastic Lanczos quadrature) when the log-determinant is requested?"""
    toks = path.split("/")
    return toks[-1] == "slq" and "kron" not in toks


# ----------------------------------------------------------------------------- extra instances


def extra_instances(rng, dtype, batch, n):
    from linear_operator.operators import (BlockDiagLinearOperator, BatchRepeatLinearOperator, ConstantDiagLinearOperator,
                                           DiagLinearOperator, KroneckerProductAddedDiagLinearOperator,
                                           KroneckerProductDiagLinearOperator, KroneckerProductLinearOperator,
                                           TriangularLinearOperator, DenseLinearOperator, CholLinearOperator)
    Inst, ri, psd_int, kron = catalogue.Inst, catalogue.ri, catalogue.psd_int, catalogue.kron
    out = []
    eye = lambda k: torch.eye(k, dtype=dtype)
    L = torch.tril(ri(rng, (*batch, n, n), -2, 2, dtype)) * (1 - eye(n)) + torch.diag_embed(ri(rng, (*batch, n), 1, 3, dtype))
    out.append(Inst("Triangular[lower,pos]", lambda c, L=L: (lambda t: (TriangularLinearOperator(t), L, [t]))(c(L)), True, tags=("nonsym",)))
    U = L.mT.contiguous()
    out.append(Inst("Triangular[upper,pos]", lambda c, U=U: (lambda t: (TriangularLinearOperator(t, upper=True), U, [t]))(c(U)), True, tags=("nonsym",)))
    # two negative diagonal entries: det > 0, sign rule must NOT fire; one negative: det < 0 -> NaN
    s2 = torch.ones(n, dtype=dtype)
    if n >= 2:
        s2[0] = -1
        s2[1] = -1
        L2 = L * s2.unsqueeze(-2)
        out.append(Inst("Triangular[lower,2neg]", lambda c, L=L2: (lambda t: (TriangularLinearOperator(t), L, [t]))(c(L)), True, tags=("nonsym",)))
    s1 = torch.ones(n, dtype=dtype)
    s1[-1] = -1
    L1 = L * s1.unsqueeze(-2)
    out.append(Inst("Triangular[lower,1neg]", lambda c, L=L1: (lambda t: (TriangularLinearOperator(t), L, [t]))(c(L)), True, tags=("nonsym", "negdet")))
    K1, K2 = psd_int(rng, batch, 2, dtype), psd_int(rng, batch, n, dtype)
    c1, c2 = ri(rng, (*batch, 1), 1, 3, dtype), ri(rng, (*batch, 1), 1, 3, dtype)
    out.append(Inst("KroneckerAddedDiag[kronconst]", lambda c, a=K1, b=K2, e=c1, f=c2: (lambda s, t, u, v: (
        KroneckerProductAddedDiagLinearOperator(KroneckerProductLinearOperator(s, t),
                                                KroneckerProductDiagLinearOperator(ConstantDiagLinearOperator(u, diag_shape=2), ConstantDiagLinearOperator(v, diag_shape=n))),
        kron(a, b) + kron(e.unsqueeze(-1) * eye(2), f.unsqueeze(-1) * eye(n)), [s, t, u, v]))(c(a), c(b), c(e), c(f)), True))
    d1, d2 = ri(rng, (*batch, 2), 1, 3, dtype), ri(rng, (*batch, n), 1, 3, dtype)
    out.append(Inst("KroneckerAddedDiag[krondiag]", lambda c, a=K1, b=K2, e=d1, f=d2: (lambda s, t, u, v: (
        KroneckerProductAddedDiagLinearOperator(KroneckerProductLinearOperator(s, t),
                                                KroneckerProductDiagLinearOperator(DiagLinearOperator(u), DiagLinearOperator(v))),
        kron(a, b) + kron(torch.diag_embed(e), torch.diag_embed(f)), [s, t, u, v]))(c(a), c(b), c(e), c(f)), True))
    K3 = psd_int(rng, batch, 2, dtype)
    out.append(Inst("Kronecker[3]", lambda c, a=K1, b=K2, e=K3: (lambda s, t, u: (KroneckerProductLinearOperator(s, t, u), kron(kron(a, b), e), [s, t, u]))(c(a), c(b), c(e)), True))
    dd = ri(rng, (*batch, 2, n), 1, 4, dtype)
    out.append(Inst("BlockDiag(Diag)", lambda c, e=dd: (lambda t: (BlockDiagLinearOperator(DiagLinearOperator(t)), catalogue.block_diag_dense(torch.diag_embed(e)), [t]))(c(e)), True))
    Bk1, Bk2 = psd_int(rng, (*batch, 2), 2, dtype), psd_int(rng, (*batch, 2), n, dtype)
    out.append(Inst("BlockDiag(Kronecker)", lambda c, a=Bk1, b=Bk2: (lambda s, t: (BlockDiagLinearOperator(KroneckerProductLinearOperator(s, t)), catalogue.block_diag_dense(kron(a, b)), [s, t]))(c(a), c(b)), True))
    rep = (3,) + (1,) * len(batch)
    dr = ri(rng, (*batch, n), 1, 4, dtype)
    out.append(Inst("BatchRepeat(Diag)[3]", lambda c, e=dr: (lambda t: (BatchRepeatLinearOperator(DiagLinearOperator(t), batch_repeat=torch.Size(rep)), torch.diag_embed(e).repeat(*rep, 1, 1), [t]))(c(e)), True))
    Lc = torch.tril(ri(rng, (*batch, n, n), -2, 2, dtype)) * (1 - eye(n)) + torch.diag_embed(ri(rng, (*batch, n), 1, 3, dtype))
    out.append(Inst("BatchRepeat(Chol)", lambda c, L=Lc: (lambda t: (BatchRepeatLinearOperator(CholLinearOperator(TriangularLinearOperator(t)), batch_repeat=torch.Size((2,) + (1,) * len(batch))),
                                                                  (L @ L.mT).repeat(*((2,) + (1,) * len(batch)), 1, 1), [t]))(c(L)), True))
    # ---- orientation / argument-order variants of the closed-form classes ------------------------------------
    from linear_operator.operators import (AddedDiagLinearOperator, BlockInterleavedLinearOperator, KroneckerProductTriangularLinearOperator,
                                           LowRankRootAddedDiagLinearOperator, LowRankRootLinearOperator)
    Uu = torch.triu(ri(rng, (*batch, n, n), -2, 2, dtype)) * (1 - eye(n)) + torch.diag_embed(ri(rng, (*batch, n), 1, 3, dtype))
    if n >= 2:
        Uu[..., 0, n - 1] = 2  # make sure U^T U != U U^T
    out.append(Inst("Chol[upper]", lambda c, U=Uu: (lambda t: (CholLinearOperator(TriangularLinearOperator(t, upper=True), upper=True), U.mT @ U, [t]))(c(U)), True))
    Ap = psd_int(rng, batch, n, dtype)
    out.append(Inst("Chol[cholesky(upper)]", lambda c, A=Ap: (lambda t: (CholLinearOperator(DenseLinearOperator(t).cholesky(upper=True), upper=True), A, [t]))(c(A)), True, tags=("sqrt",)))
    out.append(Inst("Chol[cholesky(lower)]", lambda c, A=Ap: (lambda t: (CholLinearOperator(DenseLinearOperator(t).cholesky()), A, [t]))(c(A)), True, tags=("sqrt",)))
    U2 = torch.triu(ri(rng, (*batch, 2, 2), 1, 3, dtype))
    KU = kron(U2, Uu)
    out.append(Inst("Chol[upper](KroneckerTriangular)", lambda c, a=U2, b=Uu: (lambda s, t: (
        CholLinearOperator(KroneckerProductTriangularLinearOperator(TriangularLinearOperator(s, upper=True), TriangularLinearOperator(t, upper=True), upper=True), upper=True),
        KU.mT @ KU, [s, t]))(c(a), c(b)), True))
    KL = kron(U2.mT.contiguous(), L)
    out.append(Inst("Chol[lower](KroneckerTriangular)", lambda c, a=U2.mT.contiguous(), b=L: (lambda s, t: (
        CholLinearOperator(KroneckerProductTriangularLinearOperator(TriangularLinearOperator(s), TriangularLinearOperator(t))), KL @ KL.mT, [s, t]))(c(a), c(b)), True))
    out.append(Inst("Chol[Kronecker.cholesky(upper)]", lambda c, a=K1, b=K2: (lambda s, t: (
        CholLinearOperator(KroneckerProductLinearOperator(s, t).cholesky(upper=True), upper=True), kron(a, b), [s, t]))(c(a), c(b)), True, tags=("sqrt",)))
    Ub = torch.triu(ri(rng, (*batch, 2, n, n), -2, 2, dtype)) * (1 - eye(n)) + torch.diag_embed(ri(rng, (*batch, 2, n), 1, 3, dtype))
    out.append(Inst("BlockDiag(Chol[upper])", lambda c, U=Ub: (lambda t: (BlockDiagLinearOperator(CholLinearOperator(TriangularLinearOperator(t, upper=True), upper=True)),
                                                                      catalogue.block_diag_dense(U.mT @ U), [t]))(c(U)), True))
    out.append(Inst("BlockInterleaved(Chol[upper])", lambda c, U=Ub: (lambda t: (BlockInterleavedLinearOperator(CholLinearOperator(TriangularLinearOperator(t, upper=True), upper=True)),
                                                                             catalogue.block_interleaved_dense(U.mT @ U), [t]))(c(U)), True))
    rep2 = (2,) + (1,) * len(batch)
    out.append(Inst("BatchRepeat(Chol[upper])", lambda c, U=Uu: (lambda t: (BatchRepeatLinearOperator(CholLinearOperator(TriangularLinearOperator(t, upper=True), upper=True), batch_repeat=torch.Size(rep2)),
                                                                        (U.mT @ U).repeat(*rep2, 1, 1), [t]))(c(U)), True))
    if n >= 2:
        out.append(Inst("Triangular[upper,2neg]", lambda c, U=(L * s2.unsqueeze(-2)).mT.contiguous(): (lambda t: (TriangularLinearOperator(t, upper=True), U, [t]))(c(U)), True, tags=("nonsym",)))
    out.append(Inst("Triangular[upper,1neg]", lambda c, U=(L * s1.unsqueeze(-2)).mT.contiguous(): (lambda t: (TriangularLinearOperator(t, upper=True), U, [t]))(c(U)), True, tags=("nonsym", "negdet")))
    out.append(Inst("KroneckerDiag[const]", lambda c, e=c1, f=d2: (lambda u, v: (KroneckerProductDiagLinearOperator(ConstantDiagLinearOperator(u, diag_shape=2), DiagLinearOperator(v)),
                                                                        kron(e.unsqueeze(-1) * eye(2), torch.diag_embed(f)), [u, v]))(c(e), c(f)), True))
    dk = ri(rng, (*batch, 2 * n), 1, 3, dtype)
    out.append(Inst("KroneckerAddedDiag[diag-first]", lambda c, a=K1, b=K2, e=dk: (lambda s, t, u: (
        KroneckerProductAddedDiagLinearOperator(DiagLinearOperator(u), KroneckerProductLinearOperator(s, t)), kron(a, b) + torch.diag_embed(e), [s, t, u]))(c(a), c(b), c(e)), True))
    out.append(Inst("KroneckerAddedDiag[const-first]", lambda c, a=K1, b=K2, e=c1: (lambda s, t, u: (
        KroneckerProductAddedDiagLinearOperator(ConstantDiagLinearOperator(u, diag_shape=2 * n), KroneckerProductLinearOperator(s, t)), kron(a, b) + e.unsqueeze(-1) * eye(2 * n), [s, t, u]))(c(a), c(b), c(e)), True))
    dA = ri(rng, (*batch, n), 1, 4, dtype)
    out.append(Inst("AddedDiag[diag-first]", lambda c, a=Ap, e=dA: (lambda s, t: (AddedDiagLinearOperator(DiagLinearOperator(t), DenseLinearOperator(s)), a + torch.diag_embed(e), [s, t]))(c(a), c(e)), True))
    out.append(Inst("AddedDiag[const]", lambda c, a=Ap, e=c2: (lambda s, t: (AddedDiagLinearOperator(DenseLinearOperator(s), ConstantDiagLinearOperator(t, diag_shape=n)), a + e.unsqueeze(-1) * eye(n), [s, t]))(c(a), c(e)), True))
    Rr = ri(rng, (*batch, n, 2), dtype=dtype)
    out.append(Inst("LowRankRootAddedDiag[const]", lambda c, r=Rr, e=c2: (lambda s, t: (LowRankRootAddedDiagLinearOperator(LowRankRootLinearOperator(s), ConstantDiagLinearOperator(t, diag_shape=n)),
                                                                               r @ r.mT + e.unsqueeze(-1) * eye(n), [s, t]))(c(r), c(e)), True))
    # ---- user-supplied triangular factors whose DIAGONAL IS SIGN-INDEFINITE (L @ diag(+-1), an unconstrained triangular
    # parameter): L L^T (resp. U^T U) is still PD and every logdet entry point must return log det = sum log(L_ii^2)
    # (theorem cholLogdet_eq needs only L_ii != 0) — no NaN, whatever the number of negative entries.  In a batch only
    # the LAST member is affected (member 0 keeps a positive diagonal).
    def signs(k, nneg):
        s = torch.ones(*batch, k, dtype=dtype)
        for j in ([k - 1] if nneg == 1 else ([0, k - 1] if nneg == 2 else range(k))):
            s[..., j] = -1
        if batch:
            s[(0,) * len(batch)] = 1
        return s
    for tagn, nneg in (("1neg", 1), ("2neg", 2), ("allneg", n)):
        sg = signs(n, nneg)
        Ln = (L * sg.unsqueeze(-2)).contiguous()          # columns scaled: L @ diag(s)
        Un = (Uu * sg.unsqueeze(-1)).contiguous()         # rows scaled: diag(s) @ U
        out.append(Inst(f"Chol[lower,diag{tagn}]", lambda c, L=Ln: (lambda t: (CholLinearOperator(TriangularLinearOperator(t)), L @ L.mT, [t]))(c(L)), True))
        out.append(Inst(f"Chol[upper,diag{tagn}]", lambda c, U=Un: (lambda t: (CholLinearOperator(TriangularLinearOperator(t, upper=True), upper=True), U.mT @ U, [t]))(c(U)), True))
    sg1 = signs(n, 1)
    Ln1, Un1 = (L * sg1.unsqueeze(-2)).contiguous(), (Uu * sg1.unsqueeze(-1)).contiguous()
    s2k = signs(2, 1)
    L2n = (U2.mT * s2k.unsqueeze(-2)).contiguous()
    KLn = kron(L2n, Ln1)
    out.append(Inst("Chol[lower,diag1neg](KroneckerTriangular)", lambda c, a=L2n, b=Ln1: (lambda s, t: (
        CholLinearOperator(KroneckerProductTriangularLinearOperator(TriangularLinearOperator(s), TriangularLinearOperator(t))), KLn @ KLn.mT, [s, t]))(c(a), c(b)), True))
    U2n = (U2 * s2k.unsqueeze(-1)).contiguous()
    KUn = kron(U2n, Un1)
    out.append(Inst("Chol[upper,diag1neg](KroneckerTriangular)", lambda c, a=U2n, b=Un1: (lambda s, t: (
        CholLinearOperator(KroneckerProductTriangularLinearOperator(TriangularLinearOperator(s, upper=True), TriangularLinearOperator(t, upper=True), upper=True), upper=True),
        KUn.mT @ KUn, [s, t]))(c(a), c(b)), True))
    sb = torch.ones(*batch, 2, n, dtype=dtype)
    sb[..., 1, n - 1] = -1                                # only the second block has a negative diagonal entry
    if n >= 2:
        sb[..., 1, 0] = -1 if n >= 3 else 1
    Ubn = (Ub * sb.unsqueeze(-1)).contiguous()
    Lbn = (Ub.mT * sb.unsqueeze(-2)).contiguous()
    out.append(Inst("BlockDiag(Chol[upper,diagneg])", lambda c, U=Ubn: (lambda t: (BlockDiagLinearOperator(CholLinearOperator(TriangularLinearOperator(t, upper=True), upper=True)),
                                                                             catalogue.block_diag_dense(U.mT @ U), [t]))(c(U)), True))
    out.append(Inst("BlockDiag(Chol[lower,diagneg])", lambda c, L=Lbn: (lambda t: (BlockDiagLinearOperator(CholLinearOperator(TriangularLinearOperator(t))),
                                                                             catalogue.block_diag_dense(L @ L.mT), [t]))(c(L)), True))
    out.append(Inst("BlockInterleaved(Chol[lower,diagneg])", lambda c, L=Lbn: (lambda t: (BlockInterleavedLinearOperator(CholLinearOperator(TriangularLinearOperator(t))),
                                                                                    catalogue.block_interleaved_dense(L @ L.mT), [t]))(c(L)), True))
    out.append(Inst("BatchRepeat(Chol[lower,diag1neg])", lambda c, L=Ln1: (lambda t: (BatchRepeatLinearOperator(CholLinearOperator(TriangularLinearOperator(t)), batch_repeat=torch.Size(rep2)),
                                                                               (L @ L.mT).repeat(*rep2, 1, 1), [t]))(c(L)), True))
    out.append(Inst("BatchRepeat(Chol[upper,diag1neg])", lambda c, U=Un1: (lambda t: (BatchRepeatLinearOperator(CholLinearOperator(TriangularLinearOperator(t, upper=True), upper=True), batch_repeat=torch.Size(rep2)),
                                                                               (U.mT @ U).repeat(*rep2, 1, 1), [t]))(c(U)), True))
    out.append(Inst("LowRankRootAddedDiag[diag-first]", lambda c, r=Rr, e=dA: (lambda s, t: (LowRankRootAddedDiagLinearOperator(DiagLinearOperator(t), LowRankRootLinearOperator(s)),
                                                                                    r @ r.mT + torch.diag_embed(e), [s, t]))(c(r), c(e)), True))
    return out


# ----------------------------------------------------------------------------- wrappers interleaved (Block / BatchRepeat / Cat)


def nest_instances(rng, dtype):
    """Block OVER BatchRepeat, BatchRepeat over Block, Block over BatchRepeat over Block, Cat (batch concatenation) alone and under a
    Block — the nestings of theorem `nested_wrappers_shape` that the catalogue's depth-2 instances and one-level wraps do not produce."""
    from linear_operator.operators import (BatchRepeatLinearOperator, BlockDiagLinearOperator, BlockInterleavedLinearOperator,
                                           CatLinearOperator, DenseLinearOperator)
    Inst, psd_int = catalogue.Inst, catalogue.psd_int
    bd, bi = catalogue.block_diag_dense, catalogue.block_interleaved_dense
    A = psd_int(rng, (), 3, dtype)               # unbatched 3x3
    A2 = psd_int(rng, (2,), 3, dtype)            # two 3x3 blocks
    A4 = psd_int(rng, (2, 2), 2, dtype)          # 2 x 2 blocks of 2x2
    C1, C2 = psd_int(rng, (1, 2), 3, dtype), psd_int(rng, (1, 2), 3, dtype)
    S = torch.Size
    out = [
        Inst("BlockDiag(BatchRepeat[2](Dense))", lambda c: (lambda t: (BlockDiagLinearOperator(BatchRepeatLinearOperator(DenseLinearOperator(t), batch_repeat=S((2,)))),
                                                                     bd(A.repeat(2, 1, 1)), [t]))(c(A)), True),
        Inst("BlockDiag(BatchRepeat[2,3](Dense))", lambda c: (lambda t: (BlockDiagLinearOperator(BatchRepeatLinearOperator(DenseLinearOperator(t), batch_repeat=S((2, 3)))),
                                                                       bd(A.repeat(2, 3, 1, 1)), [t]))(c(A)), True),
        Inst("BlockInterleaved(BatchRepeat[3,1](Dense[b=2]))", lambda c: (lambda t: (BlockInterleavedLinearOperator(BatchRepeatLinearOperator(DenseLinearOperator(t), batch_repeat=S((3, 1)))),
                                                                                   bi(A2.repeat(3, 1, 1, 1)), [t]))(c(A2)), True),
        Inst("BatchRepeat[2](BlockDiag(Dense[b=2]))", lambda c: (lambda t: (BatchRepeatLinearOperator(BlockDiagLinearOperator(DenseLinearOperator(t)), batch_repeat=S((2,))),
                                                                          bd(A2).repeat(2, 1, 1), [t]))(c(A2)), True),
        Inst("BlockDiag(BatchRepeat[2](BlockDiag(Dense[b=2])))", lambda c: (lambda t: (BlockDiagLinearOperator(BatchRepeatLinearOperator(BlockDiagLinearOperator(DenseLinearOperator(t)), batch_repeat=S((2,)))),
                                                                                     bd(bd(A2).repeat(2, 1, 1)), [t]))(c(A2)), True),
        Inst("BlockInterleaved(BatchRepeat[2,1](BlockDiag(Dense[b=2,2])))", lambda c: (lambda t: (BlockInterleavedLinearOperator(BatchRepeatLinearOperator(BlockDiagLinearOperator(DenseLinearOperator(t)), batch_repeat=S((2, 1)))),
                                                                                                bi(bd(A4).repeat(2, 1, 1, 1)), [t]))(c(A4)), True),
        Inst("Cat[dim=0](Dense,Dense)", lambda c: (lambda s, t: (CatLinearOperator(DenseLinearOperator(s), DenseLinearOperator(t), dim=0), torch.cat([C1, C2], 0), [s, t]))(c(C1), c(C2)), True),
        Inst("BlockDiag(Cat[dim=0](Dense,Dense))", lambda c: (lambda s, t: (BlockDiagLinearOperator(CatLinearOperator(DenseLinearOperator(s), DenseLinearOperator(t), dim=0)),
                                                                          bd(torch.cat([C1, C2], 0)), [s, t]))(c(C1), c(C2)), True),
    ]
    return out


# ----------------------------------------------------------------------------- expression-built instances


def expr_instances(rng, dtype, batch, n):
    """Operators produced by the library's OWN composition (`a + b`, `(a + b) + c`, `a * c`, add_jitter, add_diagonal,
    slices, repeat / expand / unsqueeze, cat) — which class comes out, and with how many summands, is decided by the
    dispatch code; the dense value is computed independently from the defining tensors."""
    import linear_operator
    from linear_operator.operators import (ConstantDiagLinearOperator, DenseLinearOperator, DiagLinearOperator, KroneckerProductLinearOperator,
                                           LowRankRootLinearOperator, BlockDiagLinearOperator, ToeplitzLinearOperator)
    Inst, ri, psd_int, kron = catalogue.Inst, catalogue.ri, catalogue.psd_int, catalogue.kron
    N = 2 * n
    eye = lambda k: torch.eye(k, dtype=dtype)
    A1, B1, A2, B2, A3, B3, A4, B4 = [psd_int(rng, batch, k, dtype) for k in (2, n, 2, n, 2, n, 2, n)]
    D = psd_int(rng, batch, N, dtype)
    D2 = psd_int(rng, batch, N, dtype)
    d1, d2 = ri(rng, (*batch, N), 1, 3, dtype), ri(rng, (*batch, N), 1, 3, dtype)
    c1, c2 = ri(rng, (*batch, 1), 1, 3, dtype), ri(rng, (*batch, 1), 1, 3, dtype)
    Rr, Rr2 = ri(rng, (*batch, N, 2), dtype=dtype), ri(rng, (*batch, N, 1), dtype=dtype)
    kc = ri(rng, batch, 2, 3, dtype)
    K = lambda a, b: KroneckerProductLinearOperator(a, b)
    k1, k2, k3, k4 = kron(A1, B1), kron(A2, B2), kron(A3, B3), kron(A4, B4)
    de = torch.diag_embed
    ce = lambda c: c.unsqueeze(-1) * eye(N)
    out = []

    def add(name, tensors, build, dense, tags=()):
        def make(c, tensors=tensors, build=build, dense=dense):
            ts = [c(t) for t in tensors]
            return build(*ts), dense, ts
        try:
            it = Inst("expr:" + name, make, True, tags=tags)
        except Exception as e:  # the composition itself fails: reported by the caller
            out.append(("ctor-error", "expr:" + name, f"{type(e).__name__}: {str(e)[:160]}"))
            return
        out.append(it)

    # --- Kronecker sums: 2, 3, 4 summands, plus tensors / dense operators / diagonals
    add("Kron+Kron", [A1, B1, A2, B2], lambda a, b, e, f: K(a, b) + K(e, f), k1 + k2)
    add("(Kron+Kron)+Kron", [A1, B1, A2, B2, A3, B3], lambda a, b, e, f, g, h: (K(a, b) + K(e, f)) + K(g, h), k1 + k2 + k3)
    add("Kron+(Kron+Kron)", [A1, B1, A2, B2, A3, B3], lambda a, b, e, f, g, h: K(a, b) + (K(e, f) + K(g, h)), k1 + k2 + k3)
    add("(Kron+Kron)+(Kron+Kron)", [A1, B1, A2, B2, A3, B3, A4, B4], lambda a, b, e, f, g, h, i, j: (K(a, b) + K(e, f)) + (K(g, h) + K(i, j)), k1 + k2 + k3 + k4)
    add("(Kron+Kron)+tensor", [A1, B1, A2, B2, D], lambda a, b, e, f, t: (K(a, b) + K(e, f)) + t, k1 + k2 + D)
    add("(Kron+Kron)+Dense", [A1, B1, A2, B2, D], lambda a, b, e, f, t: (K(a, b) + K(e, f)) + DenseLinearOperator(t), k1 + k2 + D)
    add("(Kron+Kron)+Diag", [A1, B1, A2, B2, d1], lambda a, b, e, f, t: (K(a, b) + K(e, f)) + DiagLinearOperator(t), k1 + k2 + de(d1))
    add("(Kron+Kron).add_jitter", [A1, B1, A2, B2], lambda a, b, e, f: (K(a, b) + K(e, f)).add_jitter(1.0), k1 + k2 + eye(N))
    add("(Kron+Kron)*2", [A1, B1, A2, B2], lambda a, b, e, f: (K(a, b) + K(e, f)) * 2.0, 2 * (k1 + k2))
    # --- Kronecker + diagonal: re-added diagonals, chained jitters, third summands
    add("Kron+Diag", [A1, B1, d1], lambda a, b, t: K(a, b) + DiagLinearOperator(t), k1 + de(d1))
    add("Diag+Kron", [A1, B1, d1], lambda a, b, t: DiagLinearOperator(t) + K(a, b), k1 + de(d1))
    add("(Kron+Diag)+Diag", [A1, B1, d1, d2], lambda a, b, t, u: (K(a, b) + DiagLinearOperator(t)) + DiagLinearOperator(u), k1 + de(d1) + de(d2))
    add("(Kron+Const)+Const", [A1, B1, c1, c2], lambda a, b, t, u: (K(a, b) + ConstantDiagLinearOperator(t, diag_shape=N)) + ConstantDiagLinearOperator(u, diag_shape=N), k1 + ce(c1) + ce(c2))
    add("(Kron+Const)+Diag", [A1, B1, c1, d1], lambda a, b, t, u: (K(a, b) + ConstantDiagLinearOperator(t, diag_shape=N)) + DiagLinearOperator(u), k1 + ce(c1) + de(d1))
    add("(Kron+Diag)+Kron", [A1, B1, d1, A2, B2], lambda a, b, t, e, f: (K(a, b) + DiagLinearOperator(t)) + K(e, f), k1 + de(d1) + k2)
    add("(Kron+Const)+Kron", [A1, B1, c1, A2, B2], lambda a, b, t, e, f: (K(a, b) + ConstantDiagLinearOperator(t, diag_shape=N)) + K(e, f), k1 + ce(c1) + k2)
    add("(Kron+Diag)+tensor", [A1, B1, d1, D], lambda a, b, t, u: (K(a, b) + DiagLinearOperator(t)) + u, k1 + de(d1) + D)
    add("Kron.add_jitter.add_jitter", [A1, B1], lambda a, b: K(a, b).add_jitter(1.0).add_jitter(2.0), k1 + 3 * eye(N))
    add("Kron.add_diagonal", [A1, B1, d1], lambda a, b, t: K(a, b).add_diagonal(t), k1 + de(d1))
    add("(Kron+Diag).add_jitter", [A1, B1, d1], lambda a, b, t: (K(a, b) + DiagLinearOperator(t)).add_jitter(1.0), k1 + de(d1) + eye(N))
    add("(Kron+Const)*2", [A1, B1, c1], lambda a, b, t: (K(a, b) + ConstantDiagLinearOperator(t, diag_shape=N)) * 2.0, 2 * (k1 + ce(c1)))
    add("Kron*2", [A1, B1], lambda a, b: K(a, b) * 2.0, 2 * k1)
    add("Kron*c", [A1, B1, kc], lambda a, b, k: K(a, b) * k.unsqueeze(-1).unsqueeze(-1) if k.dim() else K(a, b) * k, k1 * kc.unsqueeze(-1).unsqueeze(-1))
    add("Kron+Kron[3 factors]", [A1, B1, A2, A3, B3, A4], lambda a, b, e, g, h, i: KroneckerProductLinearOperator(a, b, e) + KroneckerProductLinearOperator(g, h, i),
        kron(kron(A1, B1), A2) + kron(kron(A3, B3), A4))
    # --- low-rank root + diagonal
    lr, lr2 = Rr @ Rr.mT, Rr2 @ Rr2.mT
    LRR = LowRankRootLinearOperator
    add("LRR+Diag", [Rr, d1], lambda r, t: LRR(r) + DiagLinearOperator(t), lr + de(d1))
    add("Diag+LRR", [Rr, d1], lambda r, t: DiagLinearOperator(t) + LRR(r), lr + de(d1))
    add("(LRR+Diag)+Diag", [Rr, d1, d2], lambda r, t, u: (LRR(r) + DiagLinearOperator(t)) + DiagLinearOperator(u), lr + de(d1) + de(d2))
    add("(LRR+Diag)+Const", [Rr, d1, c1], lambda r, t, u: (LRR(r) + DiagLinearOperator(t)) + ConstantDiagLinearOperator(u, diag_shape=N), lr + de(d1) + ce(c1))
    add("(LRR+Diag)+LRR", [Rr, d1, Rr2], lambda r, t, q: (LRR(r) + DiagLinearOperator(t)) + LRR(q), lr + de(d1) + lr2)
    add("(LRR+Diag)+Dense", [Rr, d1, D], lambda r, t, u: (LRR(r) + DiagLinearOperator(t)) + DenseLinearOperator(u), lr + de(d1) + D)
    add("(LRR+Diag)+tensor", [Rr, d1, D], lambda r, t, u: (LRR(r) + DiagLinearOperator(t)) + u, lr + de(d1) + D)
    add("(LRR+Diag).add_jitter.add_jitter", [Rr, d1], lambda r, t: (LRR(r) + DiagLinearOperator(t)).add_jitter(1.0).add_jitter(1.0), lr + de(d1) + 2 * eye(N))
    add("LRR.add_diagonal", [Rr, d1], lambda r, t: LRR(r).add_diagonal(t), lr + de(d1))
    add("(LRR+Diag)*2", [Rr, d1], lambda r, t: (LRR(r) + DiagLinearOperator(t)) * 2.0, 2 * (lr + de(d1)))
    # --- dense / Toeplitz + diagonal
    DL = DenseLinearOperator
    add("Dense+Diag", [D, d1], lambda a, t: DL(a) + DiagLinearOperator(t), D + de(d1))
    add("(Dense+Diag)+Diag", [D, d1, d2], lambda a, t, u: (DL(a) + DiagLinearOperator(t)) + DiagLinearOperator(u), D + de(d1) + de(d2))
    add("(Dense+Diag)+Dense", [D, d1, D2], lambda a, t, u: (DL(a) + DiagLinearOperator(t)) + DL(u), D + de(d1) + D2)
    add("(Dense+Const)+Const", [D, c1, c2], lambda a, t, u: (DL(a) + ConstantDiagLinearOperator(t, diag_shape=N)) + ConstantDiagLinearOperator(u, diag_shape=N), D + ce(c1) + ce(c2))
    add("Dense.add_jitter.add_jitter", [D], lambda a: DL(a).add_jitter(1.0).add_jitter(2.0), D + 3 * eye(N))
    add("Dense.add_diagonal", [D, d1], lambda a, t: DL(a).add_diagonal(t), D + de(d1))
    add("(Dense+Diag)*2", [D, d1], lambda a, t: (DL(a) + DiagLinearOperator(t)) * 2.0, 2 * (D + de(d1)))
    col = ri(rng, (*batch, N), 0, 2, dtype)
    col[..., 0] = col[..., 0] + 2 * N
    add("Toeplitz.add_jitter", [col], lambda t: ToeplitzLinearOperator(t).add_jitter(1.0), catalogue.toeplitz_dense(col) + eye(N))
    add("Toeplitz+Diag", [col, d1], lambda t, u: ToeplitzLinearOperator(t) + DiagLinearOperator(u), catalogue.toeplitz_dense(col) + de(d1))
    add("Dense+Dense", [D, D2], lambda a, b: DL(a) + DL(b), D + D2)
    # --- slices (principal sub-matrices), batch reshapes
    k = N - 2
    add("Dense[:k,:k]", [D], lambda a: DL(a)[..., :k, :k], D[..., :k, :k])
    add("(Dense+Diag)[1:,1:]", [D, d1], lambda a, t: (DL(a) + DiagLinearOperator(t))[..., 1:, 1:], (D + de(d1))[..., 1:, 1:])
    add("Kron[:k,:k]", [A1, B1], lambda a, b: K(a, b)[..., :k, :k], k1[..., :k, :k])
    add("(Kron+Kron)[:k,:k]", [A1, B1, A2, B2], lambda a, b, e, f: (K(a, b) + K(e, f))[..., :k, :k], (k1 + k2)[..., :k, :k])
    add("(Kron+Diag)[:k,:k]", [A1, B1, d1], lambda a, b, t: (K(a, b) + DiagLinearOperator(t))[..., :k, :k], (k1 + de(d1))[..., :k, :k])
    add("(LRR+Diag)[:k,:k]", [Rr, d1], lambda r, t: (LRR(r) + DiagLinearOperator(t))[..., :k, :k], (lr + de(d1))[..., :k, :k])
    Bl = psd_int(rng, (*batch, 2), n, dtype)
    add("BlockDiag[:n,:n]", [Bl], lambda a: BlockDiagLinearOperator(DL(a))[..., :n, :n], catalogue.block_diag_dense(Bl)[..., :n, :n])
    if batch:
        add("(Kron+Kron)[0]", [A1, B1, A2, B2], lambda a, b, e, f: (K(a, b) + K(e, f))[0], (k1 + k2)[0])
        add("(Kron+Diag)[0]", [A1, B1, d1], lambda a, b, t: (K(a, b) + DiagLinearOperator(t))[0], (k1 + de(d1))[0])
        add("cat[batch]((Kron+Diag),(Dense+Diag))", [A1, B1, d1, D, d2],
            lambda a, b, t, u, v: linear_operator.operators.cat([K(a, b) + DiagLinearOperator(t), DL(u) + DiagLinearOperator(v)], dim=0),
            torch.cat([k1 + de(d1), D + de(d2)], 0))
    one = (1,) * len(batch)
    for nm, mk, dn in (("(Kron+Kron)", lambda ts: K(ts[0], ts[1]) + K(ts[2], ts[3]), k1 + k2),
                       ("(Kron+Diag)", lambda ts: K(ts[0], ts[1]) + DiagLinearOperator(ts[4]), k1 + de(d1)),
                       ("(LRR+Diag)", lambda ts: LRR(ts[5]) + DiagLinearOperator(ts[4]), lr + de(d1))):
        tens = [A1, B1, A2, B2, d1, Rr]
        add(nm + ".repeat(2)", tens, lambda *ts, mk=mk: mk(ts).repeat(2, *one, 1, 1), dn.repeat(2, *one, 1, 1))
        add(nm + ".unsqueeze(0)", tens, lambda *ts, mk=mk: mk(ts).unsqueeze(0), dn.unsqueeze(0))
        add(nm + ".expand(3)", tens, lambda *ts, mk=mk: mk(ts).expand(3, *dn.shape), dn.expand(3, *dn.shape).contiguous())
    return out


# ----------------------------------------------------------------------------- heterogeneous spectra (stochastic path)


def hetero_instances(rng, dtype):
    """Batches whose members have HETEROGENEOUS spectra: a member whose Krylov space is exhausted after 1-3 steps (scaled
    identity, two distinct eigenvalues, a block of repeated eigenvalues) next to a generic member, in both orders.  The
    stochastic estimate of every member must be the quadrature of ITS OWN full Krylov dimension (theorem `slq_full_dimension`),
    whatever happens to the other members of the batch."""
    from linear_operator.operators import (AddedDiagLinearOperator, ConstantMulLinearOperator, DenseLinearOperator, DiagLinearOperator,
                                           SumLinearOperator)
    Inst, ri, psd_int = catalogue.Inst, catalogue.ri, catalogue.psd_int
    n = 5
    eye = torch.eye(n, dtype=dtype)
    gen = lambda: psd_int(rng, (), n, dtype)
    cI = lambda: rng.randint(2, 4) * eye
    def two():  # a I + v v^T: eigenvalues a (n-1 times) and a + |v|^2
        v = ri(rng, (n, 1), 1, 2, dtype)
        return rng.randint(1, 3) * eye + v @ v.mT
    def rep_block():  # 3 repeated eigenvalues + a generic 2x2 block
        m = torch.zeros(n, n, dtype=dtype)
        m[:3, :3] = rng.randint(2, 4) * torch.eye(3, dtype=dtype)
        m[3:, 3:] = psd_int(rng, (), 2, dtype)
        return m
    combos = {
        "cI,gen": [cI(), gen()], "gen,cI": [gen(), cI()], "two,gen": [two(), gen()], "gen,two": [gen(), two()],
        "rep,gen": [rep_block(), gen()], "gen,rep,cI": [gen(), rep_block(), cI()], "cI,two,gen": [cI(), two(), gen()],
        "2x2[gen,cI;two,gen]": [gen(), cI(), two(), gen()],
    }
    out = []
    for name, mats in combos.items():
        A = torch.stack(mats)
        if name.startswith("2x2"):
            A = A.reshape(2, 2, n, n)
        out.append(Inst(f"het:Dense[{name}]", lambda c, A=A: (lambda t: (DenseLinearOperator(t), A, [t]))(c(A)), True))
    A = torch.stack([cI(), gen()])
    B = torch.stack([gen(), two()])
    d = torch.stack([2 * torch.ones(n, dtype=dtype), ri(rng, (n,), 1, 3, dtype)])
    # member 0 of the sum is a scaled identity only when both parts are
    out.append(Inst("het:AddedDiag[cI+cI,gen+diag]", lambda c, A=A, d=d: (lambda s, t: (AddedDiagLinearOperator(DenseLinearOperator(s), DiagLinearOperator(t)), A + torch.diag_embed(d), [s, t]))(c(A), c(d)), True))
    out.append(Inst("het:Sum[gen+two,two+gen]", lambda c, A=B, B2=B.flip(0).contiguous(): (lambda s, t: (SumLinearOperator(DenseLinearOperator(s), DenseLinearOperator(t)), A + B2, [s, t]))(c(A), c(B2)), True))
    k = torch.tensor([2.0, 3.0], dtype=dtype)
    out.append(Inst("het:ConstantMul[cI,gen]", lambda c, A=A, k=k: (lambda s, t: (ConstantMulLinearOperator(DenseLinearOperator(s), t), A * k.unsqueeze(-1).unsqueeze(-1), [s, t]))(c(A), c(k)), True))
    return out


# ----------------------------------------------------------------------------- configurations

CONFIGS = {
    # name: (settings, kind)
    "default": {},
    "nofast": {"log_prob": False},
    "chol=n": {"max_chol": "n"},
    "slq": {"max_chol": 0, "precond": 0},
    "slq[chol=n-1]": {"max_chol": "n-1", "precond": 0},
    "slq[m=1]": {"max_chol": 0, "precond": 0, "m": 1},
    "slq[budget<n]": {"max_chol": 0, "precond": 0, "budget": "n-2"},
    "slq+precond": {"max_chol": 0, "precond": 2, "minprecond": 0},
    "slq+precond5": {"max_chol": 0, "precond": 5, "minprecond": 0},
    "slq+skip": {"max_chol": 0, "precond": 0, "skip": True},
    "slq+cached-root": {"max_chol": 0, "precond": 0, "cached_root": True},
}


def enter(st, settings, cfg, n, rng):
    mc = cfg.get("max_chol")
    if mc is not None:
        st.enter_context(settings.max_cholesky_size({"n": n, "n-1": n - 1}.get(mc, mc)))
    if cfg.get("log_prob") is False:
        st.enter_context(settings.fast_computations(log_prob=False))
    m = cfg.get("m") or rng.choice([2, 3, 7])
    st.enter_context(settings.num_trace_samples(m))
    b = cfg.get("budget")
    budget = max(1, n - 2) if b == "n-2" else rng.choice([n, n + 3, 20])
    st.enter_context(settings.max_lanczos_quadrature_iterations(budget))
    if "precond" in cfg:
        st.enter_context(settings.max_preconditioner_size(cfg["precond"]))
    if "minprecond" in cfg:
        st.enter_context(settings.min_preconditioning_size(cfg["minprecond"]))
    if cfg.get("skip"):
        st.enter_context(settings.skip_logdet_forward(True))
    st.enter_context(settings.cg_tolerance(1e-3))
    st.enter_context(settings.max_cg_iterations(200))
    return m, budget


# ----------------------------------------------------------------------------- the check


class Recorder:
    """Wraps StochasticLQ.to_dense (as seen by InvQuadLogdet.forward) to record its inputs and output."""

    def __init__(self):
        import linear_operator.functions._inv_quad_logdet as mod
        self.mod = mod
        self.orig = mod.StochasticLQ.to_dense
        self.calls = []
        rec = self

        def to_dense(self_, matrix_shape, eigenvalues, eigenvectors, funcs):
            res = rec.orig(self_, matrix_shape, eigenvalues, eigenvectors, funcs)
            rec.calls.append((tuple(matrix_shape), eigenvalues.detach().clone(), eigenvectors.detach().clone(), res[0].detach().clone()))
            return res

        mod.StochasticLQ.to_dense = to_dense

    def restore(self):
        self.mod.StochasticLQ.to_dense = self.orig


def run(chk, only=None):
    from linear_operator import settings
    warnings.filterwarnings("ignore")
    chk.rule = ("PD catalogue instances (depth 2) + C05 extras (Triangular sign cases, KPADLO Kronecker-diag branches, 3-factor Kronecker, "
                "Block/BatchRepeat over closed-form classes) + depth+1 wraps (AddedDiag, BatchRepeat, BlockDiag, BlockInterleaved, SumBatch) "
                "x batch x dtype x rhs {none, vector, matrix} x reduce_inv_quad x logdet x settings {default, log_prob off, max_cholesky_size "
                "n / n-1 / 0, num_trace_samples, max_lanczos_quadrature_iterations >= n and < n, preconditioner 0/2/5, skip_logdet_forward, "
                "cached triangular root}; integer-valued data, exact rational oracles; non-trivial = n > 1 and not the identity")
    chk.assumptions += [
        "cholesky_ex / eigh / solve_triangular / qr meet their contracts (hypotheses of the theorems)",
        "float rounding is not modelled: deterministic paths are compared with tolerance 1e-8 (f64) / 2e-3 (f32), CG-based inverse quadratic forms with 1e-5, "
        "deterministic paths that go through Lanczos root decompositions (max_cholesky_size 0) with 1e-3; SLQ vs independent quadrature 1e-6",
        "the probes stored on the InvQuadLogdetBackward node are the ones used in the forward pass (they are the same tensor objects)",
        "that the CG-produced tridiagonal matrix is the Lanczos matrix of the preconditioned operator is C08's theorem; here it is checked numerically",
    ]
    # translator: which classes override inv_quad_logdet / inv_quad / logdet / _logdet (ast) -> Generated/C05Overrides.lean,
    # cross-checked against the run-time class dictionaries
    from ..extract import c05_overrides
    import linear_operator.operators as ops_mod
    try:
        table, cat_skel = c05_overrides.generate()
        from linear_operator.operators._linear_operator import LinearOperator as _LO
        rt = {}
        for nm in dir(ops_mod):
            c = getattr(ops_mod, nm)
            if isinstance(c, type) and issubclass(c, _LO):
                d = sorted(mn for mn in c05_overrides.WATCH if mn in c.__dict__)
                if d:
                    rt[c.__name__] = d
        exported = {k: v for k, v in table.items() if k in rt or hasattr(ops_mod, k)}
        if exported != rt:
            chk.proof_break("translator(C05Overrides)", f"override table differs from run time: ast {sorted(exported.items())} vs run time {sorted(rt.items())}"[:600])
        chk.count("translator_override_classes", len(table))
    except Exception as e:  # noqa
        chk.proof_break("translator(C05Overrides)", f"{type(e).__name__}: {str(e)[:300]}")
    chk.prove("LinOp.Properties.C05", ["LinOp/C05", "LinOp/Core", "LinOp/Generated/C05Overrides.lean"])
    rec = Recorder()
    st = State(chk, settings, rec, only)
    try:
        st.generate()
    finally:
        rec.restore()
    st.run_model()


class State:
    def __init__(self, chk, settings, rec, only):
        self.chk, self.settings, self.rec, self.only = chk, settings, rec, only
        self.lines, self.expect = [], []

    # ------------------------------------------------------------------ case generation
    def generate(self):
        chk = self.chk
        quick = chk.tier == "quick"
        rng = chk.rng
        dtypes = [torch.float64, torch.float32]
        batches = [(), (2,)] if quick else [(), (2,), (1,), (2, 3)]
        wrap_kinds = ["AddedDiag", "BatchRepeat", "BlockDiag", "BlockInterleaved", "SumBatch"]
        for it in hetero_instances(rng, torch.float64):
            self.instance(it, torch.float64, tuple(it.shape[:-2]), it.shape[-1], force_cfgs=["slq", "slq[m=1]", "slq[chol=n-1]", "slq+cached-root"]
                          + (["slq+precond"] if "AddedDiag" in it.name else []))
        self.bcast_cells()
        self.clamp_cells()
        self.catrows_cells()
        if not (self.only and (self.only.startswith("C05/bcast/") or self.only.startswith("C05/clamp/") or self.only.startswith("C05/hist2:"))):
            for it in nest_instances(rng, torch.float64):
                chk.count("nest_instances")
                self.instance(it, torch.float64, tuple(it.shape[:-2]), it.shape[-1], force_cfgs=["default", "chol=n", "slq", "slq[chol=n-1]"])
        if self.only and (self.only.startswith("C05/bcast/") or self.only.startswith("C05/clamp/") or self.only.startswith("C05/hist2:")):
            return
        self.patched_probe_cells()
        self.history_cells()
        for dtype in dtypes:
            for batch in batches:
                sizes = [3] if (quick or dtype == torch.float32) else [3, 4]
                if dtype == torch.float64 and batch == ():
                    sizes = sizes + [1]
                for n in sizes:
                    insts = list(catalogue.instances(rng, dtype, batch, n, psd=True, depth=2 if n > 1 else 1))
                    if n > 1:
                        insts += extra_instances(rng, dtype, batch, n)
                        base_for_wrap = [it for it in insts if it.name in ("Dense[psd]", "Kronecker", "Diag", "Toeplitz", "Chol[lower]", "LowRankRootAddedDiag", "AddedDiag")]
                        picks = base_for_wrap if not quick else rng.sample(base_for_wrap, 3)
                        for it in picks:
                            kinds = wrap_kinds if not quick else rng.sample(wrap_kinds, 2)
                            for w in catalogue.wrap(rng, it, dtype, kinds=kinds):
                                if isinstance(w, tuple):
                                    continue
                                w.psd = True
                                insts.append(w)
                    if n == 3 and dtype == torch.float64 and batch in ((), (2,)):
                        for it in expr_instances(rng, dtype, batch, n):
                            if isinstance(it, tuple):
                                cellc = f"C05/{it[1]}[b={batch}|n={n}]/compose"
                                chk.case(cellc)
                                chk.violation(cellc + "/exception", f"building the operator by composition raised {it[2]}", {"cell": cellc, "seed": chk.seed, "tier": chk.tier})
                            else:
                                insts.append(it)
                    for it in insts:
                        self.instance(it, dtype, batch, n)

    def configs_for(self, it, dtype, batch, n, quick):
        f32 = dtype == torch.float32
        names = ["default"]
        if f32:
            return names + (["slq"] if it.name in ("Dense[psd]", "AddedDiag") else [])
        names += ["nofast", "chol=n", "slq"]
        if n > 1:
            names.append("slq[chol=n-1]")
        stoch_cfgs = ["slq[m=1]", "slq+skip", "slq+cached-root"] + (["slq[budget<n]"] if it.shape[-1] >= 4 else [])
        if "AddedDiag" in it.name.split("(")[0] and "Kronecker" not in it.name.split("(")[0] and "LowRank" not in it.name.split("(")[0]:
            names += ["slq+precond", "slq+precond5"]
        if quick:
            names += self.chk.rng.sample(stoch_cfgs, 1)
        else:
            names += stoch_cfgs
        return names

    def instance(self, it, dtype, batch, n, force_cfgs=None):
        chk = self.chk
        quick = chk.tier == "quick"
        A = it.dense.double()
        N = A.shape[-1]
        obatch = tuple(A.shape[:-2])
        orc = Oracle(it.dense)
        g = torch.Generator().manual_seed(chk.rng.randrange(2 ** 31))
        rhs_kinds = ["none", "mat"] + (["vec"] if not obatch else []) + (["mat1"] if not quick else [])
        rhss = {"none": None,
                "mat": torch.randint(-3, 4, (*obatch, N, 2), generator=g).to(dtype),
                "mat1": torch.randint(-3, 4, (*obatch, N, 1), generator=g).to(dtype),
                "vec": torch.randint(-3, 4, (N,), generator=g).to(dtype)}
        for cname in (force_cfgs or self.configs_for(it, dtype, batch, n, quick)):
            cfg = CONFIGS[cname]
            for rk in rhs_kinds:
                if rk == "vec" and cname not in ("default", "slq"):
                    continue
                flagsets = [(True, True), (False, True), (True, False), (False, False)]
                if rk == "none":
                    flagsets = [(True, True)] if quick else [(True, True), (False, True)]
                elif quick and cname not in ("default", "slq"):
                    flagsets = [chk.rng.choice(flagsets)]
                for red, lg in flagsets:
                    cell = f"C05/{it.name}[b={obatch}|n={N}|{str(dtype)[6:]}]/{cname}/rhs={rk}/red={'T' if red else 'F'}/ld={'T' if lg else 'F'}"
                    if self.only and self.only != cell:
                        continue
                    self.one(cell, it, orc, dtype, obatch, N, cname, cfg, rk, rhss[rk], red, lg)

    def patched_probe_cells(self):
        """Non-batch operator, probes supplied through `_probe_vectors_and_norms`: ONE probe column is an eigenvector of A (its
        Krylov space is exhausted after one step), the others are generic.  Every probe's quadrature node must still be that of
        its own full Krylov dimension: estimate = (n/m) sum_i z_i^T log(A) z_i for budget >= n."""
        from linear_operator.operators import AddedDiagLinearOperator, DenseLinearOperator, DiagLinearOperator
        chk, settings = self.chk, self.settings
        n = 5
        for kind in ("Dense", "AddedDiag"):
            for where in ("first", "last", "two-of-three", "only"):
                for with_rhs in (False, True):
                    cell = f"C05/probe-eigvec:{kind}[n={n}]/slq/eig={where}/rhs={'mat' if with_rhs else 'none'}"
                    if self.only and self.only != cell:
                        continue
                    crng = random.Random(f"C05:{chk.seed}:{cell}")
                    payload = {"cell": cell, "seed": chk.seed, "tier": chk.tier}
                    A = catalogue.psd_int(crng, (), n, torch.float64)
                    dvec = catalogue.ri(crng, (n,), 1, 3, torch.float64)
                    dense = A + torch.diag_embed(dvec) if kind == "AddedDiag" else A
                    w, Q = np.linalg.eigh(dense.numpy())
                    g = torch.Generator().manual_seed(crng.randrange(2 ** 31))
                    cols = {"first": ["e", "g", "g"], "last": ["g", "g", "e"], "two-of-three": ["e", "g", "e2"], "only": ["e"]}[where]
                    pv = []
                    for cdesc in cols:
                        if cdesc == "g":
                            v = torch.randn(n, generator=g, dtype=torch.float64)
                        else:
                            v = torch.tensor(Q[:, crng.randrange(n) if cdesc == "e" else 0].copy())
                        pv.append(v / v.norm())
                    pv = torch.stack(pv, -1)
                    norms = torch.ones(1, pv.shape[-1], dtype=torch.float64)
                    chk.case(cell + f"|{chk.seed}")
                    chk.count("cfg:probe-eigvec")
                    t = dense.clone().requires_grad_(True) if kind == "Dense" else A.clone().requires_grad_(True)
                    op = DenseLinearOperator(t) if kind == "Dense" else AddedDiagLinearOperator(DenseLinearOperator(t), DiagLinearOperator(dvec.clone()))
                    op._probe_vectors_and_norms = lambda pv=pv, norms=norms: (pv.clone(), norms.clone())
                    R = torch.randint(-3, 4, (n, 2), generator=g).double() if with_rhs else None
                    budget = crng.choice([n, n + 3, 20])
                    try:
                        with settings.max_cholesky_size(0), settings.max_preconditioner_size(0), settings.max_lanczos_quadrature_iterations(budget), \
                                settings.cg_tolerance(1e-3), settings.max_cg_iterations(200):
                            iq, ld = op.inv_quad_logdet(R, logdet=True)
                    except Exception as e:
                        chk.violation(cell + "/exception=" + exc_tag(e), f"inv_quad_logdet raised {type(e).__name__}: {str(e)[:160]}", payload)
                        continue
                    node = find_slq_node(iq, ld)
                    if node is None or not torch.equal(node.probe_vectors, pv):
                        chk.violation(cell + "/probes", "the supplied probe vectors were not used (no stochastic node, or different probes recorded)", payload)
                        continue
                    want = slq_expected(dense, pv, None, budget)
                    if not close(ld.detach(), want, 1e-6):
                        chk.violation(cell + "/slq", f"stochastic logdet {float(ld)} is not the Gauss-Lanczos quadrature {float(want)} of the supplied probes "
                                      f"(columns {cols}, budget {budget} >= n={n}): a probe with an exhausted Krylov space must not truncate the others", payload)
                        continue
                    if R is not None:
                        wantq = (R * torch.linalg.solve(dense, R)).sum()
                        if not close(iq.detach(), wantq, 1e-5):
                            chk.violation(cell + "/invquad", f"inv_quad {float(iq)} vs dense {float(wantq)}", payload)
                            continue
                    chk.traces_validated += 1
                    chk.count("slq_quadrature_checked")

    def history_cells(self):
        """Multi-call histories on ONE operator object: a (partial) Lanczos diagonalization requested first —
        `K.diagonalization(method="lanczos")`, N above max_root_decomposition_size so that it has fewer than N eigenvalues —
        then `logdet()` / `inv_quad_logdet` / `torch.logdet` on the same object.  The closed-form Kronecker `_logdet` needs the FULL
        symeig spectrum (theorem kronLogdetN_eq: all N products of factor eigenvalues); whatever was cached by the earlier call, the
        result must equal the exact log-determinant and the value a fresh object returns."""
        import contextlib
        from linear_operator.operators import (ConstantDiagLinearOperator, DenseLinearOperator, DiagLinearOperator,
                                               KroneckerProductLinearOperator)
        chk, settings = self.chk, self.settings
        kron = catalogue.kron
        for kind in ("Kronecker", "Kronecker[3]", "Kronecker+Const", "Kronecker+Diag", "Dense"):
            for size in ("144", "small"):
                for first in ("lanczos", "symeig", "lanczos+symeig"):
                    cell = f"C05/hist:{kind}[{size}]/diagonalization({first})-then-logdet"
                    if self.only and self.only != cell:
                        continue
                    crng = random.Random(f"C05:{chk.seed}:{cell}")
                    payload = {"cell": cell, "seed": chk.seed, "tier": chk.tier}
                    dims = ([12, 12] if kind != "Kronecker[3]" else [4, 6, 6]) if size == "144" else ([2, 3] if kind != "Kronecker[3]" else [2, 2, 2])
                    fac = [catalogue.psd_int(crng, (), k, torch.float64) for k in dims]
                    N = int(np.prod(dims))
                    dense = fac[0]
                    for f in fac[1:]:
                        dense = kron(dense, f)
                    dv = catalogue.ri(crng, (N,), 1, 3, torch.float64)
                    cv = catalogue.ri(crng, (1,), 1, 3, torch.float64)
                    if kind == "Kronecker+Const":
                        dense = dense + cv * torch.eye(N, dtype=torch.float64)
                    elif kind == "Kronecker+Diag":
                        dense = dense + torch.diag_embed(dv)

                    def build():
                        ts = [f.clone().requires_grad_(True) for f in fac]
                        if kind == "Dense":
                            return DenseLinearOperator(dense.clone().requires_grad_(True))
                        k_ = KroneckerProductLinearOperator(*ts)
                        if kind == "Kronecker+Const":
                            return k_ + ConstantDiagLinearOperator(cv.clone(), diag_shape=N)
                        if kind == "Kronecker+Diag":
                            return k_ + DiagLinearOperator(dv.clone())
                        return k_
                    chk.case(cell + f"|{chk.seed}")
                    chk.count("cfg:history")
                    # N = 144: float64 slogdet of the independent dense matrix (a Fraction elimination of that size is too slow)
                    exact = Oracle(dense).logdet() if N <= 12 else torch.linalg.slogdet(dense)[1]
                    R = torch.randint(-3, 4, (N, 2), generator=torch.Generator().manual_seed(crng.randrange(2 ** 31))).double()
                    ctx = settings.max_root_decomposition_size(3) if size == "small" else contextlib.nullcontext()
                    try:
                        with ctx, settings.max_cholesky_size(800):
                            op = build()
                            inner = op.linear_op if hasattr(op, "linear_op") and kind.startswith("Kronecker+") else op
                            for mth in first.split("+"):
                                ev, _ = inner.diagonalization(method=mth)
                                if mth == "lanczos" and ev.shape[-1] < N:
                                    chk.count("history_partial_diagonalization")
                            got = {"logdet()": op.logdet(), "torch.logdet": torch.logdet(op),
                                   "inv_quad_logdet": op.inv_quad_logdet(R.clone(), logdet=True)[1]}
                            fresh = build().logdet()
                    except Exception as e:
                        chk.violation(cell + "/exception=" + exc_tag(e), f"history raised {type(e).__name__}: {str(e)[:160]}", payload)
                        continue
                    bad = [k for k, v in got.items() if not close(v.detach(), exact, 1e-8)]
                    if bad or not close(fresh.detach(), exact, 1e-8):
                        chk.violation(cell + "/logdet", f"after diagonalization(method={first}) on the same object: "
                                      + ", ".join(f"{k}={float(v.detach()):.10g}" for k, v in got.items()) + f"; fresh object {float(fresh.detach()):.10g}; exact {float(exact):.10g}", payload)
                        continue
                    chk.traces_validated += 1

    # ------------------------------------------------------------------ histories that leave a cached triangular root behind
    def catrows_cells(self):
        """HISTORY family: the operator that is queried carries a CACHED root decomposition whose root is triangular, and the Cholesky
        shortcut of `inv_quad_logdet` (n <= max_cholesky_size, or fast_computations(log_prob=False)) re-uses it instead of factorizing:
        * `A.cat_rows(B, D)` appending 2 or 3 rows with a cross block of ORDINARY magnitude (integers in [-2, 2]), default generate_roots —
          the result is a CatLinearOperator with the assembled root `[[E, 0], [B R, G]]` in its cache;
        * the same after `A.add_low_rank(U)` (the parent of cat_rows then has an updated cached root itself);
        * a plain operator after `root_decomposition()` or `zero_mean_mvn_samples()` pre-queries.
        Parents Dense / Kronecker / Toeplitz / AddedDiag, batch () and (2,).  Each query — `logdet()`, `torch.logdet`,
        `inv_quad_logdet(R, logdet=True)` with both reduce modes, `inv_quad(R)` with both reduce modes — runs on a FRESH replay of the
        history and is compared with the dense value of the assembled matrix `[[A, Bᵀ], [B, D]]` (float64 `logdet` / `solve`, 1e-8) and with
        the value of a plain DenseLinearOperator of that matrix; shapes exactly; Lean shape model on the path descriptor of the queried
        operator (`cat/chol`: the cached-root shortcut is the `chol` path — `CholLinearOperator(root).inv_quad_logdet`)."""
        from linear_operator.operators import (DenseLinearOperator, DiagLinearOperator, KroneckerProductLinearOperator, ToeplitzLinearOperator,
                                               TriangularLinearOperator)
        chk, settings = self.chk, self.settings
        dt = torch.float64
        quick = chk.tier == "quick"
        for parent in ("Dense", "Kronecker", "Toeplitz", "AddedDiag"):
            for batch in ((), (2,)):
                for hist in ("cat_rows[2]", "cat_rows[3]", "add_low_rank+cat_rows[2]", "root_decomposition", "zero_mean_mvn_samples"):
                    for cname in ("default", "log_prob_off"):
                        base = f"C05/hist2:{parent}/b={'x'.join(map(str, batch)) or '-'}/{hist}/{cname}"
                        if self.only and not self.only.startswith(base):
                            continue
                        crng = random.Random(f"C05:{chk.seed}:{base}")
                        if parent == "Kronecker":
                            f1, f2 = catalogue.psd_int(crng, batch, 2, dt), catalogue.psd_int(crng, batch, 3, dt)
                            A = catalogue.kron(f1, f2)
                        elif parent == "Toeplitz":
                            col = torch.cat([catalogue.ri(crng, (*batch, 1), 6, 8, dt), catalogue.ri(crng, (*batch, 3), -1, 1, dt)], -1)
                            A = catalogue.toeplitz_dense(col)          # strictly diagonally dominant: PD
                        elif parent == "AddedDiag":
                            a0, dv = catalogue.psd_int(crng, batch, 4, dt), catalogue.ri(crng, (*batch, 4), 1, 3, dt)
                            A = a0 + torch.diag_embed(dv)
                        else:
                            A = catalogue.psd_int(crng, batch, 4, dt)
                        n = A.shape[-1]
                        U = catalogue.ri(crng, (*batch, n, 1), -2, 2, dt, nonzero=True)
                        O = 3 if hist.endswith("[3]") else 2
                        B = catalogue.ri(crng, (*batch, O, n), -2, 2, dt)
                        B[..., 0, 0] = 2.0                           # never an all-zero cross block
                        S = catalogue.psd_int(crng, batch, O, dt)
                        Ap = A + U @ U.mT if hist.startswith("add_low_rank") else A
                        D = B @ torch.linalg.solve(Ap, B.mT) + S      # Schur complement S: the assembled matrix is PD
                        D = (D + D.mT) / 2
                        if "cat_rows" in hist:
                            Cd = torch.cat([torch.cat([Ap, B.mT], -1), torch.cat([B, D], -1)], -2)
                        else:
                            Cd = A
                        N = Cd.shape[-1]

                        def parent_op():
                            if parent == "Kronecker":
                                return KroneckerProductLinearOperator(DenseLinearOperator(f1.clone()), DenseLinearOperator(f2.clone()))
                            if parent == "Toeplitz":
                                return ToeplitzLinearOperator(col.clone())
                            if parent == "AddedDiag":
                                return DenseLinearOperator(a0.clone()) + DiagLinearOperator(dv.clone())
                            return DenseLinearOperator(A.clone())

                        def replay_history():
                            op = parent_op()
                            if hist.startswith("add_low_rank"):
                                op = op.add_low_rank(U.clone())
                            if "cat_rows" in hist:
                                op = op.cat_rows(B.clone(), D.clone())
                            elif hist == "root_decomposition":
                                op.root_decomposition()
                            else:
                                torch.manual_seed(crng.randrange(2 ** 31))
                                op.zero_mean_mvn_samples(3)
                            return op

                        R = catalogue.ri(crng, (*batch, N, 2), dtype=dt)
                        cols = (R * torch.linalg.solve(Cd, R)).sum(-2)
                        ldet = torch.logdet(Cd)
                        queries = [("logdet()", lambda o: o.logdet(), ldet), ("torch.logdet", lambda o: torch.logdet(o), ldet),
                                   ("iqld/red=T", lambda o: o.inv_quad_logdet(R.clone(), logdet=True, reduce_inv_quad=True), (cols.sum(-1), ldet)),
                                   ("iqld/red=F", lambda o: o.inv_quad_logdet(R.clone(), logdet=True, reduce_inv_quad=False), (cols, ldet)),
                                   ("inv_quad/red=T", lambda o: o.inv_quad(R.clone(), reduce_inv_quad=True), cols.sum(-1)),
                                   ("inv_quad/red=F", lambda o: o.inv_quad(R.clone(), reduce_inv_quad=False), cols)]
                        if quick:
                            queries = [queries[0]] + crng.sample(queries[1:], 3)
                        for qn, q, want in queries:
                            cell = base + "/" + qn
                            if self.only and self.only != cell:
                                continue
                            payload = {"cell": cell, "seed": chk.seed, "tier": chk.tier}
                            chk.case(cell + f"|{chk.seed}")
                            chk.count("cfg:history2")
                            with ExitStack() as stk:
                                stk.enter_context(settings.num_trace_samples(3))
                                stk.enter_context(settings.cg_tolerance(1e-4))
                                stk.enter_context(settings.max_cg_iterations(200))
                                try:
                                    op = replay_history()          # the history runs under the default settings
                                    if cname == "log_prob_off":
                                        stk.enter_context(settings.fast_computations(log_prob=False))
                                        stk.enter_context(settings.max_cholesky_size(2))
                                    cached = any(k[0] == "root_decomposition" for k in getattr(op, "_memoize_cache", {}))
                                    if cached and isinstance(op.root_decomposition().root, TriangularLinearOperator):
                                        chk.count("history2_cached_triangular_root")
                                    elif cached:
                                        chk.count("history2_cached_other_root")
                                    path = path_of(op, settings)
                                    got = q(op)
                                    plain = q(DenseLinearOperator(Cd.clone()))
                                except Exception as e:  # noqa
                                    chk.violation(cell + "/exception=" + exc_tag(e), f"history {hist} on {parent} raised {type(e).__name__}: {str(e)[:160]}", payload)
                                    continue
                            if isinstance(got, tuple):
                                self.lines.append(f"shape {path} {'.'.join(map(str, batch)) or '-'} mat:2 1 {int(qn.endswith('T'))}")
                                self.expect.append(("shape", cell, f"{term_desc(got[0])} {term_desc(got[1])}", ("req", True, True)))
                                pairs = list(zip(got, want, plain, ("inv_quad term", "logdet term")))
                            else:
                                pairs = [(got, want, plain, qn)]
                            bad = None
                            for g, w, pl_, nm in pairs:
                                if tuple(g.shape) != tuple(w.shape):
                                    bad = ("/shape", f"{nm}: shape {tuple(g.shape)} vs documented {tuple(w.shape)}")
                                elif not close(g.detach(), w, 1e-8) :
                                    bad = ("/value", f"{nm}: {g.detach().flatten()[:3].tolist()} vs dense {w.flatten()[:3].tolist()} "
                                           f"(plain DenseLinearOperator of the same matrix: {pl_.detach().flatten()[:3].tolist()})")
                                if bad:
                                    break
                            if bad:
                                chk.violation(cell + bad[0], f"after {hist} on {parent} batch {batch} ({cname}): " + bad[1], payload)
                            else:
                                chk.traces_validated += 1

    # ------------------------------------------------------------------ batch-broadcast right-hand sides
    def bcast_cells(self):
        """`inv_quad_rhs` whose batch shape `rb` differs from the operator's: size-1 broadcast in either direction / both, fewer or
        more batch dimensions, incompatible sizes, and a 1-D rhs on a batched operator — on the leaf code paths Cholesky shortcut (Dense,
        Chol), stochastic base class (Dense under max_cholesky_size 0), Diag, Identity; `inv_quad_logdet` with every flag combination and
        the `inv_quad` entry point.  Spec: the dense value on the broadcast batch (torch.linalg.solve on the expanded tensors), documented
        shapes `bb (+ [m])` / operator batch for the log-determinant; a rhs with another number of dimensions may raise (documented
        contract `*batch N M`) but must not return anything else than the broadcast value; incompatible shapes must raise.
        Model: Lean `shapesB` / `invQuadEntry` / `shapes … vec`, compared exactly (kinds and shapes of both terms, raise = err)."""
        from linear_operator.operators import (CholLinearOperator, DenseLinearOperator, DiagLinearOperator, IdentityLinearOperator,
                                               TriangularLinearOperator)
        chk, settings = self.chk, self.settings
        dt = torch.float64
        pairs = [((2,), (1,)), ((1,), (2,)), ((2, 3), (1, 3)), ((2, 3), (2, 1)), ((1, 3), (2, 1)), ((2, 3), (1, 1)), ((2,), (2,)),
                 ((2,), ()), ((), (2,)), ((2, 3), (3,)), ((2,), (3, 2)), ((2,), (3,)), ((2, 3), (2, 2)), ((2,), "vec")]
        if chk.tier != "quick":
            pairs += [((3, 1, 2), (1, 4, 1)), ((2, 1), (3,)), ((1, 1), (2, 3)), ((2, 2), (2,)), ((2, 2), "vec")]
        fmt = lambda s: "x".join(map(str, s)) or "-"

        def bshape(a, b):
            try:
                return tuple(torch.broadcast_shapes(tuple(a), tuple(b)))
            except RuntimeError:
                return None

        kinds = [("Dense", "chol", "chol", 800), ("Dense", "slq", "slq", 0), ("Chol", "chol", "default", 800),
                 ("Diag", "diag", "default", 800), ("Identity", "identity", "default", 800)]
        for n, m in ((3, 2), (2, 2)):      # n = m = 2 = a batch size: a wrong reduction axis does not raise by accident
            for batch, rb in pairs:
                vec = rb == "vec"
                bb = batch if vec else bshape(batch, rb)
                samelen = (not vec) and len(rb) == len(batch)
                if vec:
                    rel = "vec"
                elif bb is None:
                    rel = "clash"
                elif not samelen:
                    rel = "shorter" if len(rb) < len(batch) else "longer"
                else:
                    rel = "eq" if rb == batch else ("into" if bb == batch else ("outof" if bb == rb else "mixed"))
                for cls, leaf, cname, mc in kinds:
                    base = f"C05/bcast/{cls}/{cname}/b={fmt(batch)}/rb={'vec' if vec else fmt(rb)}/rel={rel}/n={n}/m={m}"
                    if self.only and not self.only.startswith(base):
                        continue
                    crng = random.Random(f"C05:{chk.seed}:{base}")
                    A = catalogue.psd_int(crng, batch, n, dt)
                    dvals = catalogue.ri(crng, (*batch, n), 1, 5, dt)
                    if cls in ("Diag", "Identity"):
                        A = torch.diag_embed(dvals) if cls == "Diag" else torch.eye(n, dtype=dt).expand(*batch, n, n).contiguous()
                    R = catalogue.ri(crng, (n,) if vec else (*rb, n, m), dtype=dt)

                    def build():
                        if cls == "Dense":
                            return DenseLinearOperator(A.clone())
                        if cls == "Chol":
                            return CholLinearOperator(TriangularLinearOperator(torch.linalg.cholesky(A)))
                        if cls == "Diag":
                            return DiagLinearOperator(dvals.clone())
                        return IdentityLinearOperator(n, batch_shape=torch.Size(batch), dtype=dt)

                    want_cols = None
                    if bb is not None:
                        Ab, Rb = A.expand(*bb, n, n), (R.unsqueeze(-1).expand(*bb, n, 1) if vec else R.expand(*bb, n, m))
                        want_cols = (Rb * torch.linalg.solve(Ab, Rb)).sum(-2)
                    tol = 1e-5 if leaf == "slq" else 1e-8
                    for red, lg in ((True, True), (False, True), (True, False), (False, False)):
                        cell = base + f"/red={'T' if red else 'F'}/ld={'T' if lg else 'F'}"
                        if self.only and self.only != cell:
                            continue
                        payload = {"cell": cell, "seed": chk.seed, "tier": chk.tier}
                        chk.case(cell + f"|{chk.seed}")
                        chk.count("bcast_rel:" + rel)
                        with ExitStack() as stk:
                            stk.enter_context(settings.max_cholesky_size(mc))
                            stk.enter_context(settings.num_trace_samples(3))
                            stk.enter_context(settings.max_preconditioner_size(0))
                            stk.enter_context(settings.cg_tolerance(1e-3))
                            stk.enter_context(settings.max_cg_iterations(200))
                            torch.manual_seed(crng.randrange(2 ** 31))
                            try:
                                iq, ld = build().inv_quad_logdet(R.clone(), logdet=lg, reduce_inv_quad=red)
                                exc = None
                            except Exception as e:  # noqa
                                exc = e
                            if not lg:
                                try:
                                    eq_, eexc = build().inv_quad(R.clone(), reduce_inv_quad=red), None
                                except Exception as e:  # noqa
                                    eq_, eexc = None, e
                        # ---- Lean lines
                        if vec:
                            self.lines.append(f"shape {leaf} {'.'.join(map(str, batch)) or '-'} vec {int(lg)} {int(red)}")
                        else:
                            self.lines.append(f"shapeb {leaf} {'.'.join(map(str, batch)) or '-'} {'.'.join(map(str, rb)) or '-'} {m} {int(lg)} {int(red)}")
                        self.expect.append(("shapeb", cell, "err err" if exc is not None else f"{term_desc(iq)} {term_desc(ld)}", None))
                        # ---- spec
                        may_raise = vec or not samelen or (leaf == "slq" and lg and rb != batch)
                        if vec and exc is None:
                            # a 1-D rhs on a batched operator may raise (base class, logdet=True); if it is accepted the result must be
                            # the quadratic form of every batch member: shape batch (reduced) / batch (+ [1])
                            want = want_cols.sum(-1) if red else want_cols
                            oks = [tuple(want.shape)] + ([tuple(batch)] if not red else [])
                            if iq is None or tuple(iq.shape) not in oks or not close(iq.detach().reshape(want.shape), want, tol):
                                chk.violation(cell + "/silent-accept", f"{cls} batch {batch}, 1-D rhs ({n},): inv_quad_logdet returned {term_desc(iq)} "
                                              f"{None if iq is None else iq.flatten()[:3].tolist()}; per-member quadratic forms {want.flatten()[:3].tolist()} of shape {oks[0]}", payload)
                            else:
                                chk.traces_validated += 1
                        elif bb is None or vec:
                            if exc is None:
                                chk.violation(cell + "/silent-accept", f"{cls} batch {batch}, rhs {tuple(R.shape)}: inv_quad_logdet returned {term_desc(iq)} {term_desc(ld)} "
                                              "for a right-hand side that does not broadcast", payload)
                            else:
                                chk.traces_validated += 1
                        elif exc is not None:
                            if may_raise:
                                chk.traces_validated += 1
                                chk.count("bcast_raises_documented")
                            else:
                                chk.violation(cell + "/exception=" + exc_tag(exc), f"{cls} batch {batch}, rhs batch {rb}: raised {type(exc).__name__}: {str(exc)[:140]}", payload)
                        else:
                            want = want_cols.sum(-1) if red else want_cols
                            sfx = "/silent-accept" if not samelen else None
                            if iq is None or tuple(iq.shape) != tuple(want.shape):
                                chk.violation(cell + (sfx or "/shape-iq"), f"{cls} batch {batch}, rhs {tuple(R.shape)}: inv_quad term {term_desc(iq)}, "
                                              f"broadcast value has shape {tuple(want.shape)}", payload)
                            elif not close(iq.detach(), want, tol):
                                chk.violation(cell + (sfx or "/invquad"), f"{cls} batch {batch}, rhs {tuple(R.shape)}: inv_quad {iq.flatten()[:4].tolist()} vs "
                                              f"dense {want.flatten()[:4].tolist()}", payload)
                            elif lg and (ld is None or tuple(ld.shape) != tuple(batch)):
                                chk.violation(cell + "/shape-ld", f"{cls} batch {batch}, rhs batch {rb}: logdet term {term_desc(ld)}, documented {batch}", payload)
                            elif lg and leaf != "slq" and not close(ld.detach(), torch.logdet(A), 1e-8):
                                chk.violation(cell + "/logdet", f"{cls} batch {batch}, rhs batch {rb}: logdet {ld.flatten()[:3].tolist()} vs {torch.logdet(A).flatten()[:3].tolist()}", payload)
                            else:
                                chk.traces_validated += 1
                        # ---- inv_quad entry point (once per reduce flag)
                        if not lg and not vec:
                            ecell = base + f"/red={'T' if red else 'F'}/inv_quad()"
                            chk.case(ecell + f"|{chk.seed}")
                            self.lines.append(f"iqshape {'.'.join(map(str, batch)) or '-'} {'.'.join(map(str, rb)) or '-'} {m} {int(red)}")
                            self.expect.append(("shapeb", ecell, "err" if eexc is not None else term_desc(eq_), None))
                            if bb is None:
                                if eexc is None:
                                    chk.violation(ecell + "/silent-accept", f"{cls}.inv_quad accepted batch {batch} with rhs batch {rb}: {term_desc(eq_)}", payload)
                                else:
                                    chk.traces_validated += 1
                            elif eexc is not None:
                                chk.violation(ecell + "/exception=" + exc_tag(eexc), f"{cls}.inv_quad batch {batch}, rhs batch {rb}: raised {type(eexc).__name__}: {str(eexc)[:140]}", payload)
                            else:
                                want = want_cols.sum(-1) if red else want_cols
                                if tuple(eq_.shape) != tuple(want.shape):
                                    chk.violation(ecell + "/shape", f"{cls}.inv_quad batch {batch}, rhs batch {rb}: shape {tuple(eq_.shape)} vs broadcast {tuple(want.shape)}", payload)
                                elif not close(eq_.detach(), want, tol):
                                    chk.violation(ecell + "/value", f"{cls}.inv_quad batch {batch}, rhs batch {rb}: {eq_.flatten()[:4].tolist()} vs {want.flatten()[:4].tolist()}", payload)
                                else:
                                    chk.traces_validated += 1

    # ------------------------------------------------------------------ the clamp of Kronecker `_logdet`, near and below 1e-7
    def clamp_cells(self):
        """`KroneckerProductLinearOperator._logdet` = `evals.clamp(min=1e-7).log().sum(-1)`.  Factors are integer PD matrices times a scale:
        * `near`  — every product eigenvalue lies in (1e-7, 1e-2): the clamp is inactive, the value must be the exact log-determinant
          (a threshold raised to 1e-2 … 1e-6 would show); theorem `kronLogdetN_eq`;
        * `active` — some product eigenvalues are below 1e-7: the value is Σ log(max(λ, 1e-7)) (theorem `kronLogdetN_clamped`): compared with
          that formula on independent float64 eigenvalues of the factors, and it must be strictly above the exact log-determinant.
        Both are compared with the Lean `kronLogdetN` (Float instance, clamp 1e-7) on the eigenvalues `_symeig` returned (1e-9)."""
        from linear_operator.operators import DenseLinearOperator, KroneckerProductLinearOperator
        chk = self.chk
        dt = torch.float64
        for kind, scales in (("near", (1e-2, 1e-2)), ("near3", (1e-1, 1e-2, 1e-1)), ("active", (1e-4, 1e-4)), ("active3", (1e-3, 1e-3, 1e-3))):
            for batch in ((), (2,)):
                base = f"C05/clamp/Kronecker[{len(scales)}]/{kind}/b={'x'.join(map(str, batch)) or '-'}"
                if self.only and not self.only.startswith(base):
                    continue
                crng = random.Random(f"C05:{chk.seed}:{base}")
                sizes = [2, 3, 2][:len(scales)]
                facs = [catalogue.psd_int(crng, batch, k, dt) * s for k, s in zip(sizes, scales)]
                evs = [torch.linalg.eigvalsh(f) for f in facs]
                prod = evs[0]
                for e in evs[1:]:
                    prod = (prod.unsqueeze(-1) * e.unsqueeze(-2)).reshape(*batch, -1)
                exact = prod.log().sum(-1)
                clamped = prod.clamp(min=1e-7).log().sum(-1)
                is_active = bool((prod < 1e-7).any())
                if is_active != kind.startswith("active") or bool(((prod - 1e-7).abs() < 1e-9).any()):
                    continue   # the generated instance is not of the advertised kind (not reached with these scales)
                for entry in ("_logdet", "logdet()", "inv_quad_logdet"):
                    cell = base + "/" + entry
                    if self.only and self.only != cell:
                        continue
                    payload = {"cell": cell, "seed": chk.seed, "tier": chk.tier}
                    chk.case(cell + f"|{chk.seed}")
                    chk.count("clamp:" + kind)
                    op = KroneckerProductLinearOperator(*[DenseLinearOperator(f.clone()) for f in facs])
                    try:
                        got = {"_logdet": lambda: op._logdet(), "logdet()": lambda: op.logdet(),
                               "inv_quad_logdet": lambda: op.inv_quad_logdet(None, logdet=True)[1]}[entry]()
                    except Exception as e:  # noqa
                        chk.violation(cell + "/exception=" + exc_tag(e), f"raised {type(e).__name__}: {str(e)[:140]}", payload)
                        continue
                    want = clamped if is_active else exact
                    if tuple(got.shape) != tuple(batch):
                        chk.violation(cell + "/shape", f"shape {tuple(got.shape)} vs {batch}", payload)
                    elif not close(got.detach(), want, 1e-8):
                        chk.violation(cell + "/logdet", f"Kronecker {entry} {got.flatten()[:3].tolist()} vs {'clamped spectrum' if is_active else 'exact'} "
                                      f"{want.flatten()[:3].tolist()} (smallest product eigenvalue {float(prod.min()):.3g})", payload)
                    elif is_active and not bool((got.detach() > exact + 1e-6)[(prod < 1e-7).any(-1)].all()):   # every member whose clamp is active
                        chk.violation(cell + "/clamp-not-above", f"clamped value {got.flatten()[:3].tolist()} is not above the exact log-determinant {exact.flatten()[:3].tolist()}", payload)
                    else:
                        chk.traces_validated += 1
                    if entry == "_logdet":
                        try:
                            first = lambda t: members(t.detach().double(), len(batch))[0]
                            ievs = [first(lt._symeig(eigenvectors=True)[0]) for lt in op.linear_ops]
                            self.lines.append("kronlogdet " + ";".join(",".join(fmt_rat(float(x)) for x in v.tolist()) for v in ievs))
                            self.expect.append(("float", cell + "/kronN", float(first(got)) if batch else float(got), 1e-9))
                        except Exception as e:  # noqa
                            chk.corr_break(cell + "/kron-model/exception", f"{type(e).__name__}: {str(e)[:160]}", payload)

    # ------------------------------------------------------------------ one case
    def one(self, cell, it, orc, dtype, batch, N, cname, cfg, rk, R, red, lg):
        chk, settings = self.chk, self.settings
        f32 = dtype == torch.float32
        payload = {"cell": cell, "seed": chk.seed, "tier": chk.tier}
        chk.case(cell + f"|{chk.seed}", nontrivial=(N > 1 and it.name != "Identity"))
        chk.count("cfg:" + cname)
        chk.count("rhs:" + rk)
        negdet = "negdet" in it.tags
        crng = random.Random(f"C05:{chk.seed}:{cell}")  # per-cell randomness: a replay of one cell sees the same values
        with ExitStack() as stk:
            m, budget = enter(stk, settings, cfg, N, crng)
            torch.manual_seed(crng.randrange(2 ** 31))
            op = it.build(lambda t: t.clone().requires_grad_(True) if t.is_floating_point() else t.clone())
            chk.count("cls:" + type(op).__name__)
            if cfg.get("cached_root"):
                # a cached *triangular* root must be re-used by the Cholesky shortcut; with max_cholesky_size 0 the shortcut is
                # not taken, so this only checks that the cache does not disturb the stochastic path
                try:
                    with settings.max_cholesky_size(800):
                        op.root_decomposition()
                except Exception:
                    pass
            path = path_of(op, settings)
            self.rec.calls.clear()
            try:
                iq, ld = op.inv_quad_logdet(None if R is None else R.clone(), logdet=lg, reduce_inv_quad=red)
                exc = None
            except Exception as e:  # noqa
                exc = e
            # ---- Lean shape model line (always, also for raising cases)
            rhs_d = "absent" if R is None else ("vec" if R.dim() == 1 else f"mat:{R.shape[-1]}")
            self.lines.append(f"shape {path} {'.'.join(map(str, batch)) or '-'} {rhs_d} {int(lg)} {int(red)}")
            if exc is not None:
                tag = exc_tag(exc)
                self.expect.append(("shape", cell, "err err", cell + "/exception=" + tag))
                chk.violation(cell + "/exception=" + tag, f"inv_quad_logdet raised {type(exc).__name__}: {str(exc)[:160]}", payload)
                return
            self.expect.append(("shape", cell, f"{term_desc(iq)} {term_desc(ld)}", ("req", R is not None, lg)))
            node = find_slq_node(iq, ld)
            stoch = node is not None
            chk.count("path:" + ("stochastic" if stoch else "deterministic"))
            want_stoch = lg and stochastic_expected(path)
            if stoch != want_stoch and not (stoch and not lg):
                chk.corr_break(cell + "/path", f"model path {path} expects stochastic={want_stoch}, implementation stochastic={stoch}", payload)
            # ---- tolerances
            lanczos_root = (cfg.get("max_chol") == 0 or cfg.get("max_chol") == "n-1") and any(
                k in ("SumKroneckerLinearOperator", "MulLinearOperator") for k in class_tree(op))
            tol_det = 2e-3 if f32 else (1e-3 if lanczos_root else 1e-8)
            cg_based = (cfg.get("max_chol") in (0, "n-1")) and cfg.get("log_prob") is not False
            tol_iq = 5e-3 if f32 else (1e-3 if lanczos_root else (1e-5 if cg_based else 1e-8))
            # ---- inverse quadratic form
            if R is not None:
                Rm = R if R.dim() > 1 else R.unsqueeze(-1)
                cols, sols = orc.inv_quad_cols(Rm)
                mcols = Rm.shape[-1]
                if red:
                    ok_shapes = [batch]
                    want = cols.sum(-1)
                elif R.dim() == 1:
                    ok_shapes = [batch + (1,), batch]  # vector rhs, reduce off: (…,1) or (…) both documented readings
                    want = cols
                else:
                    ok_shapes = [batch + (mcols,)]
                    want = cols
                if iq is None or tuple(iq.shape) not in ok_shapes:
                    chk.violation(cell + "/shape-iq", f"inv_quad term {term_desc(iq)}, documented {ok_shapes[0]}", payload)
                elif not negdet and not close(iq.detach().reshape(want.shape), want, tol_iq):
                    chk.violation(cell + "/invquad", f"inv_quad {iq.detach().flatten()[:4].tolist()} vs exact {want.flatten()[:4].tolist()} (tol {tol_iq})", payload)
                else:
                    chk.traces_validated += 1
                    if not f32 and R.dim() > 1 and not red and not negdet and len(self.lines) < self.line_cap():
                        # Lean: column sums from the exact solves, and the reduction of the implementation's own columns
                        x, rf = sols[0]
                        self.lines.append("iq " + ";".join(",".join(fmt_rat(v) for v in row) for row in x) + " " + ";".join(",".join(fmt_rat(v) for v in row) for row in rf))
                        first = members(iq.detach().double(), len(batch))[0]
                        self.expect.append(("iq", cell, first, tol_iq))
                if iq is not None and iq.dtype != dtype:
                    chk.violation(cell + "/dtype-iq", f"inv_quad dtype {iq.dtype} for operator dtype {dtype}", payload)
            # ---- log-determinant
            if lg:
                exact = orc.logdet()
                if ld is None or tuple(ld.shape) != batch:
                    chk.violation(cell + "/shape-ld", f"logdet term {term_desc(ld)}, documented {batch}", payload)
                elif cfg.get("skip"):
                    chk.count("skip_logdet_forward")
                elif stoch:
                    self.check_slq(cell, payload, op, orc, node, ld, m, budget, N, batch, f32, cfg)
                else:
                    if not close(ld.detach(), exact, tol_det):
                        chk.violation(cell + "/logdet", f"logdet {ld.detach().flatten()[:4].tolist()} vs exact {exact.flatten()[:4].tolist()} (tol {tol_det})", payload)
                    else:
                        chk.traces_validated += 1
                if ld is not None and ld.dtype != dtype:
                    chk.violation(cell + "/dtype-ld", f"logdet dtype {ld.dtype} for operator dtype {dtype}", payload)
            # ---- the other entry points must agree with inv_quad_logdet (same settings, fresh operators)
            if cname in ("default", "chol=n", "nofast") and lg and rk == "none" and red:
                self.entry_points(cell, payload, it, orc, R, tol_det, batch, negdet)
            if cname in ("default", "slq") and R is not None and not lg and not negdet and "nonsym" not in it.tags:
                self.entry_inv_quad(cell, payload, it, orc, R, red, tol_iq, batch)
            # ---- Kronecker models (any number of factors): eigenvalue assembly, log-determinant branches, sequential solve
            if not f32 and cname in ("default", "chol=n", "slq") and rk in ("none", "mat") and red and lg and ld is not None and not stoch:
                self.kron_models(cell, payload, op, batch, R, ld)
            # ---- block reduction model: per-block log-determinants of the base operator
            if lg and not stoch and not f32 and cname == "default" and type(op).__name__ in ("BlockDiagLinearOperator", "BlockInterleavedLinearOperator") and ld is not None:
                try:
                    per = op.base_linear_op.logdet().detach().double()
                    pm = members(per, len(batch)) if batch else per.unsqueeze(0)
                    self.lines.append("block " + ",".join(fmt_rat(float(v)) for v in pm[0].tolist()))
                    self.expect.append(("scalar", cell, float(members(ld.detach().double(), len(batch))[0]) if batch else float(ld), 1e-9))
                except Exception:
                    pass

    def kron_models(self, cell, payload, op, batch, R, ld):
        """Lean models `kronLogdetN`, `kronDiag`, `kpadloKronConstLogdet`, `kpadloSymmLogdet`, `kronSolve` + `kronInvQuadCols` on the
        primitives' outputs the implementation itself uses (factor eigenvalues from `_symeig`, exact inverses of the integer
        factors) vs what the implementation returns (`_logdet()`, `diagonalization()`, `_solve`), batch member 0."""
        from linear_operator.operators import (ConstantDiagLinearOperator, KroneckerProductAddedDiagLinearOperator,
                                               KroneckerProductDiagLinearOperator, KroneckerProductLinearOperator)
        chk, settings = self.chk, self.settings
        if len(self.lines) >= self.line_cap():
            return
        first = lambda t: members(t.detach().double(), len(batch))[0]
        rows = lambda vs: ";".join(",".join(fmt_rat(float(x)) for x in v.tolist()) for v in vs)
        ld0 = float(first(ld)) if batch else float(ld)
        try:
            if type(op) is KroneckerProductLinearOperator and all(lt.is_square for lt in op.linear_ops):
                evs = [first(lt._symeig(eigenvectors=True)[0]) for lt in op.linear_ops]
                self.lines.append("kronlogdet " + rows(evs))
                self.expect.append(("float", cell + "/kronN", ld0, 1e-9))
                full = first(op.diagonalization()[0])
                self.lines.append("krondiag " + rows(evs))
                self.expect.append(("ratlist", cell + "/krondiag", full, 1e-12))
                chk.count(f"kron_model_factors={len(evs)}")
                if R is not None and R.dim() > 1:
                    facs = [first(lt.to_dense()) for lt in op.linear_ops]
                    invs = []
                    for f in facs:
                        _, _, x = exact_logdet_and_solve(f, torch.eye(f.shape[-1], dtype=torch.float64))
                        invs.append(x)
                    R0 = first(R)
                    sol = first(op._solve(R.clone().double()))
                    self.lines.append("kronsolve " + ",".join(str(f.shape[-1]) for f in facs) + " "
                                      + "|".join(";".join(",".join(fmt_rat(v) for v in r) for r in x) for x in invs) + " " + rows(R0))
                    self.expect.append(("kronsolve", cell + "/kronsolve", sol, 1e-8))
            elif isinstance(op, KroneckerProductAddedDiagLinearOperator) and not op._diag_is_constant \
                    and op.shape[-1] >= settings.max_cholesky_size.value() and isinstance(op.diag_tensor, KroneckerProductDiagLinearOperator):
                lt, dlt = op.linear_op, op.diag_tensor
                if len(lt.linear_ops) == len(dlt.linear_ops) and all(isinstance(d, ConstantDiagLinearOperator) for d in dlt.linear_ops):
                    ev_lazy, _ = lt._symeig(eigenvectors=True, return_evals_as_lazy=True)
                    evs = [first(e._diagonal()) for e in ev_lazy.linear_ops]
                    consts = [float(first(d.diag_values).reshape(-1)[0]) for d in dlt.linear_ops]
                    self.lines.append("kpadloconst " + rows(evs) + " " + ",".join(fmt_rat(c) for c in consts))
                    self.expect.append(("float", cell + "/kpadlo-kronconst", float(first(op._logdet())) if batch else float(op._logdet()), 1e-9))
                    chk.count("kpadlo_branch:kronconst")
                else:
                    ds = [first(d._diagonal()) for d in dlt.linear_ops]
                    ks = [first(k.to_dense()) for k in lt.linear_ops]
                    sev = [torch.linalg.eigvalsh(k / d.sqrt().unsqueeze(-1) / d.sqrt().unsqueeze(-2)) for k, d in zip(ks, ds)]
                    self.lines.append("kpadlosymm " + rows(sev) + " " + rows(ds))
                    self.expect.append(("float", cell + "/kpadlo-symm", float(first(op._logdet())) if batch else float(op._logdet()), 1e-9))
                    chk.count("kpadlo_branch:symm")
        except Exception as e:  # the implementation raising here is reported by the main path; a harness problem must not hide
            chk.corr_break(cell + "/kron-model/exception", f"{type(e).__name__}: {str(e)[:160]}", payload)

    def line_cap(self):
        return 1500 if self.chk.tier == "quick" else 6000

    def check_slq(self, cell, payload, op, orc, node, ld, m, budget, N, batch, f32, cfg):
        chk = self.chk
        pv, pn = node.probe_vectors, node.probe_vector_norms
        nrm = pv.double().norm(dim=-2)
        if pv.shape[-1] != m or not bool(((nrm - 1).abs() < (1e-4 if f32 else 1e-10)).all()):
            chk.violation(cell + "/probes", f"probes shape {tuple(pv.shape)} (expected m={m} columns) or not unit norm {nrm.flatten()[:3].tolist()}", payload)
            return
        P = None
        if cfg.get("precond"):
            try:
                _, plt, ldp = op._preconditioner()
            except Exception:
                plt = None
            if plt is not None:
                P = plt.to_dense().detach().double()
                want_ldp = torch.tensor([np.linalg.slogdet(p)[1] for p in members(P.expand(*batch, N, N), len(batch)).numpy()]).reshape(batch)
                if not close(torch.as_tensor(ldp).detach().double().expand(batch) if batch else torch.as_tensor(ldp).detach().double().reshape(()), want_ldp, 1e-8):
                    chk.violation(cell + "/logdet_p", f"preconditioner log-determinant {torch.as_tensor(ldp).flatten()[:3].tolist()} vs log|P| {want_ldp.flatten()[:3].tolist()}", payload)
                    return
                chk.count("preconditioned")
        A_node, combine = orc.A, (lambda x: x)
        cls = type(op).__name__
        if tuple(pv.shape[-2:]) != (N, m) and cls in ("BlockDiagLinearOperator", "BlockInterleavedLinearOperator", "BatchRepeatLinearOperator"):
            # the probes belong to the operator that finally takes the stochastic path: descend through Block / BatchRepeat wrappers
            # (any nesting) until the row count fits; the estimate is summed over blocks / repeated on the way back up
            A_node, combine = unwrap_for_probes(op, orc.A, pv.shape[-2], tuple(pv.shape[:-2]))
            Nn = A_node.shape[-1]
            if tuple(pv.shape[-2:]) != (Nn, m) or tuple(pv.shape[:-2]) not in (tuple(A_node.shape[:-2]), ()):
                chk.violation(cell + "/probes", f"probes shape {tuple(pv.shape)} does not fit the wrapped operator {tuple(A_node.shape)} with m={m}", payload)
                return
        elif tuple(pv.shape[-2:]) != (N, m):
            chk.violation(cell + "/probes", f"probes shape {tuple(pv.shape)} (expected (...,{N},{m}))", payload)
            return
        want = combine(slq_expected(A_node, pv.detach(), P, budget))
        tol = 5e-3 if f32 else 1e-6
        if not close(ld.detach(), want, tol):
            chk.violation(cell + "/slq", f"stochastic logdet {ld.detach().flatten()[:3].tolist()} is not the Gauss-Lanczos quadrature {want.flatten()[:3].tolist()} "
                          f"of its own probes (m={m}, budget={budget}, exact {orc.logdet().flatten()[:3].tolist()})", payload)
            return
        chk.traces_validated += 1
        chk.count("slq_quadrature_checked")
        # Lean model of StochasticLQ.to_dense on the recorded eigendecompositions
        if self.rec.calls and not f32 and len(self.lines) < self.line_cap():
            mshape, evals, evecs, res = self.rec.calls[-1]
            mm = evals.shape[0]
            ev = evals.reshape(mm, -1, evals.shape[-1])[:, 0].double()
            v0 = evecs.reshape(mm, -1, *evecs.shape[-2:])[:, 0, 0, :].double()
            fth = ev.log()
            if bool(torch.isfinite(fth).all()):
                c = Fraction(mshape[-1]) / Fraction(mm)
                self.lines.append(f"slq {fmt_rat(c)} " + ";".join(",".join(fmt_rat(float(v)) for v in r) for r in v0.tolist()) + " "
                                  + ";".join(",".join(fmt_rat(float(v)) for v in r) for r in fth.tolist()))
                self.expect.append(("scalar", cell, float(res.reshape(-1)[0]), 1e-9))

    def entry_points(self, cell, payload, it, orc, R, tol, batch, negdet):
        chk = self.chk
        exact = orc.logdet()
        for name, fn in (("logdet()", lambda o: o.logdet()), ("torch.logdet", lambda o: torch.logdet(o))):
            try:
                got = fn(it.build())
            except Exception as e:
                chk.violation(cell + f"/{name}/exception={exc_tag(e)}", f"{name} raised {type(e).__name__}: {str(e)[:120]}", payload)
                continue
            if find_slq_node(got) is not None:
                continue
            if tuple(got.shape) != batch:
                chk.violation(cell + f"/{name}/shape", f"{name} shape {tuple(got.shape)} vs {batch}", payload)
            elif not close(got.detach(), exact, tol):
                chk.violation(cell + f"/{name}/value", f"{name} {got.flatten()[:3].tolist()} vs exact {exact.flatten()[:3].tolist()}", payload)
            else:
                chk.traces_validated += 1

    def entry_inv_quad(self, cell, payload, it, orc, R, red, tol, batch):
        chk = self.chk
        Rm = R if R.dim() > 1 else R.unsqueeze(-1)
        cols, _ = orc.inv_quad_cols(Rm)
        want = cols.sum(-1) if red else cols
        try:
            got = it.build().inv_quad(R.clone(), reduce_inv_quad=red)
        except Exception as e:
            chk.violation(cell + f"/inv_quad()/exception={exc_tag(e)}", f"inv_quad raised {type(e).__name__}: {str(e)[:120]}", payload)
            return
        shapes = [tuple(want.shape)] + ([batch] if (R.dim() == 1 and not red) else [])
        if tuple(got.shape) not in shapes:
            chk.violation(cell + "/inv_quad()/shape", f"inv_quad shape {tuple(got.shape)} vs documented {shapes[0]}", payload)
        elif not close(got.detach().reshape(want.shape), want, tol):
            chk.violation(cell + "/inv_quad()/value", f"inv_quad {got.flatten()[:3].tolist()} vs exact {want.flatten()[:3].tolist()}", payload)
        else:
            chk.traces_validated += 1

    # ------------------------------------------------------------------ Lean models
    def run_model(self):
        chk = self.chk
        outs = chk.run_driver("C05", self.lines)
        if outs is None:
            return
        for o, (kind, cell, want, tol) in zip(outs, self.expect):
            pl = {"cell": cell, "seed": chk.seed, "tier": chk.tier}
            if kind == "shapeb":
                # exact: kinds and shapes of both terms; a raise is `err` (the model's `err err` = the call raises)
                if o == want or (o.startswith("err") and want.startswith("err")):
                    chk.traces_validated += 1
                    chk.count("bcast_model_agree")
                else:
                    chk.corr_break(cell + "/shape-model", f"Lean broadcast shape model says '{o}', implementation returned '{want}'", pl)
                continue
            if kind == "shape":
                if o == want or (isinstance(tol, tuple) and same_terms(o, want, tol[1], tol[2])):
                    chk.traces_validated += 1
                    chk.count("shape_model_agree")
                elif o.startswith("err") and want.startswith("err"):
                    chk.traces_validated += 1
                elif want.startswith("err") and isinstance(tol, str) and chk.known(tol) is not None:
                    # the model describes the patched behaviour (notes/C05_fix_*.diff); the unpatched implementation raises
                    # in a cell that is an open finding: already counted there
                    chk.count("model_patched_impl_open_finding")
                else:
                    chk.corr_break(cell + "/shape-model", f"Lean shape model says '{o}', implementation returned '{want}'", pl)
            elif kind == "scalar":
                try:
                    got = float(Fraction(o))
                except Exception:
                    chk.corr_break(cell + "/model", f"driver output {o[:80]}", pl)
                    continue
                if abs(got - want) <= tol * (1 + abs(want)):
                    chk.traces_validated += 1
                    chk.count("value_model_agree")
                else:
                    chk.corr_break(cell + "/value-model", f"Lean model value {got} vs implementation {want}", pl)
            elif kind == "float":
                try:
                    mant, ex = o.split(":")
                    got = int(mant) * 2.0 ** int(ex)
                except Exception:
                    chk.corr_break(cell + "/model", f"driver output {o[:80]}", pl)
                    continue
                if abs(got - want) <= tol * (1 + abs(want)):
                    chk.traces_validated += 1
                    chk.count("kron_value_model_agree")
                else:
                    chk.corr_break(cell + "/value-model", f"Lean model value {got} vs implementation {want}", pl)
            elif kind == "ratlist":
                try:
                    got = torch.tensor([float(Fraction(x)) for x in o.split(",")], dtype=torch.float64)
                except Exception:
                    chk.corr_break(cell + "/model", f"driver output {o[:80]}", pl)
                    continue
                if got.shape == want.shape and close(got, want, tol):   # same ORDER as the implementation's eigenvalue vector
                    chk.traces_validated += 1
                    chk.count("krondiag_model_agree")
                else:
                    chk.corr_break(cell + "/value-model", f"Lean kronDiag {got.tolist()[:6]} vs implementation {want.tolist()[:6]}", pl)
            elif kind == "kronsolve":
                try:
                    solm, _cols = o.split(" ")
                    got = torch.tensor([[float(Fraction(x)) for x in r.split(",")] for r in solm.split(";")], dtype=torch.float64)
                except Exception:
                    chk.corr_break(cell + "/model", f"driver output {o[:80]}", pl)
                    continue
                if got.shape == want.shape and close(got, want, tol):
                    chk.traces_validated += 1
                    chk.count("kronsolve_model_agree")
                else:
                    chk.corr_break(cell + "/value-model", f"Lean kronSolve {got.flatten().tolist()[:6]} vs implementation _solve {want.flatten().tolist()[:6]}", pl)
            elif kind == "iq":
                try:
                    colsm, redm = o.split(" ")
                    got = torch.tensor([float(Fraction(x)) for x in colsm.split(",")], dtype=torch.float64)
                    redv = float(Fraction(redm))
                except Exception:
                    chk.corr_break(cell + "/model", f"driver output {o[:80]}", pl)
                    continue
                if close(got, want, tol) and abs(redv - float(want.sum())) <= tol * (1 + abs(redv)):
                    chk.traces_validated += 1
                    chk.count("invquad_model_agree")
                else:
                    chk.corr_break(cell + "/iq-model", f"Lean inv_quad columns {got.tolist()} vs implementation {want.tolist()}", pl)


def replay(chk, payload):
    p = payload.get("payload") or {}
    cell = p.get("cell")
    if not cell:
        print("replay names broken obligations/correspondence only:", json.dumps(p)[:1500])
        return run(chk)
    chk.rng = random.Random(f"C05:{p.get('seed', 0)}")
    chk.tier = p.get("tier", chk.tier)
    if cell.startswith("C05/clamp/"):
        return run(chk, only="/".join(cell.split("/")[:6]))
    if cell.startswith("C05/hist2:"):
        parts = cell.split("/")
        return run(chk, only="/".join(parts[:6] if parts[4] in ("iqld", "inv_quad") else parts[:5]))
    if cell.startswith("C05/bcast/"):
        parts = cell.split("/")
        return run(chk, only="/".join(parts[:9] + (["red=T", "ld=F"] if parts[10:11] == ["inv_quad()"] and parts[9] == "red=T"
                                                     else ["red=F", "ld=F"] if parts[10:11] == ["inv_quad()"] else parts[9:11])))
    run(chk, only="/".join(cell.split("/")[:6]))
