"""C01 Part II — differential correspondence between the Lean model (LinOp/C01/Model.lean, run through
LinOp/C01/Driver.lean on exact rationals) and the real implementation on the mirrored code paths, including
internal observables (`_matmul`, `_t_matmul`, `_add_batch_dim`, `_remove_batch_dim`, the per-factor states of the
Kronecker loop, `_move_repeat_batches_to_columns`, `_expand`, `left_interp`, `left_t_interp`)."""
import warnings
from fractions import Fraction

import torch

from .. import catalogue as cat
from ..common import fmt_mat


def M(t):
    """2-D tensor -> protocol matrix"""
    t = t.detach().to(torch.float64)
    return fmt_mat([[Fraction(v) for v in row] for row in t.tolist()])


def T3(t):
    return " | ".join(M(t[i]) for i in range(t.shape[0]))


def ri(rng, shape, lo=-3, hi=3, dtype=torch.float64):
    return cat.ri(rng, shape, lo, hi, dtype)


def cases(rng, tier):
    """yield (cell, driver line, impl thunk -> canonical string (or (string, tol-compare spec)))"""
    from linear_operator.operators import (
        AddedDiagLinearOperator, BatchRepeatLinearOperator, BlockDiagLinearOperator, BlockInterleavedLinearOperator,
        CatLinearOperator, CholLinearOperator, ConstantMulLinearOperator, DenseLinearOperator, DiagLinearOperator,
        InterpolatedLinearOperator, KroneckerProductLinearOperator, LinearOperator, MaskedLinearOperator, MulLinearOperator,
        PermutationLinearOperator, RootLinearOperator, SumBatchLinearOperator, ToeplitzLinearOperator,
        TransposePermutationLinearOperator, TriangularLinearOperator,
    )
    from linear_operator.utils.interpolation import left_interp, left_t_interp
    reps = 3 if tier == "quick" else 25
    out = []
    dts = [torch.float64, torch.float32]

    class Logged(DenseLinearOperator):
        log = None

        def _matmul(self, rhs):
            if Logged.log is not None:
                Logged.log.append(rhs.reshape(-1, Logged.ncols).clone())
            return super()._matmul(rhs)

    class LoggedT(DenseLinearOperator):
        log = None

        def _t_matmul(self, rhs):
            if LoggedT.log is not None:
                LoggedT.log.append(rhs.reshape(-1, LoggedT.ncols).clone())
            return super()._t_matmul(rhs)

    UM = cat._user_minimal_class()
    for rep in range(reps):
        dt = dts[rep % 2]
        c = rng.choice([1, 2, 3])
        # ---- Kronecker: 2-3 rectangular factors
        nf = rng.choice([2, 3])
        dims = [(rng.randint(1, 3), rng.randint(1, 3)) for _ in range(nf)]
        fs = [ri(rng, d, dtype=dt) for d in dims]
        rows = 1
        cols = 1
        for (m, n) in dims:
            rows *= m
            cols *= n
        X = ri(rng, (cols, c), dtype=dt)
        Y = ri(rng, (rows, c), dtype=dt)
        fw = " ".join(M(f) for f in fs)
        shp = "x".join(f"{m}.{n}" for m, n in dims)
        out.append((f"C01/corr/kron[P={nf}|{shp}]/_matmul", f"kron {M(X)} {fw}", lambda fs=fs, X=X: M(KroneckerProductLinearOperator(*[f.clone() for f in fs])._matmul(X.clone()))))
        out.append((f"C01/corr/kron[P={nf}|{shp}]/_t_matmul", f"kront {M(Y)} {fw}", lambda fs=fs, Y=Y: M(KroneckerProductLinearOperator(*[f.clone() for f in fs])._t_matmul(Y.clone()))))
        out.append((f"C01/corr/kron[P={nf}|{shp}]/to_dense", f"krondense {fw}", lambda fs=fs: M(KroneckerProductLinearOperator(*[f.clone() for f in fs]).to_dense())))

        def trace(fs=fs, X=X, c=c):
            Logged.log = []
            Logged.ncols = c
            try:
                res = KroneckerProductLinearOperator(*[Logged(f.clone()) for f in fs])._matmul(X.clone())
                states = list(Logged.log) + [res]
            finally:
                Logged.log = None
            return " | ".join(M(s) for s in states)
        out.append((f"C01/corr/kron[P={nf}|{shp}]/per-factor-states", f"krontrace {M(X)} {fw}", trace))
        def ttrace(fs=fs, Y=Y, c=c):
            LoggedT.log = []
            LoggedT.ncols = c
            try:
                res = KroneckerProductLinearOperator(*[LoggedT(f.clone()) for f in fs])._t_matmul(Y.clone())
                states = list(LoggedT.log) + [res]
            finally:
                LoggedT.log = None
            return " | ".join(M(s) for s in states)
        out.append((f"C01/corr/kron[P={nf}|{shp}]/_t_matmul-per-factor-states", f"kronttrace {M(Y)} {fw}", ttrace))
        # ---- batch broadcasting: shapes and which operand members an output member reads
        def rshape(maxlen=3):
            return [rng.choice([1, 1, 2, 3]) for _ in range(rng.randint(0, maxlen))]
        sa, sb = rshape(), rshape()
        if rng.random() < 0.6:  # make them compatible most of the time
            out_ = [rng.choice([2, 3]) for _ in range(max(len(sa), len(sb)))]
            sa = [o if rng.random() < 0.6 else 1 for o in out_[len(out_) - len(sa):]]
            sb = [o if rng.random() < 0.6 else 1 for o in out_[len(out_) - len(sb):]]
        fs_ = lambda l: ",".join(map(str, l)) if l else "-"

        def bshape(sa=sa, sb=sb):
            try:
                return fs_(list(torch.broadcast_shapes(tuple(sa), tuple(sb))))
            except RuntimeError:
                return "error"
        out.append((f"C01/corr/broadcast[ra={len(sa)}|rb={len(sb)}]/broadcast_shapes", f"bshape {fs_(sa)} {fs_(sb)}", bshape))
        mm, nn_, pp = rng.randint(1, 3), rng.randint(1, 3), rng.randint(1, 3)
        n2 = nn_ if rng.random() < 0.8 else nn_ + 1

        def mshape(sa=sa, sb=sb, mm=mm, nn_=nn_, n2=n2, pp=pp):
            from linear_operator.utils.broadcasting import _matmul_broadcast_shape
            try:
                return fs_(list(_matmul_broadcast_shape(torch.Size((*sa, mm, nn_)), torch.Size((*sb, n2, pp)))))
            except RuntimeError:
                return "error"
        out.append((f"C01/corr/broadcast[ra={len(sa)}|rb={len(sb)}]/_matmul_broadcast_shape", f"mshape {fs_(sa)} {mm} {nn_} {fs_(sb)} {n2} {pp}", mshape))

        def mshapevec(sa=sa, mm=mm, nn_=nn_, n2=n2):
            from linear_operator.utils.broadcasting import _matmul_broadcast_shape
            try:
                return fs_(list(_matmul_broadcast_shape(torch.Size((*sa, mm, nn_)), torch.Size((n2,)))))
            except RuntimeError:
                return "error"
        out.append((f"C01/corr/broadcast[ra={len(sa)}]/_matmul_broadcast_shape-1D", f"mshapevec {fs_(sa)} {mm} {nn_} {n2}", mshapevec))
        try:
            ob = list(torch.broadcast_shapes(tuple(sa), tuple(sb)))
        except RuntimeError:
            ob = None
        if ob is not None:
            # output member idx of (Kronecker operator with batch sa) @ (rhs with batch sb) equals the dense product of
            # the operand members the MODEL's `restrict` names
            idx = [rng.randrange(o) for o in ob]
            Ka, Kb = ri(rng, (*sa, 2, 2), dtype=dt), ri(rng, (*sa, mm, nn_), dtype=dt)
            Xk = ri(rng, (*sb, 2 * nn_, pp), dtype=dt)
            for which, shp_ in (("op", sa), ("rhs", sb)):
                def member(model, which=which, shp_=shp_, idx=idx, Ka=Ka, Kb=Kb, Xk=Xk, sa=sa, sb=sb):
                    r = [int(v) for v in model.split(",")] if model != "-" else []
                    if len(r) != len(shp_) or any(v >= s_ for v, s_ in zip(r, shp_)):
                        return False
                    res = KroneckerProductLinearOperator(Ka.clone(), Kb.clone()) @ Xk.clone()
                    got = res[tuple(idx)]
                    ra = r if which == "op" else None
                    # the other operand's member: torch semantics computed independently
                    def tr(shape):
                        k = len(idx) - len(shape)
                        return [0 if s_ == 1 else i for s_, i in zip(shape, idx[k:])]
                    ia = r if which == "op" else tr(sa)
                    ib = r if which == "rhs" else tr(sb)
                    dense = cat.kron(Ka, Kb)
                    return torch.equal(got, dense[tuple(ia)] @ Xk[tuple(ib)])
                out.append((f"C01/corr/broadcast[ra={len(sa)}|rb={len(sb)}]/member-of-{which}", f"brestrict {fs_(shp_)} {fs_(idx)}", ("check", member)))
        # ---- BlockLinearOperator.__init__: where the constructor moves a block_dim != -3
        nbt = rng.choice([1, 2, 3])
        sizes = rng.sample([2, 3, 4, 5], nbt)
        Tblk = ri(rng, (*sizes, 2, 2), dtype=dt)
        for bd in sorted({rng.randrange(nbt), rng.randrange(nbt) - (nbt + 2), 0, -(nbt + 2)}):
            def moved(Tblk=Tblk, bd=bd, sizes=sizes, nbt=nbt):
                outs_ = []
                for cls in (BlockDiagLinearOperator, BlockInterleavedLinearOperator, SumBatchLinearOperator):
                    base = cls(DenseLinearOperator(Tblk.clone()), block_dim=bd).base_linear_op
                    perm = [sizes.index(v) for v in base.shape[:-2]]
                    if not torch.equal(base.to_dense(), Tblk.permute(*perm, nbt, nbt + 1)):
                        return "values of base_linear_op are not the permuted input"
                    outs_.append(",".join(map(str, perm)))
                return outs_[0] if len(set(outs_)) == 1 else "classes disagree: " + " / ".join(outs_)
            out.append((f"C01/corr/blockDimMove[nb={nbt}|block_dim={bd}]/base_linear_op", f"blockperm {nbt} {bd}", moved))
        # ---- block operators
        k, m = rng.randint(1, 3), rng.randint(1, 3)
        B = ri(rng, (k, m, m), dtype=dt)
        Xb = ri(rng, (k * m, c), dtype=dt)
        bw = " ".join(M(B[i]) for i in range(k))
        for name, cls, cmd in (("blockDiag", BlockDiagLinearOperator, "bdiag"), ("blockInterleaved", BlockInterleavedLinearOperator, "binter")):
            out.append((f"C01/corr/{name}[k={k}|m={m}]/_matmul+to_dense", f"{cmd} {M(Xb)} {bw}",
                        lambda cls=cls, B=B, Xb=Xb: M(cls(DenseLinearOperator(B.clone()))._matmul(Xb.clone())) + " # " + M(cls(DenseLinearOperator(B.clone())).to_dense())))
            add = "bdadd" if cmd == "bdiag" else "biadd"
            rem = "bdrem" if cmd == "bdiag" else "birem"
            out.append((f"C01/corr/{name}[k={k}|m={m}]/_add_batch_dim", f"{add} {k} {M(Xb)}",
                        lambda cls=cls, B=B, Xb=Xb: T3(cls(DenseLinearOperator(B.clone()))._add_batch_dim(Xb.clone()))))
            Tt = ri(rng, (k, m, c), dtype=dt)
            out.append((f"C01/corr/{name}[k={k}|m={m}]/_remove_batch_dim", f"{rem} " + " ".join(M(Tt[i]) for i in range(k)),
                        lambda cls=cls, B=B, Tt=Tt: M(cls(DenseLinearOperator(B.clone()))._remove_batch_dim(Tt.clone()))))
        # rectangular interleaved blocks
        Br = ri(rng, (k, m, m + 1), dtype=dt)
        Xr = ri(rng, ((m + 1) * k, c), dtype=dt)
        out.append((f"C01/corr/blockInterleaved[rect|k={k}|m={m}]/_matmul+to_dense", f"binter {M(Xr)} " + " ".join(M(Br[i]) for i in range(k)),
                    lambda Br=Br, Xr=Xr: M(BlockInterleavedLinearOperator(DenseLinearOperator(Br.clone()))._matmul(Xr.clone())) + " # " + M(BlockInterleavedLinearOperator(DenseLinearOperator(Br.clone())).to_dense())))
        Xs = ri(rng, (m + 1, c), dtype=dt)
        out.append((f"C01/corr/sumBatch[k={k}|m={m}]/_matmul+to_dense", f"sumbatch {M(Xs)} " + " ".join(M(Br[i]) for i in range(k)),
                    lambda Br=Br, Xs=Xs: M(SumBatchLinearOperator(DenseLinearOperator(Br.clone()))._matmul(Xs.clone())) + " # " + M(SumBatchLinearOperator(DenseLinearOperator(Br.clone())).to_dense())))
        # ---- batch repeat (one batch dim b, repeat r)
        r, b, n = rng.randint(1, 3), rng.randint(1, 2), rng.randint(1, 3)
        Bb = ri(rng, (b, n, n), dtype=dt)
        Xr2 = ri(rng, (r * b, n, c), dtype=dt)

        def brep(Bb=Bb, Xr2=Xr2, r=r):
            op = BatchRepeatLinearOperator(DenseLinearOperator(Bb.clone()), batch_repeat=torch.Size((r,)))
            res = op._matmul(Xr2.clone())
            cols_ = op._move_repeat_batches_to_columns(Xr2.clone(), torch.Size(Xr2.shape))
            return T3(res) + " # " + T3(cols_)
        out.append((f"C01/corr/batchRepeat[r={r}|b={b}|n={n}]/_matmul+to_columns", f"brep {r} {b} " + " ".join(M(Bb[i]) for i in range(b)) + " " + " ".join(M(Xr2[i]) for i in range(r * b)), brep))
        # ---- cat
        a1, a2, nn = rng.randint(1, 3), rng.randint(1, 3), rng.randint(1, 3)
        A1, A2, Xc = ri(rng, (a1, nn), dtype=dt), ri(rng, (a2, nn), dtype=dt), ri(rng, (nn, c), dtype=dt)
        out.append((f"C01/corr/cat[rows|{a1}+{a2}]/_matmul", f"catrows {M(Xc)} {M(A1)} {M(A2)}",
                    lambda A1=A1, A2=A2, Xc=Xc: M(CatLinearOperator(DenseLinearOperator(A1.clone()), DenseLinearOperator(A2.clone()), dim=-2)._matmul(Xc.clone()))))
        widths = [rng.randint(1, 3) for _ in range(rng.choice([2, 3]))]
        blocks = [ri(rng, (nn, w), dtype=dt) for w in widths]
        Xcc = ri(rng, (sum(widths), c), dtype=dt)
        out.append((f"C01/corr/cat[cols|{'+'.join(map(str, widths))}]/_matmul+to_dense", f"catcols {M(Xcc)} " + " ".join(M(x) for x in blocks),
                    lambda blocks=blocks, Xcc=Xcc: M(CatLinearOperator(*[DenseLinearOperator(x.clone()) for x in blocks], dim=-1)._matmul(Xcc.clone())) + " # " +
                    M(CatLinearOperator(*[DenseLinearOperator(x.clone()) for x in blocks], dim=-1).to_dense())))
        # ---- masked
        N0, M0 = rng.randint(2, 4), rng.randint(2, 4)
        base = ri(rng, (N0, M0), dtype=dt)
        rmask = torch.tensor([rng.random() < 0.5 for _ in range(N0)])
        cmask = torch.tensor([rng.random() < 0.5 for _ in range(M0)])
        rmask[rng.randrange(N0)] = True
        cmask[rng.randrange(M0)] = True
        Xm = ri(rng, (int(cmask.sum()), c), dtype=dt)
        mk = lambda b=base, r_=rmask, c_=cmask: MaskedLinearOperator(DenseLinearOperator(b.clone()), r_.clone(), c_.clone())
        out.append((f"C01/corr/masked[{N0}x{M0}]/_matmul+to_dense", f"masked {M(base)} {M(rmask[None].double())} {M(cmask[None].double())} {M(Xm)}",
                    lambda mk=mk, Xm=Xm: M(mk()._matmul(Xm.clone())) + " # " + M(mk().to_dense())))
        out.append((f"C01/corr/masked[{N0}x{M0}]/_expand", f"mexpand {M(cmask[None].double())} {M(Xm)}",
                    lambda cmask=cmask, Xm=Xm: M(MaskedLinearOperator._expand(Xm.clone(), cmask.clone()))))
        # ---- permutations (float32 operators)
        n = rng.randint(1, 4)
        perm = torch.tensor(rng.sample(range(n), n))
        Xp = ri(rng, (n, c), dtype=torch.float32)
        out.append((f"C01/corr/perm[n={n}]/_matmul", f"perm {M(perm[None].double())} {M(Xp)}", lambda perm=perm, Xp=Xp: M(PermutationLinearOperator(perm.clone())._matmul(Xp.clone()))))
        m_ = rng.randint(1, 3)
        Xt = ri(rng, (m_ * m_, c), dtype=torch.float32)
        out.append((f"C01/corr/transposePerm[m={m_}]/_matmul+to_dense", f"tperm {m_} {M(Xt)}",
                    lambda m_=m_, Xt=Xt: M(TransposePermutationLinearOperator(m_)._matmul(Xt.clone())) + " # " + M(TransposePermutationLinearOperator(m_).to_dense())))
        # ---- interpolation (duplicates likely)
        nb, nb2, nl, nr, K = rng.randint(1, 3), rng.randint(1, 3), rng.randint(1, 3), rng.randint(1, 3), rng.randint(1, 3)
        basei = ri(rng, (nb, nb2), dtype=dt)
        lidx = torch.tensor([[rng.randrange(nb) for _ in range(K)] for _ in range(nl)])
        ridx = torch.tensor([[rng.randrange(nb2) for _ in range(K)] for _ in range(nr)])
        lval, rval = ri(rng, (nl, K), dtype=dt), ri(rng, (nr, K), dtype=dt)
        Xi = ri(rng, (nr, c), dtype=dt)
        mki = lambda basei=basei, lidx=lidx, lval=lval, ridx=ridx, rval=rval: InterpolatedLinearOperator(DenseLinearOperator(basei.clone()), lidx.clone(), lval.clone(), ridx.clone(), rval.clone())
        out.append((f"C01/corr/interp[{nl}x{nr}|K={K}|nb={nb}x{nb2}]/matmul+_matmul+to_dense",
                    f"interp {M(basei)} {M(lidx.double())} {M(lval)} {M(ridx.double())} {M(rval)} {M(Xi)}",
                    lambda mki=mki, Xi=Xi: M(mki().matmul(Xi.clone())) + " # " + M(mki()._matmul(Xi.clone())) + " # " + M(mki().to_dense())))
        Xg = ri(rng, (nb, c), dtype=dt)
        out.append((f"C01/corr/interp[K={K}]/left_interp", f"linterp {M(lidx.double())} {M(lval)} {M(Xg)}",
                    lambda lidx=lidx, lval=lval, Xg=Xg: M(left_interp(lidx.clone(), lval.clone(), Xg.clone()))))
        Xs2 = ri(rng, (nl, c), dtype=dt)
        out.append((f"C01/corr/interp[K={K}]/left_t_interp", f"ltinterp {nb} {M(lidx.double())} {M(lval)} {M(Xs2)}",
                    lambda lidx=lidx, lval=lval, Xs2=Xs2, nb=nb: M(left_t_interp(lidx.clone(), lval.clone(), Xs2.clone(), nb))))
        # ---- Toeplitz (FFT: toleranced)
        n = rng.randint(1, 4)
        col = ri(rng, (n,), dtype=dt)
        Xtz = ri(rng, (n, c), dtype=dt)
        out.append((f"C01/corr/toeplitz[n={n}]/_matmul+to_dense", f"toep {M(col[None])} {M(Xtz)}",
                    ("tol", lambda col=col, Xtz=Xtz: [ToeplitzLinearOperator(col.clone())._matmul(Xtz.clone()), ToeplitzLinearOperator(col.clone()).to_dense()])))
        # ---- Mul over roots, added diag, diag, root, chol, constant mul
        n, kk = rng.randint(1, 3), rng.randint(1, 2)
        L1, L2 = ri(rng, (n, kk), -2, 2, dt), ri(rng, (n, kk), -2, 2, dt)
        Xn = ri(rng, (n, c), dtype=dt)
        out.append((f"C01/corr/mulRoots[n={n}|k={kk}]/_matmul", f"mulroots {M(L1)} {M(L2 @ L2.T)} {M(Xn)}",
                    lambda L1=L1, L2=L2, Xn=Xn: M(MulLinearOperator(RootLinearOperator(L1.clone()), RootLinearOperator(L2.clone()))._matmul(Xn.clone()))))
        An, dn = ri(rng, (n, n), dtype=dt), ri(rng, (n,), dtype=dt)
        out.append((f"C01/corr/addedDiag[n={n}]/_matmul", f"addeddiag {M(An)} {M(dn[None])} {M(Xn)}",
                    lambda An=An, dn=dn, Xn=Xn: M(AddedDiagLinearOperator(DenseLinearOperator(An.clone()), DiagLinearOperator(dn.clone()))._matmul(Xn.clone()))))
        out.append((f"C01/corr/diag[n={n}]/_matmul", f"diag {M(dn[None])} {M(Xn)}", lambda dn=dn, Xn=Xn: M(DiagLinearOperator(dn.clone())._matmul(Xn.clone()))))
        out.append((f"C01/corr/root[n={n}|k={kk}]/_matmul+to_dense", f"root {M(L1)} {M(Xn)}",
                    lambda L1=L1, Xn=Xn: M(RootLinearOperator(L1.clone())._matmul(Xn.clone())) + " # " + M(RootLinearOperator(L1.clone()).to_dense())))
        Lt = torch.tril(ri(rng, (n, n), -2, 2, dt))
        out.append((f"C01/corr/chol[lower|n={n}]/_matmul+to_dense", f"chol {M(Lt)} 0 {M(Xn)}",
                    lambda Lt=Lt, Xn=Xn: M(CholLinearOperator(TriangularLinearOperator(Lt.clone()))._matmul(Xn.clone())) + " # " + M(CholLinearOperator(TriangularLinearOperator(Lt.clone())).to_dense())))
        Ut = Lt.T.contiguous()
        out.append((f"C01/corr/chol[upper|n={n}]/_matmul+to_dense", f"chol {M(Ut)} 1 {M(Xn)}",
                    lambda Ut=Ut, Xn=Xn: M(CholLinearOperator(TriangularLinearOperator(Ut.clone(), upper=True), upper=True)._matmul(Xn.clone())) + " # " +
                    M(CholLinearOperator(TriangularLinearOperator(Ut.clone(), upper=True), upper=True).to_dense())))
        kc = rng.randint(-3, 3)
        Ar = ri(rng, (n, n + 1), dtype=dt)
        Xw = ri(rng, (n + 1, c), dtype=dt)
        out.append((f"C01/corr/constMul[n={n}]/_matmul", f"cmul {M(Ar)} {kc} {M(Xw)}",
                    lambda Ar=Ar, kc=kc, Xw=Xw: M(ConstantMulLinearOperator(DenseLinearOperator(Ar.clone()), torch.tensor(float(kc), dtype=Ar.dtype))._matmul(Xw.clone()))))
        # ---- base class on the minimal user subclass: default to_dense (both branches), rmatmul
        for shape, tag in (((n, n + 1), "wide"), ((n + 1, n), "tall"), ((n, n), "square")):
            Du = ri(rng, shape, dtype=dt)
            out.append((f"C01/corr/userMinimal[{tag}|n={n}]/to_dense(default)", f"todense {M(Du)}", lambda Du=Du: M(UM(Du.clone()).to_dense())))
            Yu = ri(rng, (c, shape[0]), dtype=dt)
            out.append((f"C01/corr/userMinimal[{tag}|n={n}]/rmatmul", f"rmatmul {M(Du)} {M(Yu)}", lambda Du=Du, Yu=Yu: M(Yu.clone() @ UM(Du.clone()))))
    return out


def _parse(s):
    return [[float(Fraction(v)) for v in row.split(",")] for row in s.split(";")]


def part2(chk):
    cs = cases(chk.rng, chk.tier)
    lines = [c[1] for c in cs]
    outs = chk.run_driver("C01", lines)
    if outs is None:
        return
    for (cell, line, thunk), model in zip(cs, outs):
        chk.case(cell + " " + line, nontrivial=True)
        chk.count("corr:" + cell.split("/")[2].split("[")[0])
        try:
            with warnings.catch_warnings():
                warnings.simplefilter("ignore")
                if isinstance(thunk, tuple) and thunk[0] == "check":  # predicate over the model's answer
                    impl = model if thunk[1](model) else "implementation does not satisfy the model's answer"
                elif isinstance(thunk, tuple):  # toleranced
                    tensors = thunk[1]()
                    parts = model.split(" # ")
                    ok = len(parts) == len(tensors)
                    for p, t in zip(parts, tensors):
                        want = torch.tensor(_parse(p), dtype=torch.float64)
                        tol = (2e-4 if t.dtype == torch.float32 else 1e-9) * max(1.0, float(want.abs().max()))
                        ok = ok and tuple(want.shape) == tuple(t.shape) and torch.allclose(t.double(), want, rtol=0, atol=tol)
                    impl = model if ok else " # ".join(str(t.tolist()) for t in tensors)
                else:
                    impl = thunk()
        except Exception as e:
            impl = f"raised {type(e).__name__}: {e}"[:200]
        if impl == model:
            chk.traces_validated += 1
        else:
            # The model is proved equal to the dense definition on these paths, so a disagreement is a failing input
            # of the implementation unless the implementation still matches the dense spec (then the model is stale).
            chk.violation(cell, f"implementation differs from the Lean model (which is proved to compute the dense definition): line `{line[:200]}` model `{model[:200]}` impl `{impl[:200]}`",
                          {"line": line, "model": model, "impl": impl})


# ------------------------------------------------------------------------------------------- operator trees
def gen_tree(rng, depth, rows, cols, k=None, top=False):
    """Random tree of the grammar of LinOp/C01/OpTree.lean with outer size rows x cols.
    Returns (tokens(member) -> list of driver tokens, build() -> library operator); with `k` every leaf tensor carries a
    leading batch dim k (the k members are the blocks of an enclosing Block*/SumBatch operator)."""
    from linear_operator.operators import (
        AddedDiagLinearOperator, BlockDiagLinearOperator, BlockInterleavedLinearOperator, CatLinearOperator,
        ConstantMulLinearOperator, DenseLinearOperator, DiagLinearOperator, KroneckerProductLinearOperator,
        MatmulLinearOperator, RootLinearOperator, SumBatchLinearOperator, SumLinearOperator,
    )
    dt = torch.float64
    b = () if k is None else (k,)
    sel = lambda t, i: t if k is None else t[i]

    def leaf_dense():
        A = ri(rng, (*b, rows, cols), -2, 2, dt)
        return (lambda i: ["dense", M(sel(A, i))]), (lambda: DenseLinearOperator(A.clone()))
    choices = ["dense"]
    if depth > 0:
        choices += ["sum", "matmul", "cmul", "T", "T"]
        if rows == cols:
            choices += ["diag", "adiag", "root"]
        divs_r = [d for d in range(1, rows + 1) if rows % d == 0]
        divs_c = [d for d in range(1, cols + 1) if cols % d == 0]
        choices += ["kron", "kron"]
        if rows >= 2:
            choices.append("catr")
        if cols >= 2:
            choices.append("catc")
        if k is None:
            choices += ["sumb"]
            if rows == cols and rows >= 2:
                choices += ["bdiag"]
            common = [d for d in (2, 3) if rows % d == 0 and cols % d == 0]
            if common:
                choices += ["binter"]
    # constructors added to the grammar (leaves are available at every depth)
    from linear_operator.operators import (
        CholLinearOperator, ConstantDiagLinearOperator, IdentityLinearOperator, KernelLinearOperator, LowRankRootLinearOperator,
        MulLinearOperator, PermutationLinearOperator, TransposePermutationLinearOperator, TriangularLinearOperator, ZeroLinearOperator,
    )
    choices += ["zero", "kern"]
    if rows == cols:
        choices += ["eye", "cdiag"]
        if top:  # permutation operators are float32-only: kept at the root / under transposes of an otherwise float64 tree
            choices += ["perm", "perm"]
            if k is None and rows in (1, 4):
                choices += ["tperm", "tperm"]
        if depth > 0:
            choices += ["chol", "lrr", "lrad"]
            if rows <= 3:  # (the un-memoised interpreter is slow on the rank-expanded formula: small sizes, leaf roots)
                choices += ["mulr"]
            if rows >= 2:
                choices += ["kad"]
    c = rng.choice(choices)
    if c == "dense":
        return leaf_dense()
    if c == "zero":
        return (lambda i: ["zero", str(rows), str(cols)]), (lambda: ZeroLinearOperator(*b, rows, cols, dtype=dt))
    if c == "kern":
        x1, x2 = ri(rng, (*b, rows, 2), -2, 2, dt), ri(rng, (*b, cols, 2), -2, 2, dt)
        return ((lambda i: ["kern", M(sel(x1, i) @ sel(x2, i).mT), M(sel(x2, i) @ sel(x1, i).mT)]),
                (lambda: KernelLinearOperator(x1.clone(), x2.clone(), cat.poly_kernel)))
    if c == "perm":
        nbm = 1 if k is None else k
        pm = torch.stack([torch.tensor(rng.sample(range(rows), rows)) for _ in range(nbm)])
        iv = torch.argsort(pm, dim=-1)
        pm_, iv_ = (pm[0], iv[0]) if k is None else (pm, iv)
        give_inv = rng.random() < 0.5
        return ((lambda i: ["perm", M(sel(pm_, i)[None].double()), M(sel(iv_, i)[None].double())]),
                (lambda: PermutationLinearOperator(pm_.clone(), iv_.clone()) if give_inv else PermutationLinearOperator(pm_.clone())))
    if c == "tperm":
        mm_ = 1 if rows == 1 else 2
        return (lambda i: ["tperm", str(mm_)]), (lambda: TransposePermutationLinearOperator(mm_))
    if c == "eye":
        return (lambda i: ["eye", str(rows)]), (lambda: IdentityLinearOperator(rows, batch_shape=torch.Size(b), dtype=dt))
    if c == "cdiag":
        cv = ri(rng, (*b, 1), -2, 3, dt)
        return (lambda i: ["cdiag", str(rows), str(int(sel(cv, i)[0]))]), (lambda: ConstantDiagLinearOperator(cv.clone(), diag_shape=rows))
    if c == "chol":
        up = rng.random() < 0.5
        Tm = torch.tril(ri(rng, (*b, rows, rows), -2, 2, dt))
        Tm = Tm.mT.contiguous() if up else Tm
        return ((lambda i: ["chol", "1" if up else "0", "dense", M(sel(Tm, i))]),
                (lambda: CholLinearOperator(TriangularLinearOperator(Tm.clone(), upper=up), upper=up)))
    if c == "mulr":
        (ta, ba), (tb, bb) = gen_tree(rng, 0, rows, rng.randint(1, 2), k), gen_tree(rng, 0, rows, rng.randint(1, 2), k)
        return (lambda i: ["mulr"] + ta(i) + tb(i)), (lambda: MulLinearOperator(RootLinearOperator(ba()), RootLinearOperator(bb())))
    if c == "lrr":
        ta, ba = gen_tree(rng, depth - 1, rows, rng.randint(1, 2), k)
        return (lambda i: ["lrr"] + ta(i)), (lambda: LowRankRootLinearOperator(ba()))
    if c == "lrad":  # LowRankRootAddedDiag = addedDiag (lowRankRoot a) d  (the class inherits AddedDiag's _matmul)
        from linear_operator.operators import LowRankRootAddedDiagLinearOperator
        d = ri(rng, (*b, rows), 1, 3, dt)
        ta, ba = gen_tree(rng, depth - 1, rows, rng.randint(1, 2), k)
        return ((lambda i: ["adiag", M(sel(d, i)[None]), "lrr"] + ta(i)),
                (lambda: LowRankRootAddedDiagLinearOperator(LowRankRootLinearOperator(ba()), DiagLinearOperator(d.clone()))))
    if c == "kad":  # KroneckerProductAddedDiag = addedDiag (kron a b) d
        from linear_operator.operators import KroneckerProductAddedDiagLinearOperator
        r1 = rng.choice([d_ for d_ in range(1, rows + 1) if rows % d_ == 0])
        d = ri(rng, (*b, rows), 1, 3, dt)
        (ta, ba), (tb, bb) = gen_tree(rng, depth - 1, r1, r1, k), gen_tree(rng, depth - 1, rows // r1, rows // r1, k)
        return ((lambda i: ["adiag", M(sel(d, i)[None]), "kron"] + ta(i) + tb(i)),
                (lambda: KroneckerProductAddedDiagLinearOperator(KroneckerProductLinearOperator(ba(), bb()), DiagLinearOperator(d.clone()))))
    if c == "diag":
        d = ri(rng, (*b, rows), -2, 2, dt)
        return (lambda i: ["diag", M(sel(d, i)[None])]), (lambda: DiagLinearOperator(d.clone()))
    if c == "sum":
        (ta, ba), (tb, bb) = gen_tree(rng, depth - 1, rows, cols, k), gen_tree(rng, depth - 1, rows, cols, k)
        return (lambda i: ["sum"] + ta(i) + tb(i)), (lambda: SumLinearOperator(ba(), bb()))
    if c == "matmul":
        j = rng.randint(1, 3)
        (ta, ba), (tb, bb) = gen_tree(rng, depth - 1, rows, j, k), gen_tree(rng, depth - 1, j, cols, k)
        return (lambda i: ["matmul"] + ta(i) + tb(i)), (lambda: MatmulLinearOperator(ba(), bb()))
    if c == "cmul":
        kc = ri(rng, b, -2, 2, dt)
        ta, ba = gen_tree(rng, depth - 1, rows, cols, k)
        return (lambda i: ["cmul", str(int(sel(kc, i)))] + ta(i)), (lambda: ConstantMulLinearOperator(ba(), kc.clone()))
    if c == "adiag":
        d = ri(rng, (*b, rows), -2, 2, dt)
        ta, ba = gen_tree(rng, depth - 1, rows, cols, k)
        return (lambda i: ["adiag", M(sel(d, i)[None])] + ta(i)), (lambda: AddedDiagLinearOperator(ba(), DiagLinearOperator(d.clone())))
    if c == "root":
        ta, ba = gen_tree(rng, depth - 1, rows, rng.randint(1, 3), k)
        return (lambda i: ["root"] + ta(i)), (lambda: RootLinearOperator(ba()))
    if c == "T":
        ta, ba = gen_tree(rng, depth - 1, cols, rows, k, top=top)
        return (lambda i: ["T"] + ta(i)), (lambda: ba().mT)
    if c == "kron":
        r1, c1 = rng.choice(divs_r), rng.choice(divs_c)
        (ta, ba), (tb, bb) = gen_tree(rng, depth - 1, r1, c1, k), gen_tree(rng, depth - 1, rows // r1, cols // c1, k)
        return (lambda i: ["kron"] + ta(i) + tb(i)), (lambda: KroneckerProductLinearOperator(ba(), bb()))
    if c == "catr":
        r1 = rng.randint(1, rows - 1)
        (ta, ba), (tb, bb) = gen_tree(rng, depth - 1, r1, cols, k), gen_tree(rng, depth - 1, rows - r1, cols, k)
        return (lambda i: ["catr"] + ta(i) + tb(i)), (lambda: CatLinearOperator(ba(), bb(), dim=-2))
    if c == "catc":
        c1 = rng.randint(1, cols - 1)
        (ta, ba), (tb, bb) = gen_tree(rng, depth - 1, rows, c1, k), gen_tree(rng, depth - 1, rows, cols - c1, k)
        return (lambda i: ["catc"] + ta(i) + tb(i)), (lambda: CatLinearOperator(ba(), bb(), dim=-1))
    if c == "sumb":
        kk = rng.randint(1, 3)
        ta, ba = gen_tree(rng, depth - 1, rows, cols, kk)
        return (lambda i: ["sumb", str(kk)] + [t for j in range(kk) for t in ta(j)]), (lambda: SumBatchLinearOperator(ba()))
    if c == "bdiag":
        kk = rng.choice([d for d in range(2, rows + 1) if rows % d == 0])
        ta, ba = gen_tree(rng, depth - 1, rows // kk, cols // kk, kk)
        return (lambda i: ["bdiag", str(kk)] + [t for j in range(kk) for t in ta(j)]), (lambda: BlockDiagLinearOperator(ba()))
    if c == "binter":
        kk = rng.choice(common)
        ta, ba = gen_tree(rng, depth - 1, rows // kk, cols // kk, kk)
        return (lambda i: ["binter", str(kk)] + [t for j in range(kk) for t in ta(j)]), (lambda: BlockInterleavedLinearOperator(ba()))
    raise AssertionError(c)


def _dn(t):
    """lazily represented results (ZeroLinearOperator @ tensor) are densified"""
    return t if torch.is_tensor(t) else t.to_dense()


def tree_translator_check(chk):
    """The grammar models LowRankRootAddedDiag / KroneckerProductAddedDiag / LowRankRoot as nestings because these classes
    inherit `_matmul` / `_t_matmul`; Chol inherits `_t_matmul` from Root.  Checked against the live classes."""
    import linear_operator.operators as O
    for cls, names in ((O.LowRankRootAddedDiagLinearOperator, ("_matmul", "_t_matmul")), (O.KroneckerProductAddedDiagLinearOperator, ("_matmul", "_t_matmul")),
                       (O.LowRankRootLinearOperator, ("_matmul", "_t_matmul")), (O.CholLinearOperator, ("_t_matmul",)),
                       (O.ConstantDiagLinearOperator, ("_matmul", "_t_matmul"))):
        for nm in names:
            if nm in cls.__dict__:
                chk.proof_break(f"translator(C01 tree grammar: {cls.__name__}.{nm})", f"{cls.__name__} now defines its own {nm}; the tree grammar models it as inherited")
    if O.LowRankRootAddedDiagLinearOperator.__mro__[1] is not O.AddedDiagLinearOperator or O.AddedDiagLinearOperator not in O.KroneckerProductAddedDiagLinearOperator.__mro__:
        chk.proof_break("translator(C01 tree grammar: AddedDiag subclasses)", "class hierarchy changed")


def part3(chk):
    """Operator trees: the Lean tree evaluator (`Op.eval`, proved to refine `Op.denseSem` for every tree) vs the nested
    library operator: `_matmul`, `to_dense`, `_t_matmul`."""
    rng = chk.rng
    tree_translator_check(chk)
    ntrees = 80 if chk.tier == "quick" else 600
    cs = []
    for _ in range(ntrees):
        rows, cols = rng.choice([1, 2, 3, 4, 6]), rng.choice([1, 2, 3, 4, 6])
        depth = rng.choice([1, 2, 2, 3])
        toks, build = gen_tree(rng, depth, rows, cols, top=True)
        tk = toks(0)
        X, Y = ri(rng, (cols, 2), -2, 2), ri(rng, (rows, 1), -2, 2)
        shape = " ".join(t for t in tk if not any(ch.isdigit() for ch in t) or t in ("T",))
        cs.append((f"C01/corr/tree[{rows}x{cols}]/{shape.replace(' ', '.')[:80]}", f"{M(X)} {M(Y)} " + " ".join(tk), build, X, Y))
    outs = chk.run_driver("LinOp.C01.TreeDriver", [c[1] for c in cs])
    if outs is None:
        return
    for (cell, line, build, X, Y), model in zip(cs, outs):
        chk.case(cell + " " + line, nontrivial=True)
        chk.count("corr:tree")
        chk.count("tree-root:" + cell.split("/")[-1].split(".")[0])
        try:
            with warnings.catch_warnings():
                warnings.simplefilter("ignore")
                from linear_operator.operators import LinearOperator
                D_ = build().to_dense()
                impl = " # ".join([M(_dn(build()._matmul(X.clone()))), M(D_), M(_dn(build()._t_matmul(Y.clone()))),
                                   M(_dn(build() @ X[:, 0].clone())[None]), M(_dn(Y[:, 0].clone() @ build())[None]),
                                   M(_dn(build().rmatmul(Y.mT.clone())))])
                if tuple((build() @ X[:, 0].clone()).shape) != (D_.shape[0],) or tuple((Y[:, 0].clone() @ build()).shape) != (D_.shape[1],):
                    impl += " # bad 1-D shape"
        except Exception as e:
            impl = f"raised {type(e).__name__}: {e}"[:200]
        if impl == model:
            chk.traces_validated += 1
        elif "Trying to lazily add two DiagLinearOperators" in impl:
            chk.count("tree-ctor-refused:AddedDiag(Diag-like,Diag)")  # documented refusal of the constructor (Identity / ConstantDiag / Diag base)
        else:
            chk.violation(cell, f"nested operator differs from the Lean tree evaluator (proved = dense semantics of the tree): `{line[:300]}` model `{model[:200]}` impl `{impl[:200]}`",
                          {"line": line, "model": model, "impl": impl})
