"""C09 — Lanczos returns an orthonormal basis and the projected tridiagonal.

Three layers, all driven by VERIF_SEED:
  A. the real `lanczos_tridiag` on a catalogue of cells (spectrum family x n x batch x init kind x budget x dtype):
     invariants against the dense matrix (spec) — QᵀQ = I, T symmetric tridiagonal (exact), QᵀAQ = T,
     A Q − Q T supported in the last column, q_0 = v/‖v‖, Q T Qᵀ = A at full dimension, shapes, expected count;
  B. correspondence: every column (batch member x init vector) of the f64 cells of moderate size is replayed
     on the Lean model in Float (`LinOp.C09.Driver`): Q, T, count (toleranced; robust margins only, discards counted);
     B'. whole multi-column calls replayed as ONE run of the coupled model `lanczosMulti` (`lzm`): shared count, per-column
     prefix of Q/T up to the column's own breakdown, NaN pattern of an exactly exhausted column, extra passes (tol = -1);
  C. post-processing on operators: root_decomposition / root_inv_decomposition / diagonalization with
     method="lanczos" (dense-backed and structured classes of harness/catalogue.py), with the (Q, T) of the
     wrapped `lanczos_tridiag` call as witness: R Rᵀ = Q (T + jI)₊ Qᵀ, = A (+ j) at full dimension, inverse roots,
     probe selection of `_postprocess_lanczos_root_inv_decomp`, `StochasticLQ.to_dense`; model of the assembly
     (`post` lines of the driver) against the implementation.
"""
import struct
import zlib

import torch

from .. import catalogue
from ..extract import c09_lanczos

F64, F32 = torch.float64, torch.float32
DT = {"f64": F64, "f32": F32}


def bits(x):
    return str(struct.unpack("<Q", struct.pack("<d", float(x)))[0])


def unbits(s):
    return struct.unpack("<d", struct.pack("<Q", int(s)))[0]


def fvec(v):
    return ",".join(bits(x) for x in v.tolist())


def fmat(M):
    return ";".join(",".join(bits(x) for x in r) for r in M.tolist())


def pmat(s, dtype=F64):
    if s == "-":
        return torch.zeros(0, 0, dtype=dtype)
    return torch.tensor([[unbits(x) for x in row.split(",")] for row in s.split(";")], dtype=dtype)


def gen_for(seed, key):
    return torch.Generator().manual_seed(zlib.crc32(f"C09:{seed}:{key}".encode()) & 0x7FFFFFFF)


def rel_tol(dtype, loose=False):
    if dtype == F64:
        return 1e-6 if loose else 1e-8
    return 5e-3 if loose else 1e-3


# ------------------------------------------------------------------------------------------------ matrices

def orth(g, n):
    q, r = torch.linalg.qr(torch.randn(n, n, generator=g, dtype=F64))
    return q * torch.sign(torch.diagonal(r)).unsqueeze(0)


def spectrum(g, family, n):
    """eigenvalues and the Krylov dimension a generic start vector sees"""
    u = torch.rand(n, generator=g, dtype=F64)
    if family in ("fullrank", "eigstart"):
        lam = 1.0 + 3.0 * (torch.arange(n, dtype=F64) + 0.5 * u) / max(n, 1)
        return lam, n
    if family == "rankdef":
        r = max(1, n // 2)
        lam = torch.zeros(n, dtype=F64)
        lam[:r] = 1.0 + 3.0 * (torch.arange(r, dtype=F64) + 0.5 * u[:r]) / r
        return lam, min(n, r + 1)
    if family == "repeated":
        d = max(2, (n + 2) // 3) if n > 2 else 2
        vals = 1.0 + 3.0 * (torch.arange(d, dtype=F64) + 0.5 * u[:d]) / d
        lam = vals[torch.arange(n) % d]
        return lam, min(n, d)
    raise ValueError(family)


def make_A(g, family, n, batch):
    """batch of symmetric PSD matrices with the same spectrum family (float64)"""
    nb = 1
    for b in batch:
        nb *= b
    mats, dim = [], n
    for _ in range(nb):
        if family == "int":
            for _ in range(50):  # integer entries, distinct eigenvalues (a generic start vector sees all of them)
                B = torch.randint(-2, 3, (n, n), generator=g).to(F64)
                M = B @ B.T + torch.eye(n, dtype=F64)
                w = torch.linalg.eigvalsh(M)
                if n == 1 or float((w[1:] - w[:-1]).min()) > 0.2:
                    break
            else:
                M = torch.diag(torch.arange(1, n + 1, dtype=F64)) + 1.0
            mats.append(M)
            dim = n
        else:
            lam, dim = spectrum(g, family, n)
            Q = orth(g, n)
            A = (Q * lam.unsqueeze(0)) @ Q.T
            mats.append((A + A.T) / 2)
    return torch.stack(mats).reshape(*batch, n, n), dim


def budgets(n):
    out = {"1": 1, "2": 2, "half": max(2, n // 2), "n-1": max(1, n - 1), "n": n, "n+2": n + 2}
    return out


# ------------------------------------------------------------------------------------------------ layer A

def call_lanczos(A, mi, init, num_init, dtype, tol, rand_seed):
    from linear_operator.utils.lanczos import lanczos_tridiag
    n = A.shape[-1]
    kw = {}
    if tol is not None:
        kw["tol"] = tol
    state = torch.random.get_rng_state()
    try:
        if init is None:
            torch.manual_seed(rand_seed)
            v = torch.randn(n, num_init, dtype=dtype)  # what the function will draw
            torch.manual_seed(rand_seed)
            v = v.expand(*A.shape[:-2], n, num_init)
            q, t = lanczos_tridiag(lambda x: A.matmul(x), mi, dtype=dtype, device=A.device, matrix_shape=A.shape[-2:],
                                   batch_shape=A.shape[:-2], num_init_vecs=num_init, **kw)
        else:
            v = init
            q, t = lanczos_tridiag(lambda x: A.matmul(x), mi, dtype=dtype, device=A.device, matrix_shape=A.shape[-2:],
                                   batch_shape=A.shape[:-2], init_vecs=init, **kw)
    finally:
        torch.random.set_rng_state(state)
    return q, t, v


def invariants(A, v, q, t, mi, dtype, family, dim, loose):
    """returns (list of failures, per-column (Q, T)) — A (*b,n,n), v (*b,n,p), q/t as returned"""
    fails = []
    n = A.shape[-1]
    p = v.shape[-1]
    batch = tuple(A.shape[:-2])
    if p == 1:
        q, t = q.unsqueeze(0), t.unsqueeze(0)
    m = q.shape[-1]
    if tuple(q.shape) != (p, *batch, n, m) or tuple(t.shape) != (p, *batch, m, m):
        return [f"shapes q={tuple(q.shape)} t={tuple(t.shape)} expected ({p},{batch},{n},m),({p},{batch},m,m)"], []
    if q.dtype != dtype or t.dtype != dtype:
        fails.append(f"dtype q={q.dtype} t={t.dtype}")
    if not (1 <= m <= min(mi, n)):
        fails.append(f"count {m} outside 1..min(max_iter,n)={min(mi, n)}")
    exp = min(mi, n, dim)
    # the iteration count is demanded only where the breakdown margin is large: no breakdown expected at all,
    # or a small Krylov space (for larger ones the last genuine beta and the rounding noise of the first
    # vanishing one are no longer separated by the absolute 1e-6 of the code)
    if dtype == F64 and m != exp and (dim <= 9 or exp < dim or family in ("fullrank", "int")):
        fails.append(f"count {m}, expected {exp} (Krylov dimension {dim})")
    if dtype == F32 and family in ("fullrank", "int") and m != exp:
        fails.append(f"count {m}, expected {exp}")
    if not (torch.isfinite(q).all() and torch.isfinite(t).all()):
        fails.append("non-finite entries in Q or T")
        return fails, []
    tol = rel_tol(dtype, loose)
    Ad, vd, qd, td = A.to(F64), v.to(F64), q.to(F64), t.to(F64)
    scale = max(1.0, float(Ad.abs().max()))
    eye = torch.eye(m, dtype=F64)
    Af = Ad.unsqueeze(0).expand(p, *batch, n, n)
    e = (qd.mT @ qd - eye).abs().max().item()
    if e > tol * 10:
        fails.append(f"QtQ-I = {e:.2e}")
    if not torch.equal(t, t.mT):
        fails.append("T not symmetric")
    band = (torch.arange(m).unsqueeze(0) - torch.arange(m).unsqueeze(1)).abs() > 1
    if (t[..., band] != 0).any():
        fails.append("T not tridiagonal")
    e = (qd.mT @ Af @ qd - td).abs().max().item()
    if e > tol * 10 * scale:
        fails.append(f"QtAQ-T = {e:.2e}")
    R = Af @ qd - qd @ td
    if m > 1:
        e = R[..., :, : m - 1].abs().max().item()
        if e > tol * 10 * scale:
            fails.append(f"AQ-QT outside the last column = {e:.2e}")
    v0 = (vd / vd.norm(dim=-2, keepdim=True)).movedim(-1, 0)  # p,*b,n
    e = (qd[..., :, 0] - v0).abs().max().item()
    if e > tol:
        fails.append(f"q_0 - v/|v| = {e:.2e}")
    if m == n and family != "eigstart":
        e = (qd @ td @ qd.mT - Af).abs().max().item()
        if e > tol * 10 * scale:
            fails.append(f"QTQt-A at full dimension = {e:.2e}")
    cols = []
    flatq = qd.reshape(p, -1, n, m)
    flatt = td.reshape(p, -1, m, m)
    for c in range(p):
        for b in range(flatq.shape[1]):
            cols.append((c, b, flatq[c, b], flatt[c, b]))
    return fails, cols


def layer_a_cells(tier):
    fams = ["fullrank", "rankdef", "repeated", "int"]
    cells = []
    if tier == "quick":
        sizes = {"fullrank": [2, 3, 5, 8, 16, 64], "rankdef": [2, 4, 7, 16], "repeated": [3, 6, 12, 32], "int": [2, 4, 6]}
        batches = [(), (2,), (2, 3), (1,)]
    else:
        sizes = {"fullrank": [2, 3, 4, 5, 8, 13, 16, 32, 64], "rankdef": [2, 3, 4, 7, 16, 33, 64],
                 "repeated": [2, 3, 6, 12, 32, 64], "int": [2, 3, 4, 6, 8]}
        batches = [(), (2,), (2, 3), (1,), (3, 1, 2)]
    inits = ["single", "multi", "random1", "random2"]
    for fam in fams:
        for n in sizes[fam]:
            for bi, batch in enumerate(batches):
                if tier == "quick" and n >= 32 and bi > 1:
                    continue
                for ii, init in enumerate(inits):
                    for mk in budgets(n):
                        if n == 2 and mk == "n-1":
                            continue  # same budget as "1"
                        for dt in ("f64", "f32"):
                            # thin out the product deterministically (every factor still meets every other one)
                            h = zlib.crc32(f"{fam}{n}{batch}{init}{mk}{dt}".encode())
                            if tier == "quick" and n > 3 and h % 3 != 0 and not (mk in ("1", "n") and bi == 0 and ii == 0):
                                continue
                            cells.append((fam, n, batch, init, mk, dt))
    return cells


HAZARD = "hazard=f32-multicol-exhaust"
HAZARD64 = "hazard=multicol-exhausted-column-zero-residual"


def krylov_dim(fam, n):
    """Krylov dimension a generic start vector sees (deterministic per family and size, see `spectrum`)"""
    if fam == "rankdef":
        return min(n, max(1, n // 2) + 1)
    if fam == "repeated":
        return min(n, max(2, (n + 2) // 3) if n > 2 else 2)
    return n


def hazard_tag(fam, n, dt, many, num_iter):
    """The known float32 defect (open: line): several columns (batch members / start vectors) in one call, a Krylov
    space smaller than the number of iterations, float32.  The loop only stops when ALL columns have beta <= 1e-6
    (absolute); a column whose residual is exactly 0 next to a column whose rounding noise exceeds 1e-6 is divided by
    zero.  All defining conditions are deterministic functions of the cell, so they are part of the cell id."""
    if dt == "f32" and fam in ("rankdef", "repeated") and many and min(num_iter, n) > krylov_dim(fam, n):
        return "/" + HAZARD
    return ""


def cell_id(fam, n, batch, init, mk, dt):
    many = bool(batch) or init in ("multi", "random2")
    cols = "many" if many else "one"
    return (f"C09/lanczos/{fam}/n={n}/b={'x'.join(map(str, batch)) or '-'}/init={init}/cols={cols}/mi={mk}/{dt}"
            + hazard_tag(fam, n, dt, many, budgets(n)[mk]))


def run_lanczos_cell(chk, seed, fam, n, batch, init, mk, dt, corr_lines, rep=0):
    dtype = DT[dt]
    cid = cell_id(fam, n, batch, init, mk, dt)
    mi = budgets(n)[mk]
    p = {"single": 1, "multi": 3, "random1": 1, "random2": 2}[init]
    tol = None if zlib.crc32(cid.encode()) % 4 else 1e-4
    for attempt in range(6):
        g = gen_for(seed, f"{cid}#{rep}" + (f"#{attempt}" if attempt else ""))
        A64, dim = make_A(g, fam, n, batch)
        A = A64.to(dtype)
        rand_seed = int(torch.randint(0, 2 ** 31 - 1, (1,), generator=g))
        v = None
        if init in ("single", "multi"):
            v = torch.randn(*batch, n, p, generator=g, dtype=F64).to(dtype)
            v_eff = v.to(F64)
        else:
            st = torch.random.get_rng_state()
            torch.manual_seed(rand_seed)
            v_eff = torch.randn(n, p, dtype=dtype).to(F64).expand(*batch, n, p)
            torch.random.set_rng_state(st)
        # robust margin: the start vectors must not be (nearly) eigenvectors — that is the known first-step defect
        q0 = v_eff / v_eff.norm(dim=-2, keepdim=True)
        Aq = A64 @ q0
        r0 = Aq - q0 * (q0 * Aq).sum(-2, keepdim=True)
        if n == 1 or float(r0.norm(dim=-2).min()) > 2e-2 * float(A64.abs().max()):
            break
        chk.count("discard=beta0-margin")
    payload = {"kind": "lanczos", "seed": seed, "cell": [fam, n, list(batch), init, mk, dt], "rep": rep}
    chk.count(f"family={fam}")
    chk.count(f"dtype={dt}")
    chk.count(f"init={init}")
    chk.count(f"budget={mk}")
    chk.case(f"{cid} rep={rep} A0={A.reshape(-1)[:4].tolist()}", nontrivial=n > 1)
    try:
        q, t, vv = call_lanczos(A, mi, v, p, dtype, tol, rand_seed)
    except Exception as e:  # noqa: BLE001
        chk.count("raised=" + type(e).__name__)
        chk.violation(cid, f"lanczos_tridiag raised {type(e).__name__}: {str(e)[:120]} (n={n}, max_iter={mi}, batch={batch}, init={init})", payload)
        if isinstance(e, IndexError) and min(mi, n) == 1 and dtype == F64:
            # correspondence: the model must report the same exception for this budget
            Af = A.to(F64).reshape(-1, n, n)[0]
            v0 = v if v is not None else torch.ones(*batch, n, p, dtype=dtype)
            corr_lines.append((cid, "index", None, None, f"lz {n} {mi} d {fmat(Af)} {fvec(v0.to(F64).reshape(-1, n, p)[0][:, 0])}", payload))
        return
    loose = fam in ("rankdef", "repeated")
    fails, cols = invariants(A, vv.to(dtype), q, t, mi, dtype, fam, dim, loose)
    if fails:
        chk.violation(cid, f"n={n} max_iter={mi} batch={batch} init={init}: " + "; ".join(fails[:4]), payload)
        return
    # correspondence lines (Float model = float64): f64 cells of moderate size, and small f32 cells loosely
    if (dtype == F64 and n <= (16 if chk.tier == "quick" else 32)) or (dtype == F32 and n <= 8 and fam in ("fullrank", "int")):
        Af = A.to(F64).reshape(-1, n, n)
        vf = vv.to(F64).reshape(-1, n, p)
        tolbits = "d" if tol is None else bits(tol)
        pick = cols[:6] if chk.tier != "quick" else ([cols[0], cols[-1]] if len(cols) > 1 else cols)
        for (c, b, Qc, Tc) in pick:
            corr_lines.append((cid, "ok", Qc, Tc, f"lz {n} {mi} {tolbits} {fmat(Af[b])} {fvec(vf[b][:, c])}",
                               dict(payload, dtype=dt)))


def check_corr(chk, corr_lines):
    if not corr_lines:
        return
    outs = chk.run_driver("C09", [c[4] for c in corr_lines])
    if outs is None:
        return
    for (cid, kind, Qc, Tc, line, payload), out in zip(corr_lines, outs):
        d = dict(kv.split("=", 1) for kv in out.split() if "=" in kv)
        if kind == "index":
            if d.get("err") != "index":
                chk.corr_break(cid, f"implementation raises IndexError, model says {out[:80]}", payload)
            else:
                chk.traces_validated += 1
            continue
        if d.get("err") != "ok":
            chk.corr_break(cid, f"model says {out[:80]} but the implementation returned", payload)
            continue
        Qm, Tm = pmat(d["q"]), pmat(d["t"])
        m = Qc.shape[-1]
        f32 = payload.get("dtype") == "f32"
        if int(d["passes"]) != 0:
            chk.count("corr_discard=extra-passes")
            continue
        offm = torch.diagonal(Tm, 1) if Tm.shape[-1] > 1 else torch.ones(1, dtype=F64)
        robust = bool((offm > 1e-3).all())
        if int(d["count"]) != m:
            if robust and not f32:
                chk.corr_break(cid, f"count: implementation {m}, model {d['count']}", payload)
            else:
                chk.count("corr_discard=margin")
            continue
        if not robust:
            chk.count("corr_discard=margin")
            continue
        tol = 2e-3 if f32 else 1e-7
        e = max((Qm - Qc).abs().max().item(), (Tm - Tc).abs().max().item() / max(1.0, Tc.abs().max().item()))
        if e > tol * max(1, m):
            chk.corr_break(cid, f"Q/T differ from the Float model by {e:.2e} (count {m})", payload)
        else:
            chk.traces_validated += 1


# ------------------------------------------------------------------------------------------------ special cells

def run_special(chk, seed, corr_lines):
    """start vector = eigenvector (β_0 = 0 is never tested before the loop); 1x1 operator"""
    from linear_operator.utils.lanczos import lanczos_tridiag
    for name, n, exact in (("noise", 5, False), ("exact", 4, True), ("identity", 3, None)):
        for dt in ("f64", "f32"):
            dtype = DT[dt]
            cid = f"C09/lanczos/eigstart[{name}]/n={n}/b=-/init=single/mi=n/{dt}"
            g = gen_for(seed, cid)
            if exact is None:  # all eigenvalues equal: every start vector is an eigenvector
                A = (2.0 * torch.eye(n, dtype=F64)).to(dtype)
                v = torch.randn(n, 1, generator=g, dtype=F64).to(dtype)
            elif exact:
                A = torch.diag(torch.arange(1, n + 1, dtype=F64)).to(dtype)
                v = torch.zeros(n, 1, dtype=dtype)
                v[1, 0] = 2.0
            else:
                A64, _ = make_A(g, "eigstart", n, ())
                w, V = torch.linalg.eigh(A64)
                A, v = A64.to(dtype), V[:, 2:3].clone().to(dtype)
            payload = {"kind": "special", "seed": seed, "cell": cid}
            chk.case(cid)
            chk.count("family=eigstart")
            try:
                q, t = lanczos_tridiag(lambda x: A @ x, n, dtype=dtype, device=A.device, matrix_shape=A.shape, init_vecs=v)
            except Exception as e:  # noqa: BLE001
                chk.violation(cid, f"raised {type(e).__name__}", payload)
                continue
            fails, cols = invariants(A, v, q, t, n, dtype, "eigstart", 1, True)
            if fails:
                chk.violation(cid, "start vector is an eigenvector (beta_0 ~ 0): a single column q_0, T = [q_0.A q_0] is expected: " + "; ".join(fails[:3]), payload)
            elif dtype == F64:
                corr_lines.append((cid, "ok", cols[0][2], cols[0][3], f"lz {n} {n} d {fmat(A.to(F64))} {fvec(v.to(F64)[:, 0])}", dict(payload, dtype=dt)))
    for dt in ("f64", "f32"):
        dtype = DT[dt]
        for batch in ((), (2,)):
            cid = f"C09/lanczos/one/n=1/b={'x'.join(map(str, batch)) or '-'}/init=single/mi=n/{dt}"
            A = torch.full((*batch, 1, 1), 2.0, dtype=dtype)
            v = torch.ones(*batch, 1, 1, dtype=dtype)
            payload = {"kind": "special", "seed": seed, "cell": cid}
            chk.case(cid, nontrivial=False)
            try:
                q, t = lanczos_tridiag(lambda x: A @ x, 3, dtype=dtype, device=A.device, matrix_shape=A.shape[-2:], batch_shape=A.shape[:-2], init_vecs=v)
            except Exception as e:  # noqa: BLE001
                chk.violation(cid, f"1x1 operator: raised {type(e).__name__}: {str(e)[:80]}", payload)
                if isinstance(e, IndexError) and dtype == F64 and batch == ():
                    corr_lines.append((cid, "index", None, None, f"lz 1 3 d {bits(2.0)} {bits(1.0)}", payload))
                continue
            fails, _ = invariants(A, v, q, t, 3, dtype, "fullrank", 1, False)
            if fails:
                chk.violation(cid, "1x1 operator: " + "; ".join(fails[:3]), payload)


def run_mixed(chk, seed, corr_lines):
    """>= 2 start vectors of DIFFERENT Krylov dimensions in one call: column 0 lies in a 2-dimensional invariant
    subspace, column 1 (and 2) is generic.  The loop may only stop when ALL columns are exhausted: the generic
    column must still deliver Q T Qt = A at max_iter = n, and root_inv_decomposition(initial_vectors=...) must
    reproduce the inverse."""
    from linear_operator import settings
    from linear_operator.operators import DenseLinearOperator
    from linear_operator.utils.lanczos import lanczos_tridiag
    sizes = (4, 6) if chk.tier == "quick" else (3, 4, 6, 9)
    for n in sizes:
        for batch in ((), (2,), (2, 2)):
            for order in ("deficient-first", "deficient-last"):
                for p in (2, 3):
                    base = f"n={n}/b={'x'.join(map(str, batch)) or '-'}/{order}/p={p}/f64"
                    g = gen_for(seed, "mixed/" + base)
                    A, _ = make_A(g, "fullrank", n, batch)
                    w, V = torch.linalg.eigh(A)
                    cdef = 0 if order == "deficient-first" else p - 1
                    v = torch.randn(*batch, n, p, generator=g, dtype=F64)
                    coef = 1.0 + torch.rand(*batch, 2, generator=g, dtype=F64)
                    v[..., :, cdef] = coef[..., 0:1] * V[..., :, 0] + coef[..., 1:2] * V[..., :, n - 1]
                    payload = {"kind": "mixed", "seed": seed, "cell": base}
                    # ---- lanczos_tridiag itself
                    cid = f"C09/lanczos/mixedkrylov/{base}"
                    chk.case(cid)
                    chk.count("family=mixedkrylov")
                    try:
                        q, t = lanczos_tridiag(lambda x: A @ x, n, dtype=F64, device=A.device, matrix_shape=A.shape[-2:],
                                               batch_shape=A.shape[:-2], init_vecs=v)
                    except Exception as e:  # noqa: BLE001
                        chk.violation(cid, f"raised {type(e).__name__}: {str(e)[:100]}", payload)
                        continue
                    m = q.shape[-1]
                    fails = []
                    if tuple(q.shape) != (p, *batch, n, m) or tuple(t.shape) != (p, *batch, m, m):
                        fails.append(f"shapes {tuple(q.shape)} {tuple(t.shape)}")
                    elif m != n:
                        fails.append(f"count {m}: the loop stopped although a generic start vector has Krylov dimension {n}")
                    else:
                        eye = torch.eye(n, dtype=F64)
                        for c in range(p):
                            Qc, Tc = q[c], t[c]
                            tag = "deficient" if c == cdef else "generic"
                            if c != cdef:
                                if not (torch.isfinite(Qc).all() and torch.isfinite(Tc).all()):
                                    fails.append(f"column {c} ({tag}): non-finite")
                                    continue
                                e1 = (Qc.mT @ Qc - eye).abs().max().item()
                                e2 = (Qc.mT @ A @ Qc - Tc).abs().max().item()
                                e3 = (Qc @ Tc @ Qc.mT - A).abs().max().item()
                                e4 = (A @ Qc - Qc @ Tc)[..., :, : n - 1].abs().max().item()
                                if max(e1, e2, e3, e4) > 1e-7:
                                    fails.append(f"column {c} ({tag}): QtQ-I={e1:.1e} QtAQ-T={e2:.1e} QTQt-A={e3:.1e} AQ-QT={e4:.1e}")
                            else:
                                # the exhausted column: its first two vectors span the invariant subspace (always
                                # demanded); that its later entries are finite is a separate cell (known hazard)
                                Q2, T2 = Qc[..., :, :2], Tc[..., :2, :2]
                                e1 = (Q2.mT @ Q2 - torch.eye(2, dtype=F64)).abs().max().item()
                                e2 = (Q2.mT @ A @ Q2 - T2).abs().max().item()
                                e3 = (A @ Q2 - Q2 @ T2).abs().max().item()
                                if not (e1 < 1e-7 and e2 < 1e-7 and e3 < 1e-6):
                                    fails.append(f"column {c} ({tag}): leading 2 columns QtQ-I={e1:.1e} QtAQ-T={e2:.1e} AQ-QT={e3:.1e}")
                                hcid = f"{cid}/exhausted-column/{HAZARD64}"
                                chk.case(hcid)
                                if not (torch.isfinite(Qc).all() and torch.isfinite(Tc).all()):
                                    chk.violation(hcid, f"column {c}: non-finite entries after its Krylov space was exhausted (residual exactly 0 divided by its norm)", payload)
                            v0 = v[..., :, c] / v[..., :, c].norm(dim=-1, keepdim=True)
                            if (Qc[..., :, 0] - v0).abs().max().item() > 1e-9:
                                fails.append(f"column {c}: q_0 is not v/|v|")
                    if fails:
                        chk.violation(cid, "; ".join(fails[:3]), payload)
                    elif batch == () and n <= 6:
                        gcol = 1 if cdef == 0 else 0
                        corr_lines.append((cid, "ok", q[gcol], t[gcol], f"lz {n} {n} d {fmat(A)} {fvec(v[:, gcol])}", dict(payload, dtype="f64")))
                    # ---- root_inv_decomposition with these initial vectors
                    cid = f"C09/post/root_inv[mixedkrylov]/{base}"
                    chk.case(cid)
                    tv = torch.randn(*batch, n, 2, generator=g, dtype=F64)
                    err = None
                    with Tap() as tap:
                        try:
                            with settings.max_root_decomposition_size(n):
                                R = DenseLinearOperator(A).root_inv_decomposition(initial_vectors=v, test_vectors=tv, method="lanczos").root.to_dense()
                        except Exception as e:  # noqa: BLE001
                            err = e
                    # precondition of this cell: the exhausted probe came out of lanczos_tridiag finite (separate, open cell)
                    hcid = f"{cid}/exhausted-probe/{HAZARD64}"
                    chk.case(hcid)
                    if len(tap.calls) == 1:
                        tq, tt, _ = tap.calls[0]
                        gen_ok = all(bool(torch.isfinite(tq[c]).all() and torch.isfinite(tt[c]).all()) for c in range(p) if c != cdef)
                        def_ok = bool(torch.isfinite(tq[cdef]).all() and torch.isfinite(tt[cdef]).all())
                        if gen_ok and not def_ok:
                            chk.violation(hcid, f"probe {cdef}: non-finite Q/T after its Krylov space was exhausted"
                                          + (f"; downstream {type(err).__name__}" if err is not None else ""), payload)
                            chk.count("mixed_discard=exhausted-probe-nan")
                            continue
                    if err is not None:
                        chk.violation(cid, f"raised {type(err).__name__}: {str(err)[:100]}", payload)
                        continue
                    e = (R @ R.mT @ A - torch.eye(n, dtype=F64)).abs().max().item()
                    if not e < 1e-4:
                        chk.violation(cid, f"(R Rt) A - I = {e:.2e}: no probe reproduced the inverse although a generic initial vector spans the whole space", payload)



# ------------------------------------------------------------------------------------------------ coupled model

def coupled_line(A, v, mi, tol):
    """A (*b,n,n), v (*b,n,p) float64 -> `lzm` line; column order: init vector major, flat batch index minor"""
    n, p = v.shape[-2], v.shape[-1]
    Af, vf = A.reshape(-1, n, n), v.reshape(-1, n, p)
    nb = Af.shape[0]
    amap, vecs = [], []
    for c in range(p):
        for b in range(nb):
            amap.append(str(b))
            vecs.append(fvec(vf[b][:, c]))
    tolbits = "d" if tol is None else bits(tol)
    return f"lzm {n} {mi} {tolbits} {p * nb} {'|'.join(fmat(Af[b]) for b in range(nb))} {','.join(amap)} {'|'.join(vecs)}"


def prefix_len(offdiag, thr=1e-3):
    """number of leading Lanczos vectors before the column's own breakdown: 1 + leading off-diagonals above the margin"""
    m = 1
    for x in offdiag:
        if not (x > thr):
            break
        m += 1
    return m


def column_prefix_fails(Ab, Qc, Tc, m, tol):
    """the single-column theorems on the first m vectors of one column (dense float64 spec)"""
    Q, T = Qc[:, :m], Tc[:m, :m]
    if not (torch.isfinite(Q).all() and torch.isfinite(T).all()):
        return [f"non-finite entries in its first {m} vectors"]
    fails = []
    sc = max(1.0, float(Ab.abs().max()))
    e = (Q.T @ Q - torch.eye(m, dtype=F64)).abs().max().item()
    if e > tol:
        fails.append(f"QtQ-I = {e:.1e} on its first {m} vectors")
    e = (Q.T @ Ab @ Q - T).abs().max().item()
    if e > tol * sc:
        fails.append(f"QtAQ-T = {e:.1e} on its first {m} vectors")
    if m > 1:
        e = (Ab @ Q - Q @ T)[:, : m - 1].abs().max().item()
        if e > tol * sc:
            fails.append(f"AQ-QT = {e:.1e} outside the last of its first {m} vectors")
    return fails


def run_coupled(chk, seed, lines):
    """Multi-column calls replayed as ONE run of the coupled Lean model (`lanczosMulti`): shared iteration counter, the
    two torch.sum tests over all columns, break only when all columns are below the threshold.  Per column: the prefix
    before that column's own breakdown must satisfy the single-column invariants (spec) and agree with the model."""
    from linear_operator.utils.lanczos import lanczos_tridiag
    sizes = (4, 6) if chk.tier == "quick" else (3, 4, 5, 6, 8)
    batches = ((), (2,), (2, 2)) if chk.tier == "quick" else ((), (2,), (2, 2), (3,), (1, 2))
    for kind in ("generic", "mixed", "rankdef", "eigcol", "tolneg"):
        for n in sizes:
            for batch in batches:
                for p in (1, 2, 3):
                    nb = 1
                    for b in batch:
                        nb *= b
                    if p * nb == 1 and kind != "tolneg":
                        continue  # single column: the per-column correspondence of layer B
                    if kind in ("mixed", "eigcol") and p == 1:
                        continue
                    for mk in (("n", "half", "n+2") if kind == "generic" else ("n",)):
                        mi = budgets(n)[mk]
                        hz = f"/{HAZARD64}" if kind == "eigcol" else ""
                        cid = f"C09/coupled/{kind}/n={n}/b={'x'.join(map(str, batch)) or '-'}/p={p}/mi={mk}/f64"
                        g = gen_for(seed, cid)
                        tol = -1.0 if kind == "tolneg" else None
                        cdef = None
                        if kind == "rankdef":
                            A, dim = make_A(g, "rankdef", n, batch)
                        elif kind == "eigcol":
                            perm = torch.stack([torch.randperm(n, generator=g) for _ in range(nb)]).reshape(*batch, n)
                            A = torch.diag_embed((perm + 1).to(F64))
                            dim = n
                        else:
                            A, dim = make_A(g, "fullrank", n, batch)
                        v = torch.randn(*batch, n, p, generator=g, dtype=F64)
                        if kind == "mixed":
                            w, V = torch.linalg.eigh(A)
                            cdef = int(torch.randint(0, p, (1,), generator=g))
                            coef = 1.0 + torch.rand(*batch, 2, generator=g, dtype=F64)
                            v[..., :, cdef] = coef[..., 0:1] * V[..., :, 0] + coef[..., 1:2] * V[..., :, n - 1]
                        if kind == "eigcol":
                            cdef = int(torch.randint(0, p, (1,), generator=g))
                            v[..., :, cdef] = 0.0
                            v[..., 1, cdef] = 2.0  # 2 e_1: q_0 = e_1 exactly, A q_0 - alpha_0 q_0 = 0 exactly
                        payload = {"kind": "coupled", "seed": seed, "cell": cid}
                        chk.case(f"{cid} A0={A.reshape(-1)[:3].tolist()}")
                        chk.count(f"coupled={kind}")
                        kw = {} if tol is None else {"tol": tol}
                        try:
                            q, t = lanczos_tridiag(lambda x: A @ x, mi, dtype=F64, device=A.device, matrix_shape=A.shape[-2:],
                                                   batch_shape=A.shape[:-2], init_vecs=v, **kw)
                        except Exception as e:  # noqa: BLE001
                            chk.violation(cid, f"raised {type(e).__name__}: {str(e)[:100]}", payload)
                            continue
                        if p == 1:
                            q, t = q.unsqueeze(0), t.unsqueeze(0)
                        m = q.shape[-1]
                        if tuple(q.shape) != (p, *batch, n, m) or tuple(t.shape) != (p, *batch, m, m) or not 1 <= m <= min(mi, n):
                            chk.violation(cid, f"shapes q={tuple(q.shape)} t={tuple(t.shape)}", payload)
                            continue
                        Af = A.reshape(-1, n, n)
                        qf, tf = q.reshape(p, nb, n, m), t.reshape(p, nb, m, m)
                        fails, cols = [], []
                        exp = {"generic": min(mi, n), "mixed": min(mi, n), "eigcol": min(mi, n), "rankdef": min(mi, n, dim), "tolneg": min(mi, n, 2)}[kind]
                        if m != exp and (kind != "rankdef" or dim <= 9):
                            fails.append(f"count {m}, expected {exp}")
                        for c in range(p):
                            for b in range(nb):
                                Qc, Tc = qf[c, b], tf[c, b]
                                off = torch.diagonal(Tc, 1).tolist() if m > 1 else []
                                mc = prefix_len(off)
                                deficient = (c == cdef)
                                want = m if not deficient else (2 if kind == "mixed" else 1)
                                if kind == "rankdef":
                                    want = mc
                                if deficient and mc < min(want, m):
                                    fails.append(f"column (init {c}, batch {b}): off-diagonal entry {mc - 1} of T is {off[mc - 1]:.1e}, no breakdown expected before vector {want}")
                                # a small (but legitimate) off-diagonal entry of a generic column is no failure: its invariants are
                                # demanded on all returned vectors; only the comparison with the model stops at the model's margin
                                mc = min(mc, want) if (deficient or kind == "rankdef") else m
                                fails += [f"column (init {c}, batch {b}): " + f for f in column_prefix_fails(Af[b], Qc, Tc, mc, 1e-7)]
                                if not (torch.equal(Tc, Tc.T) or bool(torch.isnan(Tc).any())):
                                    fails.append(f"column (init {c}, batch {b}): T not symmetric")
                                if not deficient and not (torch.isfinite(Qc).all() and torch.isfinite(Tc).all()):
                                    fails.append(f"column (init {c}, batch {b}): non-finite entries")
                                if deficient:
                                    hcid = cid + f"/exhausted-column{'' if hz else '/' + HAZARD64}{hz}"
                                    chk.case(hcid)
                                    if not (torch.isfinite(Qc).all() and torch.isfinite(Tc).all()):
                                        chk.violation(hcid, f"column (init {c}, batch {b}): non-finite entries after its Krylov space was exhausted "
                                                      "(its residual, exactly 0, is divided by its norm while another column keeps the loop running)", payload)
                                cols.append((c, b, Qc, Tc, mc))
                        if fails:
                            chk.violation(cid, f"n={n} max_iter={mi} batch={batch} p={p}: " + "; ".join(fails[:3]), payload)
                            continue
                        lines.append((cid, kind, m, cols, coupled_line(A, v, mi, tol), payload, cdef))


def check_coupled(chk, lines):
    if not lines:
        return
    outs = chk.run_driver("C09", [c[4] for c in lines])
    if outs is None:
        return
    for (cid, kind, m, cols, line, payload, cdef), out in zip(lines, outs):
        d = dict(kv.split("=", 1) for kv in out.split() if "=" in kv)
        if d.get("err") != "ok":
            chk.corr_break(cid, f"coupled model says {out[:80]} but the implementation returned", payload)
            continue
        cm, passes = int(d["count"]), int(d["passes"])
        Qs = [pmat(x) for x in d["q"].split("|")]
        Ts = [pmat(x) for x in d["t"].split("|")]
        sup = pmat(d["sup"])  # C x L: every beta written (the one of the breaking iteration included)
        n_iter = min(int(line.split()[2]), int(line.split()[1]))
        if len(Qs) != len(cols):
            chk.corr_break(cid, f"coupled model returned {len(Qs)} columns for {len(cols)}", payload)
            continue
        if kind == "tolneg":
            exp_p = chk_extra_passes(n_iter)
            if passes != exp_p:
                chk.corr_break(cid, f"tol = -1: the model ran {passes} extra passes, {exp_p} expected", payload)
                continue
        elif passes != 0:
            chk.count("coupled_discard=extra-passes")
            continue
        # robustness of the threshold decisions of the shared loop: no beta written by the model (any column, any iteration,
        # the breaking one included) lies near the absolute 1e-6 — each is clearly above (> 1e-3), clearly below (< 1e-9) or NaN;
        # then rounding noise cannot flip a `beta.abs() > 1e-6` test, whatever way the tests of the columns are combined
        L = sup.shape[-1] if sup.numel() else 0
        own = [prefix_len(sup[i].tolist()[: max(cm - 1, 0)]) for i in range(len(cols))] if L else [1] * len(cols)
        robust = True
        if L:
            a = sup.abs()
            robust = bool(((a > 1e-3) | (a < 1e-9) | torch.isnan(sup)).all())
        if cm != m:
            if robust:
                chk.corr_break(cid, f"count: implementation {m}, coupled model {cm}", payload)
            else:
                chk.count("coupled_discard=margin")
            continue
        bad = None
        for i, (c, b, Qc, Tc, mc) in enumerate(cols):
            k = min(mc, own[i])
            if kind == "eigcol" and c == cdef:
                # exact breakdown in the first step: the whole column must agree, NaN pattern included
                same_nan = torch.equal(torch.isnan(Qc), torch.isnan(Qs[i])) and torch.equal(torch.isnan(Tc), torch.isnan(Ts[i]))
                e = max((torch.nan_to_num(Qc, nan=7.0) - torch.nan_to_num(Qs[i], nan=7.0)).abs().max().item(),
                        (torch.nan_to_num(Tc, nan=7.0) - torch.nan_to_num(Ts[i], nan=7.0)).abs().max().item())
                if not same_nan or e > 1e-9:
                    bad = f"column (init {c}, batch {b}) with an exactly vanishing first residual: NaN pattern / entries differ from the coupled model ({e:.1e})"
                elif not bool(torch.isnan(Qs[i][:, 1:]).all()):
                    bad = f"column (init {c}, batch {b}): the model does not produce 0/0 = NaN after the exact breakdown"
                continue
            if k < mc:
                chk.count("coupled_discard=column-margin")
            e = max((Qs[i][:, :k] - Qc[:, :k]).abs().max().item(),
                    (Ts[i][:k, :k] - Tc[:k, :k]).abs().max().item() / max(1.0, Tc[:k, :k].abs().max().item()))
            if not e <= 1e-7 * max(1, k):
                bad = f"column (init {c}, batch {b}): first {k} vectors / T block differ from the coupled model by {e:.2e}"
        if bad:
            chk.corr_break(cid, bad, payload)
        else:
            chk.traces_validated += 1
            chk.count("coupled_agree")


def chk_extra_passes(n_iter):
    """tol = -1: every inner product is above tol, so the first loop iteration with a re-orthogonalisation block runs all
    10 passes, `could_reorthogonalize` stays False and the loop is left (no block at all when num_iter = 2)"""
    return 10 if n_iter > 2 else 0



def run_mins(chk, seed):
    """`mins` of the jitter statements (RootDecomposition.forward / Diagonalization.forward, evaluated as the source writes
    them) against the Lean `minDiag` (driver `mind`) and the plain minimum of the diagonal; bit-for-bit."""
    from linear_operator import to_linear_operator
    cases = []
    for m in (1, 2, 3, 5, 8):
        for kind in ("generic", "ties", "negative", "min-first", "min-last"):
            cid = f"C09/jitter/mins/m={m}/{kind}/f64"
            g = gen_for(seed, cid)
            d = 1.0 + 3.0 * torch.rand(m, generator=g, dtype=F64)
            if kind == "ties":
                d = torch.round(d)
            elif kind == "negative":
                d = d - 2.5
            elif kind == "min-first":
                d[0] = 0.25
            elif kind == "min-last":
                d[-1] = 0.25
            off = torch.rand(max(m - 1, 0), generator=g, dtype=F64)
            T = torch.diag(d) + torch.diag(off, 1) + torch.diag(off, -1)
            cases.append((cid, T, d))
    outs = chk.run_driver("C09", [f"mind {T.shape[-1]} {fvec(d)}" for (_, T, d) in cases])
    if outs is None:
        return
    for (cid, T, d), out in zip(cases, outs):
        payload = {"kind": "mins", "seed": seed, "cell": cid}
        chk.case(f"{cid} d0={d[0].item()}", nontrivial=T.shape[-1] > 1)
        chk.count("jitter_mins")
        spec = min(d.tolist())
        impl_root = to_linear_operator(T)._diagonal().min(dim=-1, keepdim=True)[0].unsqueeze(-1)
        impl_diag = torch.diagonal(T, dim1=-1, dim2=-2).min(dim=-1, keepdim=True)[0]
        if float(impl_root.reshape(-1)[0]) != spec or float(impl_diag.reshape(-1)[0]) != spec or impl_root.numel() != 1 or impl_diag.numel() != 1:
            chk.violation(cid, f"mins of the jitter statements = {impl_root.tolist()} / {impl_diag.tolist()}, smallest diagonal entry {spec}", payload)
            continue
        if not out.startswith("min=") or unbits(out[4:]) != spec:
            chk.corr_break(cid, f"minDiag of the model gives {out[:40]}, implementation {spec}", payload)
        else:
            chk.traces_validated += 1



# ------------------------------------------------------------------------------------------------ start-vector scale

# scale decade -> the power of two next to it (scaling by a power of two is exact in binary floating point, so with the
# plain 2-norm normalisation q_0 = v/|v| the whole run is bit-for-bit independent of the factor unless |v|^2 under/overflows)
SCALES = {"1e-14": 2.0 ** -47, "1e-20": 2.0 ** -66, "1e-30": 2.0 ** -100, "1e+8": 2.0 ** 27, "1e+30": 2.0 ** 100}


def scale_decades(dt):
    # since 894ea76 the start vector is normalised in two steps (largest entry first), so |v|^2 may under/overflow in the
    # working precision (float32: 1e-20, 1e-30, 1e+30) without harm: ordinary cells (they were the finding fixed by that commit)
    return ("1e-14", "1e-20", "1e-30", "1e+8", "1e+30")


def run_scale(chk, seed, corr_lines, coupled_lines):
    """SUPPLIED start vectors of very small / very large norm: Q and T do not depend on a positive factor of a start vector
    (`lanczos_start_scale_invariant`, `lanczos_multi_start_scale_invariant`), q_0 = v/|v| to working precision, all
    invariants hold, the healthy columns of a call with ONE tiny column are untouched (shared count included), and
    root_inv_decomposition(initial_vectors = scaled probes) still reproduces the inverse at full budget."""
    from linear_operator import settings
    from linear_operator.operators import DenseLinearOperator
    from linear_operator.utils.lanczos import lanczos_tridiag
    sizes = (4, 6) if chk.tier == "quick" else (3, 4, 6, 8)
    for dt in ("f64", "f32"):
        dtype = DT[dt]
        eq_tol = 1e-10 if dt == "f64" else 1e-4
        for n in sizes:
            for batch in ((), (2,)):
                nb = 2 if batch else 1
                for cols_kind, p in (("one", 1), ("many-all", 3), ("many-one-tiny", 3)):
                    for mk in ("n", "half"):
                        mi = budgets(n)[mk]
                        for dec in scale_decades(dt):
                            sc = SCALES[dec]
                            cid = f"C09/scale/lanczos/n={n}/b={'x'.join(map(str, batch)) or '-'}/cols={cols_kind}/mi={mk}/s={dec}/{dt}"
                            g = gen_for(seed, cid.replace(f"/s={dec}", ""))  # the same A, v for every decade
                            A64, _ = make_A(g, "fullrank", n, batch)
                            A = A64.to(dtype)
                            v = torch.randn(*batch, n, p, generator=g, dtype=F64).to(dtype)
                            tiny = int(torch.randint(0, p, (1,), generator=g))
                            fac = torch.ones(p, dtype=dtype)
                            if cols_kind == "many-one-tiny":
                                fac[tiny] = sc
                            else:
                                fac[:] = sc
                            vs = v * fac
                            payload = {"kind": "scale", "seed": seed, "cell": cid}
                            chk.case(f"{cid} A0={A.reshape(-1)[:3].tolist()}")
                            chk.count(f"scale={dec}/{dt}")
                            try:
                                q, t = lanczos_tridiag(lambda x: A @ x, mi, dtype=dtype, device=A.device, matrix_shape=A.shape[-2:],
                                                       batch_shape=A.shape[:-2], init_vecs=vs)
                                q0, t0 = lanczos_tridiag(lambda x: A @ x, mi, dtype=dtype, device=A.device, matrix_shape=A.shape[-2:],
                                                         batch_shape=A.shape[:-2], init_vecs=v)
                            except Exception as e:  # noqa: BLE001
                                chk.violation(cid, f"raised {type(e).__name__}: {str(e)[:100]}", payload)
                                continue
                            fails, cols = invariants(A, vs, q, t, mi, dtype, "fullrank", n, False)
                            if not fails:
                                if q.shape != q0.shape:
                                    fails.append(f"count {q.shape[-1]} with the scaled start vector(s), {q0.shape[-1]} with the unscaled ones")
                                else:
                                    e = max((q - q0).abs().max().item(), (t - t0).abs().max().item())
                                    if not e <= eq_tol:
                                        fails.append(f"Q/T change by {e:.2e} when the start vector(s) are multiplied by {dec} (factor(s) {fac.tolist()})")
                            if fails:
                                chk.violation(cid, f"n={n} max_iter={mi} batch={batch} start vectors x {fac.tolist()}: " + "; ".join(fails[:3]), payload)
                                continue
                            if dt != "f64":
                                continue
                            # the Float model on the SCALED vectors (exact bit patterns)
                            if p * nb == 1:
                                c, b, Qc, Tc = cols[0]
                                corr_lines.append((cid, "ok", Qc, Tc, f"lz {n} {mi} d {fmat(A64)} {fvec(vs.to(F64)[:, 0])}", dict(payload, dtype="f64")))
                            else:
                                m = q.shape[-1]
                                ccols = [(c, b, Qc, Tc, m) for (c, b, Qc, Tc) in cols]
                                coupled_lines.append((cid, "generic", m, ccols, coupled_line(A64, vs.to(F64), mi, None), payload, None))
                # ---- end to end: inverse root from scaled probes, full budget
                for probes, p in (("one", 1), ("many-one-tiny", 3)):
                    for dec in scale_decades(dt):
                        sc = SCALES[dec]
                        cid = f"C09/scale/root_inv/n={n}/b={'x'.join(map(str, batch)) or '-'}/probes={probes}/s={dec}/{dt}"
                        g = gen_for(seed, cid.replace(f"/s={dec}", ""))
                        A64, _ = make_A(g, "fullrank", n, batch)
                        A = A64.to(dtype)
                        v = torch.randn(*batch, n, p, generator=g, dtype=F64).to(dtype)
                        tv = torch.randn(*batch, n, 2, generator=g, dtype=F64).to(dtype)
                        fac = torch.ones(p, dtype=dtype)
                        fac[int(torch.randint(0, p, (1,), generator=g))] = sc
                        payload = {"kind": "scale", "seed": seed, "cell": cid}
                        chk.case(f"{cid} A0={A.reshape(-1)[:3].tolist()}")
                        chk.count(f"scale_root_inv={dec}/{dt}")
                        try:
                            with settings.max_root_decomposition_size(n):
                                R = DenseLinearOperator(A).root_inv_decomposition(initial_vectors=v * fac, test_vectors=tv, method="lanczos").root.to_dense()
                                R0 = DenseLinearOperator(A).root_inv_decomposition(initial_vectors=v, test_vectors=tv, method="lanczos").root.to_dense()
                        except Exception as e:  # noqa: BLE001
                            chk.violation(cid, f"raised {type(e).__name__}: {str(e)[:100]}", payload)
                            continue
                        Rd = R.to(F64)
                        e = (Rd @ Rd.mT @ A64 - torch.eye(n, dtype=F64)).abs().max().item()
                        e0 = ((Rd @ Rd.mT) - (R0.to(F64) @ R0.to(F64).mT)).abs().max().item()
                        lim = 1e-4 if dt == "f64" else 2e-2
                        if not e < lim:
                            chk.violation(cid, f"(R Rt) A - I = {e:.2e} with initial_vectors x {fac.tolist()} (full budget)", payload)
                        elif not e0 < lim * 1e-2:
                            chk.violation(cid, f"R Rt changes by {e0:.2e} when one initial vector is multiplied by {dec}", payload)


# ------------------------------------------------------------------------------------------------ layer C

class Tap:
    """wraps linear_operator.utils.lanczos.lanczos_tridiag (as the functions reach it: `lanczos.lanczos_tridiag`)"""

    def __init__(self):
        import linear_operator.utils.lanczos as L
        self.L = L
        self.real = L.lanczos_tridiag
        self.calls = []

    def __enter__(self):
        def wrapped(*a, **k):
            q, t = self.real(*a, **k)
            self.calls.append((q.detach().clone(), t.detach().clone(), k.get("init_vecs")))
            return q, t
        self.L.lanczos_tridiag = wrapped
        return self

    def __exit__(self, *exc):
        self.L.lanczos_tridiag = self.real


def op_instances(seed, n, batch, dtype, tier):
    import random
    rng = random.Random(f"C09ops:{seed}:{n}:{batch}:{dtype}")
    # classes whose root_decomposition / diagonalization is the base-class one (Lanczos runs on the operator itself)
    names = ["Dense[psd]", "Toeplitz", "AddedDiag", "PsdSum", "Sum[toeplitz+diag]", "Interpolated[sym]",
             "LowRankRootAddedDiag"]
    out = []
    try:
        insts = catalogue.instances(rng, dtype=dtype, batch=batch, n=n, psd=True, depth=2, classes=names)
    except Exception:  # noqa: BLE001
        insts = []
    for it in insts:
        if it.psd and it.square:
            out.append(it)
    return out


def jittered(T, jit):
    mins = torch.diagonal(T, dim1=-1, dim2=-2).min(dim=-1, keepdim=True)[0].unsqueeze(-1)
    return T + jit * mins * torch.eye(T.shape[-1], dtype=T.dtype)


def pos_part(M):
    w, V = torch.linalg.eigh((M + M.mT) / 2)
    return (V * w.clamp_min(0).unsqueeze(-2)) @ V.mT, w


def run_ops(chk, seed, post_lines):
    import linear_operator
    from linear_operator import settings
    from linear_operator.operators import DenseLinearOperator
    jit = float(settings.tridiagonal_jitter.value())
    todo = []
    sizes = [3, 5] if chk.tier == "quick" else [3, 4, 6, 9]
    for dt in ("f64", "f32"):
        for batch in ((), (2,)):
            for n in sizes:
                # dense-backed with a prescribed spectrum
                for fam in ("fullrank", "rankdef", "repeated"):
                    g = gen_for(seed, f"ops/{fam}/{n}/{batch}/{dt}")
                    A64, dim = make_A(g, fam, n, batch)
                    if fam != "fullrank":
                        A64 = A64 + 0.5 * torch.eye(n, dtype=F64)  # positive definite, Krylov dimension unchanged
                    todo.append((f"Dense[{fam}]", n, batch, dt, (lambda A=A64, dt=dt: DenseLinearOperator(A.to(DT[dt]))), A64, dim))
                # symmetric with one clearly negative eigenvalue: negative Ritz values are masked (value 1, zero vector)
                g = gen_for(seed, f"ops/indef/{n}/{batch}/{dt}")
                A64, dim = make_A(g, "fullrank", n, batch)
                w_, V_ = torch.linalg.eigh(A64)
                w_ = w_.clone()
                w_[..., 0] = -1.5
                A64 = (V_ * w_.unsqueeze(-2)) @ V_.mT
                A64 = (A64 + A64.mT) / 2
                todo.append(("Dense[indef]", n, batch, dt, (lambda A=A64, dt=dt: DenseLinearOperator(A.to(DT[dt]))), A64, None))
                if (n == sizes[0] or chk.tier != "quick") and batch == ():
                    # integer-valued catalogue instances: unbatched only (exact breakdowns of one column of a
                    # multi-column call are a separate, known hazard), separated spectra only
                    for it in op_instances(seed, n, batch, DT[dt], chk.tier):
                        w = torch.linalg.eigvalsh(it.dense.to(F64))
                        if it.shape[-1] > 1 and float((w[..., 1:] - w[..., :-1]).min()) < 1e-2:
                            chk.count("ops_skipped=repeated-eigenvalues")
                            continue
                        todo.append((it.name, it.shape[-1], batch, dt, it.build, it.dense.to(F64), None))
    for (name, n, batch, dt, build, A64, dim) in todo:
        dtype = DT[dt]
        for budget in ("full", "half"):
            m_max = n + 2 if budget == "full" else max(2, n // 2)
            for what in ("root", "root_inv", "root_inv[probes]", "diag"):
                if what == "root_inv[probes]" and dim is None:
                    continue
                if name == "Dense[indef]" and (what != "root" and what != "diag"):
                    continue
                cid = f"C09/post/{what}/{name}/n={n}/b={'x'.join(map(str, batch)) or '-'}/budget={budget}/{dt}"
                if name.startswith("Dense[r"):
                    cid += hazard_tag(name[6:-1], n, dt, bool(batch) or what == "root_inv[probes]", m_max)
                payload = {"kind": "ops", "seed": seed, "cell": cid}
                g = gen_for(seed, cid)
                rand_seed = int(torch.randint(0, 2 ** 31 - 1, (1,), generator=g))
                chk.count(f"post={what}")
                chk.count(f"class={name.split('[')[0].split('(')[0]}")
                chk.case(cid)
                state = torch.random.get_rng_state()
                try:
                    torch.manual_seed(rand_seed)
                    op = build()
                    iv = tv = None
                    with settings.max_root_decomposition_size(m_max), Tap() as tap:
                        if what == "root":
                            res = op.root_decomposition(method="lanczos").root.to_dense()
                        elif what == "root_inv":
                            res = op.root_inv_decomposition(method="lanczos").root.to_dense()
                        elif what == "root_inv[probes]":
                            iv = torch.randn(*batch, n, 3, generator=g, dtype=F64).to(dtype)
                            tv = torch.randn(*batch, n, 2, generator=g, dtype=F64).to(dtype)
                            res = op.root_inv_decomposition(initial_vectors=iv, test_vectors=tv, method="lanczos").root.to_dense()
                        else:
                            evals, evecs = op.diagonalization(method="lanczos")
                            evecs = evecs.to_dense()
                            res = None
                except Exception as e:  # noqa: BLE001
                    chk.violation(cid, f"raised {type(e).__name__}: {str(e)[:120]}", payload)
                    continue
                finally:
                    torch.random.set_rng_state(state)
                if len(tap.calls) != 1:
                    chk.violation(cid, f"{len(tap.calls)} calls of lanczos_tridiag (expected 1)", payload)
                    continue
                q, t, init = tap.calls[0]
                p = 3 if what == "root_inv[probes]" else 1
                vv = init if init is not None else None
                # invariants of the witness (Q, T) against the dense operator
                if vv is None:
                    # the random start vector is q_0 itself
                    qq = q if p > 1 else q.unsqueeze(0)
                    vv = qq[..., :, 0].movedim(0, -1) if p > 1 else q[..., :, 0:1]
                fam = name[6:-1] if name.startswith("Dense[") else "ops"
                fails, cols = invariants(A64.to(dtype), vv.to(dtype), q, t, m_max, dtype,
                                         "opsfree" if dim is None else fam, dim if dim is not None else n, True)
                if dim is None:
                    fails = [f for f in fails if not f.startswith("count")]
                if fails:
                    chk.violation(cid, "witness (Q,T) of the wrapped lanczos_tridiag call: " + "; ".join(fails[:3]), payload)
                    continue
                tol = rel_tol(dtype, True) * 20
                Af = A64
                scale = max(1.0, float(Af.abs().max()))
                qd, td = q.to(F64), t.to(F64)
                if p == 1:
                    qd, td = qd.unsqueeze(0), td.unsqueeze(0)
                Tj = jittered(td, jit)
                comp, w = pos_part(Tj)
                target = qd @ comp @ qd.mT  # p,*b,n,n
                if name == "Dense[indef]" and budget == "full":
                    chk.count("post_masked_ritz=" + ("yes" if bool((w < 0).any()) else "no"))
                m = qd.shape[-1]
                full = m == n
                if what == "root":
                    rr = (res.to(F64) @ res.to(F64).mT)
                    e = (rr - target[0]).abs().max().item()
                    if e > tol * scale:
                        chk.violation(cid, f"R Rt differs from Q (T+jI)+ Qt by {e:.2e}", payload)
                        continue
                    if full and name != "Dense[indef]":
                        e = (rr - Af).abs().max().item()
                        if e > (tol + 10 * jit) * scale * 4:
                            chk.violation(cid, f"full Krylov dimension: R Rt - A = {e:.2e}", payload)
                            continue
                    # model of the assembly on the first batch member
                    ev, V = torch.linalg.eigh(Tj[0].reshape(-1, m, m)[0])
                    post_lines.append((cid, res.to(F64).reshape(-1, n, m)[0], None,
                                       f"post {n} {m} {fmat(qd[0].reshape(-1, n, m)[0])} {fvec(ev)} {fmat(V)}", payload, dt))
                elif what.startswith("root_inv"):
                    if (w <= 1e-6).any():
                        chk.count("post_discard=nonpositive-ritz")
                        continue
                    inv_t = qd @ torch.linalg.inv(Tj) @ qd.mT  # p,*b,n,n
                    rr = res.to(F64) @ res.to(F64).mT
                    errs = [(rr - inv_t[c]).abs().max().item() for c in range(p)]
                    cond = float(w.max() / w.min())
                    if min(errs) > tol * max(1.0, cond) * float(1 / w.min()):
                        chk.violation(cid, f"inverse root: R Rt differs from Q (T+jI)^-1 Qt of every probe by {min(errs):.2e}", payload)
                        continue
                    if p > 1:
                        # the chosen probe must have the smallest residual on the test vectors
                        tvd = tv.to(F64)
                        resid = [((Af @ (inv_t[c] @ tvd)) - tvd).norm(2, dim=-2).sum().item() for c in range(p)]
                        chosen = min(range(p), key=lambda c: errs[c])
                        best = min(resid)
                        if resid[chosen] > best * (1 + 1e-3) + 1e-6:
                            if sorted(resid)[1] - best > 1e-3 * max(1.0, best):
                                chk.violation(cid, f"probe selection: chosen residual {resid[chosen]:.3e}, best {best:.3e}", payload)
                                continue
                            chk.count("post_discard=probe-tie")
                    if full and p == 1:
                        e = (rr @ Af - torch.eye(n, dtype=F64)).abs().max().item()
                        if e > (tol + 10 * jit) * cond * 4:
                            chk.violation(cid, f"full Krylov dimension: (R Rt) A - I = {e:.2e}", payload)
                            continue
                    if p == 1:
                        ev, V = torch.linalg.eigh(Tj[0].reshape(-1, m, m)[0])
                        post_lines.append((cid, None, res.to(F64).reshape(-1, n, m)[0],
                                           f"post {n} {m} {fmat(qd[0].reshape(-1, n, m)[0])} {fvec(ev)} {fmat(V)}", payload, dt))
                else:
                    ed, Vd = evals.to(F64), evecs.to(F64)
                    rec = (Vd * ed.unsqueeze(-2)) @ Vd.mT
                    # masked Ritz pairs (value 1, zero vector) contribute nothing
                    e = (rec - target[0]).abs().max().item()
                    if e > tol * scale:
                        chk.violation(cid, f"diagonalization: V diag(e) Vt differs from Q (T+jI)+ Qt by {e:.2e}", payload)
                        continue
                    if (w > 0).all():
                        e = (Vd.mT @ Vd - torch.eye(m, dtype=F64)).abs().max().item()
                        if e > tol:
                            chk.violation(cid, f"diagonalization: eigenvectors not orthonormal ({e:.2e})", payload)
                            continue
                    if full and name != "Dense[indef]":
                        e = (rec - Af).abs().max().item()
                        if e > (tol + 10 * jit) * scale * 4:
                            chk.violation(cid, f"full Krylov dimension: V diag(e) Vt - A = {e:.2e}", payload)
                            continue
                chk.traces_validated += 0


def run_scaled(chk, seed):
    """root / root_inv (+ the root it caches) / diagonalization with method="lanczos", float64, full Krylov dimension,
    on matrices of scale 1e-4 … 1e3 and condition number up to 1e4.  All tolerances are RELATIVE to |A| resp. |A^-1| and
    follow the DOCUMENTED jitter (1e-6 x the smallest diagonal entry of T): an absolute floor / clamp of the jitter, or a
    jitter taken from another reference value, shows as soon as T has a diagonal entry well below 1."""
    from linear_operator import settings
    from linear_operator.operators import DenseLinearOperator
    jit = float(settings.tridiagonal_jitter.value())
    sizes = (3, 5) if chk.tier == "quick" else (3, 4, 5, 6)
    combos = [(1e-4, 4.0), (1e-3, 4.0), (1e-3, 1e2), (1.0, 1e2), (1.0, 1e3), (1.0, 1e4), (1e3, 4.0), (1e3, 1e4), (1e-2, 1e3)]
    for n in sizes:
        for batch in ((), (2,)):
            for (scale, kappa) in combos:
                base = f"n={n}/b={'x'.join(map(str, batch)) or '-'}/scale={scale:g}/cond={kappa:g}/f64"
                g = gen_for(seed, "scaled/" + base)
                nb = 2 if batch else 1
                mats = []
                for _ in range(nb):
                    u = torch.rand(n, generator=g, dtype=F64)
                    expo = (torch.arange(n, dtype=F64) + 0.3 * u) / (n - 1 + 0.3)
                    lam = scale * kappa ** (-expo)
                    Q0 = orth(g, n)
                    M = (Q0 * lam.unsqueeze(0)) @ Q0.T
                    mats.append((M + M.T) / 2)
                A = torch.stack(mats).reshape(*batch, n, n)
                normA = float(torch.linalg.matrix_norm(A, 2).max())
                Ainv = torch.linalg.inv(A)
                normAinv = float(torch.linalg.matrix_norm(Ainv, 2).max())
                eye = torch.eye(n, dtype=F64)
                for what in ("root", "root_inv", "diag"):
                    cid = f"C09/post-scaled/{what}/{base}"
                    payload = {"kind": "scaled", "seed": seed, "cell": cid}
                    rand_seed = int(torch.randint(0, 2 ** 31 - 1, (1,), generator=g))
                    chk.case(cid)
                    chk.count(f"post-scaled={what}")
                    state = torch.random.get_rng_state()
                    cached = None
                    try:
                        torch.manual_seed(rand_seed)
                        op = DenseLinearOperator(A.clone())
                        with settings.max_root_decomposition_size(n + 2), Tap() as tap:
                            if what == "root":
                                res = op.root_decomposition(method="lanczos").root.to_dense()
                            elif what == "root_inv":
                                res = op.root_inv_decomposition(method="lanczos").root.to_dense()
                                ncalls = len(tap.calls)
                                cached = op.root_decomposition().root.to_dense()  # cached by _root_inv_decomposition
                                if len(tap.calls) != ncalls:
                                    cached = None
                            else:
                                evals, evecs = op.diagonalization(method="lanczos")
                                evecs = evecs.to_dense()
                    except Exception as e:  # noqa: BLE001
                        chk.violation(cid, f"raised {type(e).__name__}: {str(e)[:120]}", payload)
                        continue
                    finally:
                        torch.random.set_rng_state(state)
                    if len(tap.calls) < 1:
                        chk.violation(cid, "lanczos_tridiag was not called", payload)
                        continue
                    q, t, _ = tap.calls[0]
                    if q.shape[-1] != n:
                        # the absolute 1e-6 of the break test stops small-norm problems early: not the subject here
                        chk.count("scaled_discard=early-break")
                        continue
                    e1 = (q.mT @ q - eye).abs().max().item()
                    e2 = (q.mT @ A @ q - t).abs().max().item()
                    if e1 > 1e-8 or e2 > 1e-8 * normA:
                        chk.violation(cid, f"witness (Q,T): QtQ-I={e1:.1e}, QtAQ-T={e2:.1e} (|A|={normA:.1e})", payload)
                        continue
                    Tj = jittered(t, jit)
                    wj = torch.linalg.eigvalsh(Tj)
                    if float(wj.min()) <= 0:
                        chk.count("scaled_discard=nonpositive-ritz")
                        continue
                    target = q @ Tj @ q.mT
                    jrel = jit * float(torch.diagonal(t, dim1=-1, dim2=-2).min(-1)[0].abs().max())
                    if what == "root":
                        rr = res @ res.mT
                        e = (rr - target).abs().max().item()
                        ea = (rr - A).abs().max().item()
                        if e > 1e-9 * normA:
                            chk.violation(cid, f"R Rt differs from Q (T + 1e-6 min(diag T) I) Qt by {e:.2e} = {e / normA:.1e} |A| (documented relative jitter)", payload)
                        elif ea > 2 * jrel + 1e-9 * normA:
                            chk.violation(cid, f"R Rt - A = {ea:.2e} = {ea / normA:.1e} |A|, documented jitter allows {jrel:.1e}", payload)
                    elif what == "root_inv":
                        rr = res @ res.mT
                        inv_t = q @ torch.linalg.inv(Tj) @ q.mT
                        e = (rr - inv_t).abs().max().item()
                        if e > 1e-7 * normAinv:
                            chk.violation(cid, f"inverse root: R Rt differs from Q (T + 1e-6 min(diag T) I)^-1 Qt by {e:.2e} = {e / normAinv:.1e} |A^-1|", payload)
                            continue
                        if cached is not None:
                            cc = cached @ cached.mT
                            e = (cc - target).abs().max().item()
                            if e > 1e-9 * normA:
                                chk.violation(cid.replace("/root_inv/", "/root_inv.cached_root/"), f"root cached by _root_inv_decomposition: R Rt differs from Q (T + jI) Qt by {e / normA:.1e} |A|", payload)
                    else:
                        rec = (evecs * evals.unsqueeze(-2)) @ evecs.mT
                        e = (rec - target).abs().max().item()
                        eo = (evecs.mT @ evecs - eye).abs().max().item()
                        # code as it is (open finding): Diagonalization adds the jitter to EVERY entry of T
                        jm = jit * torch.diagonal(t, dim1=-1, dim2=-2).min(dim=-1, keepdim=True)[0].unsqueeze(-1)
                        asis = q @ (t + jm * torch.ones(n, n, dtype=F64)) @ q.mT
                        e_asis = (rec - asis).abs().max().item()
                        if min(e, e_asis) > 1e-9 * normA or eo > 1e-8:
                            chk.violation(cid, f"diagonalization: V diag(e) Vt differs from Q (T + 1e-6 min(diag T) I) Qt by {e / normA:.1e} |A| "
                                          f"(and from the all-entries variant by {e_asis / normA:.1e} |A|); VtV-I={eo:.1e}", payload)
                            continue
                        dcid = cid.replace("/diag/", "/diag.jitter-on-diagonal-only/")
                        chk.case(dcid)
                        if e > 1e-9 * normA:
                            chk.violation(dcid, f"Diagonalization.forward adds the tridiagonal jitter to every entry of T, not to its diagonal: "
                                          f"V diag(e) Vt - Q (T + jI) Qt = {e / normA:.1e} |A|", payload)


def check_post(chk, post_lines):
    if not post_lines:
        return
    outs = chk.run_driver("C09", [c[3] for c in post_lines])
    if outs is None:
        return
    for (cid, root, inv, line, payload, dt), out in zip(post_lines, outs):
        d = dict(kv.split("=", 1) for kv in out.split() if "=" in kv)
        if "root" not in d:
            chk.corr_break(cid, f"model: {out[:80]}", payload)
            continue
        ref, got = (root, pmat(d["root"])) if root is not None else (inv, pmat(d["inv"]))
        # eigenvector signs / order are those of the same torch.linalg.eigh call, so the factors are comparable
        tol = 1e-6 if dt == "f64" else 5e-2
        sc = max(1.0, ref.abs().max().item())
        e = min((got - ref).abs().max().item(), ((got @ got.T) - (ref @ ref.T)).abs().max().item())
        if e > tol * sc * sc:
            chk.corr_break(cid, f"assembly model differs from the implementation by {e:.2e}", payload)
        else:
            chk.traces_validated += 1


def run_slq(chk, seed):
    """StochasticLQ.to_dense on Lanczos tridiagonals: (n/p) Σ_j e1ᵀ f(T_j) e1, = (n/p) Σ_j u_jᵀ f(A) u_j at full dimension"""
    from linear_operator.utils.lanczos import lanczos_tridiag, lanczos_tridiag_to_diag
    from linear_operator.utils.stochastic_lq import StochasticLQ
    for n in (3, 6):
        for batch in ((), (2,)):
            cid = f"C09/slq/to_dense/n={n}/b={'x'.join(map(str, batch)) or '-'}/f64"
            g = gen_for(seed, cid)
            A, _ = make_A(g, "fullrank", n, batch)
            p = 4
            v = torch.randn(*batch, n, p, generator=g, dtype=F64)
            payload = {"kind": "slq", "seed": seed, "cell": cid}
            chk.case(cid)
            try:
                q, t = lanczos_tridiag(lambda x: A @ x, n, dtype=F64, device=A.device, matrix_shape=A.shape[-2:], batch_shape=A.shape[:-2], init_vecs=v)
                evals, evecs = lanczos_tridiag_to_diag(t)
                (ld, tr, ti) = StochasticLQ(max_iter=n, num_random_probes=p).to_dense(
                    A.shape[-2:], evals, evecs, [lambda x: x.log(), lambda x: x.reciprocal(), lambda x: x])
                (tr_only,) = StochasticLQ(max_iter=n, num_random_probes=p).to_dense(A.shape[-2:], evals, evecs, [lambda x: x.reciprocal()])
            except Exception as e:  # noqa: BLE001
                chk.violation(cid, f"raised {type(e).__name__}: {str(e)[:100]}", payload)
                continue
            u = v / v.norm(dim=-2, keepdim=True)
            w, V = torch.linalg.eigh(A)
            logA = (V * w.log().unsqueeze(-2)) @ V.mT
            invA = torch.linalg.inv(A)
            ld_ref = n / p * (u * (logA @ u)).sum((-2, -1))
            tr_ref = n / p * (u * (invA @ u)).sum((-2, -1))
            ti_ref = n / p * (u * (A @ u)).sum((-2, -1))
            errs = {"log": (ld - ld_ref).abs().max().item(), "reciprocal": (tr - tr_ref).abs().max().item(),
                    "identity": (ti - ti_ref).abs().max().item(), "reciprocal alone": (tr_only - tr_ref).abs().max().item()}
            if max(errs.values()) > 1e-7:
                chk.violation(cid, "SLQ estimate of several functions in one call differs from (n/p) Σ uᵀ f(A) u: "
                              + ", ".join(f"{k}: {v:.1e}" for k, v in errs.items()), payload)
            # orthonormal probes (p = n): the estimate is the exact trace — against dense traces
            tcid = cid.replace("to_dense", "to_dense[traces]")
            chk.case(tcid)
            U = torch.stack([orth(g, n) for _ in range(max(1, A.reshape(-1, n, n).shape[0]))]).reshape(*batch, n, n)
            try:
                q2, t2 = lanczos_tridiag(lambda x: A @ x, n, dtype=F64, device=A.device, matrix_shape=A.shape[-2:], batch_shape=A.shape[:-2], init_vecs=U)
                ev_, evc_ = lanczos_tridiag_to_diag(t2)
                out = StochasticLQ(max_iter=n, num_random_probes=n).to_dense(A.shape[-2:], ev_, evc_, [lambda x: x.log(), lambda x: x.reciprocal(), lambda x: x])
            except Exception as e:  # noqa: BLE001
                chk.violation(tcid, f"raised {type(e).__name__}: {str(e)[:100]}", payload)
                continue
            refs = [torch.logdet(A), torch.diagonal(invA, dim1=-1, dim2=-2).sum(-1), torch.diagonal(A, dim1=-1, dim2=-2).sum(-1)]
            es = [(o - r).abs().max().item() for o, r in zip(out, refs)]
            shapes_ok = all(tuple(o.shape) == tuple(batch) for o in out)
            if len(out) != 3 or not shapes_ok or max(es) > 1e-7:
                chk.violation(tcid, f"SLQ with an orthonormal probe set vs dense traces [logdet, tr A^-1, tr A]: errors {['%.1e' % x for x in es]}, shapes ok={shapes_ok}", payload)
            # masking, directly against torch.linalg.eigh: a negative Ritz value becomes 1 and its eigenvector COLUMN is zeroed
            for variant, shift in (("one-negative", None), ("several-negative", 2.5), ("none-negative", 0.0)):
                for dt2 in (F64, F32):
                    tm = t.clone()
                    if shift is None:
                        tm[..., 0, 0] = -5.0
                    else:
                        tm = tm - shift * torch.eye(n, dtype=F64)
                    tm = tm.to(dt2)
                    mcid = f"C09/to_diag/mask[{variant}]/n={n}/b={'x'.join(map(str, batch)) or '-'}/{'f64' if dt2 == F64 else 'f32'}"
                    chk.case(mcid)
                    chk.count("to_diag=" + variant)
                    ev2, V2 = lanczos_tridiag_to_diag(tm.clone())
                    w2, U2 = torch.linalg.eigh(tm.cpu())
                    keep = w2 >= 0
                    exp_ev = torch.where(keep, w2, torch.ones_like(w2))
                    exp_V = U2 * keep.to(U2.dtype).unsqueeze(-2)
                    bad = []
                    if not torch.equal(ev2, exp_ev):
                        bad.append("eigenvalues (negative ones must become 1, the others stay)")
                    if not torch.equal(V2, exp_V):
                        bad.append("eigenvectors (the COLUMNS of negative Ritz values must be zeroed, everything else unchanged)")
                    if variant != "none-negative" and bool(keep.all()):
                        bad.append("test input has no negative Ritz value")
                    rec = (V2 * ev2.unsqueeze(-2)) @ V2.mT
                    pos = (U2 * w2.clamp_min(0).unsqueeze(-2)) @ U2.mT
                    if (rec - pos).abs().max().item() > (1e-9 if dt2 == F64 else 1e-3):
                        bad.append("V diag(e) Vt is not the positive part of T")
                    if bad:
                        chk.violation(mcid, "lanczos_tridiag_to_diag vs torch.linalg.eigh: " + "; ".join(bad), payload)


# ------------------------------------------------------------------------------------------------ entry points

def translator_checks(chk, d):
    import inspect
    import linear_operator.utils.lanczos as L
    from linear_operator import settings
    sig = inspect.signature(L.lanczos_tridiag)
    dyn_tol = sig.parameters["tol"].default
    if d["tol"] is None or abs(float(d["tol"]) - dyn_tol) > 1e-18:
        chk.proof_break("translator(tol)", f"extracted {d['tol']} but the run-time default is {dyn_tol}")
    if d["tridiagonal_jitter"] is None or abs(float(d["tridiagonal_jitter"]) - settings.tridiagonal_jitter.value()) > 1e-18:
        chk.proof_break("translator(tridiagonal_jitter)", f"extracted {d['tridiagonal_jitter']}, run-time {settings.tridiagonal_jitter.value()}")
    if d["max_root_decomposition_size"] is None or int(d["max_root_decomposition_size"]) != settings.max_root_decomposition_size.value():
        chk.proof_break("translator(max_root_decomposition_size)", "extracted value differs from run time")
    if [a for a, _ in d["params"]] != list(sig.parameters):
        chk.proof_break("translator(params)", f"{d['params']} vs {list(sig.parameters)}")


def run(chk):
    torch.set_num_threads(2)
    d = c09_lanczos.generate()
    translator_checks(chk, d)
    chk.prove("LinOp.Properties.C09", ["LinOp/C09", "LinOp/Generated/C09Consts.lean"])
    seed = chk.seed
    corr_lines, post_lines = [], []
    reps = 1 if chk.tier == "quick" else 2
    for cell in layer_a_cells(chk.tier):
        for rep in range(reps):
            run_lanczos_cell(chk, seed, *cell, corr_lines, rep=rep)
    run_special(chk, seed, corr_lines)
    run_mixed(chk, seed, corr_lines)
    coupled_lines = []
    run_coupled(chk, seed, coupled_lines)
    run_scale(chk, seed, corr_lines, coupled_lines)
    run_ops(chk, seed, post_lines)
    run_scaled(chk, seed)
    run_slq(chk, seed)
    check_corr(chk, corr_lines)
    check_post(chk, post_lines)
    check_coupled(chk, coupled_lines)
    run_mins(chk, seed)
    chk.extra["correspondence_lines"] = len(corr_lines) + len(post_lines) + len(coupled_lines)
    chk.extra["coupled_lines"] = len(coupled_lines)
    chk.rule = ("cells = spectrum family {fullrank, rankdef, repeated, int} x n in 2..64 x batch shape x init kind {single, multi(3), "
                "random(1,2) via seeded torch.randn} x max_iter in {1,2,n/2,n-1,n,n+2} x {f32,f64} x optional tol; values are drawn "
                "from generators keyed by (VERIF_SEED, cell id); plus eigenvector-start and 1x1 cells, operator cells "
                "(class x budget x {root, root_inv, root_inv[probes], diagonalization}), SLQ cells, coupled cells (kind {generic, mixed, "
                "rankdef, eigcol, tolneg} x n x batch x number of start vectors x budget, replayed as ONE run of the coupled model) and "
                "min-diagonal cells. A case is distinct by its "
                "cell id, repetition and leading matrix entries; non-trivial when n > 1.")
    chk.assumptions = [
        "theorems are over exact ordered fields with a lawful sqrt; float rounding is bridged only by the toleranced checks",
        "torch.linalg.eigh is a parameter of the post-processing model (contract V diag(θ) Vᵀ = T + jI, VᵀV = I)",
        "the Float model replays single columns (`lz`, layer B) and whole multi-column calls with the coupled model (`lzm`, "
        "C09/coupled/*: shared count, per-column Q/T prefix up to the column's own breakdown, NaN pattern of an exactly exhausted "
        "column, the 10 extra passes and the could_reorthogonalize exit with tol = -1); count comparisons are demanded when no beta "
        "of the model lies in [1e-9, 1e-3]; extra passes triggered by ONE column only are not produced by any cell",
        "StochasticLQ.lanczos_batch is dead code (raises in debug mode: batch_shape=rhs.shape[-2:]); only to_dense is checked",
    ]


def replay(chk, payload):
    torch.set_num_threads(2)
    p = payload["payload"]
    seed = p.get("seed", payload.get("seed", 0))
    corr, post = [], []
    if p["kind"] == "lanczos":
        fam, n, batch, init, mk, dt = p["cell"]
        run_lanczos_cell(chk, seed, fam, n, tuple(batch), init, mk, dt, corr, rep=p.get("rep", 0))
        check_corr(chk, corr)
    elif p["kind"] == "special":
        run_special(chk, seed, corr)
        check_corr(chk, corr)
    elif p["kind"] == "mixed":
        run_mixed(chk, seed, corr)
        check_corr(chk, corr)
    elif p["kind"] == "coupled":
        cl = []
        run_coupled(chk, seed, cl)
        check_coupled(chk, cl)
    elif p["kind"] == "scale":
        cl = []
        run_scale(chk, seed, corr, cl)
        check_corr(chk, corr)
        check_coupled(chk, cl)
    elif p["kind"] == "mins":
        run_mins(chk, seed)
    elif p["kind"] == "scaled":
        run_scaled(chk, seed)
    elif p["kind"] == "ops":
        run_ops(chk, seed, post)
        check_post(chk, post)
    else:
        run_slq(chk, seed)
