"""C14 — cells for the batch-broadcasting constructor normalisations (Sum / PsdSum / AddedDiag / Matmul / Interpolated).

Raw constructor calls whose arguments have *different* batch shapes: the constructor expands them (`_expand_batch`) before
anything reaches `LinearOperator.__init__`.  Per call: exact model correspondence of what is stored (`constructB`),
constructor idempotence `cls(*_args, **_kwargs)` on the implementation (spec) and in the model (`constructB2`), leaf
identity (every stored tensor is a view of an argument tensor), dense value against a spec computed from the dense
arguments alone (torch broadcasting)."""
import warnings
from collections import OrderedDict

import torch

F32 = torch.float32


def covar_b(x1, x2, scale=None, shift=None, sel=None, op=None, flag=1):
    """kernel closure whose tensor parameters have shape (*batch, 1, 1) (default num_nonbatch_dimensions = 2)"""
    res = x1 @ x2.mT
    if op is not None:       # operator-valued parameter: passed on untouched by the constructor
        res = res @ op.to_dense()
    if scale is not None:
        res = res * scale
    if shift is not None:
        res = res + shift
    if sel is not None:      # int64 parameter: expanded like the others, never cast
        res = res * (sel >= 0).to(res.dtype)
    return res * flag


def covar_b0(x1, x2, outputscale=None, lengthscale=None):
    """documented usage: `outputscale` has no non-batch dimensions (num_nonbatch_dimensions={"outputscale": 0})"""
    res = x1 @ x2.mT
    if lengthscale is not None:
        res = res * lengthscale
    if outputscale is not None:
        res = res * outputscale[..., None, None]
    return res


def _interp_matrix(idx, val, n):
    L = torch.zeros(*idx.shape[:-1], n, dtype=val.dtype)
    return L.scatter_add(-1, idx, val)


def bcast_construct_cases(chk, enc, lines, expect, M, thorough):
    import linear_operator.operators as O
    g = M.Gen(chk.rng.randrange(2 ** 30), F32)
    D = O.DenseLinearOperator
    n = 2

    def kinds(b):
        return OrderedDict([
            ("Dense", lambda: D(g.T(*b, n, n))),
            ("tensor", lambda: g.T(*b, n, n)),
            ("Diag", lambda: O.DiagLinearOperator(g.P(*b, n))),
            ("ConstantDiag", lambda: O.ConstantDiagLinearOperator(g.P(*b, 1), diag_shape=n)),
            ("Toeplitz", lambda: O.ToeplitzLinearOperator(g.T(*b, n))),
            ("Tri(Dense)", lambda: O.TriangularLinearOperator(g.tri(*b, n=n))),
            ("TriU(Dense)", lambda: O.TriangularLinearOperator(g.tri(*b, n=n, upper=True), upper=True)),
            ("Chol(Tri)", lambda: O.CholLinearOperator(O.TriangularLinearOperator(g.tri(*b, n=n)))),
            ("Root", lambda: O.RootLinearOperator(g.T(*b, n, 1))),
            ("Sum(Dense,Diag)", lambda: O.SumLinearOperator(D(g.T(*b, n, n)), O.DiagLinearOperator(g.P(*b, n)))),
            ("Matmul(Dense,Dense)", lambda: O.MatmulLinearOperator(D(g.T(*b, n, n)), D(g.T(*b, n, n)))),
            # own / generic `_expand_batch` that the model does not follow: implementation side only
            ("ConstantMul(Dense)", lambda: O.ConstantMulLinearOperator(D(g.T(*b, n, n)), g.P(*b))),
            ("Identity", lambda: O.IdentityLinearOperator(n, batch_shape=torch.Size(b))),
            ("Interp(Dense)", lambda: O.InterpolatedLinearOperator(D(g.T(*b, 3, 3)), g.I(*b, n, 2), g.P(*b, n, 2).to(F32),
                                                                    g.I(*b, n, 2), g.P(*b, n, 2).to(F32))),
        ])
    outside = {"ConstantMul(Dense)", "Identity", "Interp(Dense)"}

    def dense_of(x):
        return x if torch.is_tensor(x) else x.to_dense()

    def one(cell, cls, pos, kw, spec_dense, modelled):
        pl = {"cell": cell}
        chk.case(cell, nontrivial=True, sample=False)
        chk.count("bcast-construct")
        try:
            with warnings.catch_warnings():
                warnings.simplefilter("ignore")
                made = getattr(O, cls)(*pos, **dict(kw))
                again = type(made)(*made._args, **made._kwargs)
                dense = made.to_dense()
                dense2 = again.to_dense()
        except Exception as e:  # noqa
            chk.violation(cell + "/raises:" + type(e).__name__, f"{cls} constructor / rebuild raised {type(e).__name__}: {str(e)[:150]}", pl)
            return
        leaves = []
        for a in list(pos) + [v for _, v in kw]:
            if torch.is_tensor(a):
                leaves.append(a)
            elif enc.is_op(a):
                leaves += enc.leaves(a)
        ids = {}
        for t in leaves:
            ids.setdefault(t.untyped_storage().data_ptr(), len(ids))
        pos_ids = [ids[t.untyped_storage().data_ptr()] for t in leaves]
        ctr = [0]
        ptxt = [enc.encode(a, ids, pos_ids, ctr) for a in pos]
        ktxt = [f"{k} {enc.encode(v, ids, pos_ids, ctr)}" for k, v in kw]
        tail = f"{cls} {len(pos)} " + " ".join(ptxt) + f" {len(kw)}" + ("" if not ktxt else " " + " ".join(ktxt))
        e1, e2 = enc.encode(made, ids, pos_ids), enc.encode(again, ids, pos_ids)
        if e1 != e2:
            chk.violation(cell + "/idempotent", f"{cls}(*_args, **_kwargs) differs from the operator: "
                          f"{M.first_diff(tuple(e1.split()), tuple(e2.split()))}", pl)
        if " 999 1 " in e1 or any(tok == "other" for tok in e1.split()):
            chk.violation(cell + "/leaf-identity", f"constructor copied or cast a tensor: {e1[:300]}", pl)
        # spec: the constructor never casts: the stored tensors have, in order, the dtypes of the argument tensors
        # (keyword tensors compared as a sorted multiset: `_kwargs` are sorted by name)
        din, dout = [str(t.dtype) for t in leaves], [str(t.dtype) for t in enc.leaves(made)]
        npos = sum(1 for a in pos for _ in ([a] if torch.is_tensor(a) else (enc.leaves(a) if enc.is_op(a) else [])))
        if din[:npos] != dout[:npos] or sorted(din[npos:]) != sorted(dout[npos:]):
            chk.violation(cell + "/leaf-dtype", f"constructor changed a tensor dtype: arguments {din} stored {dout}", pl)
        # spec: expansion keeps the class tree and every non-tensor argument / flag (`upper`, `diag_shape`, ...) of each argument
        def kwflags(o):
            if torch.is_tensor(o):
                return "T"
            if not enc.is_op(o):
                return ("V", enc.val(o))
            return (type(o).__name__, tuple(kwflags(a) for a in o._args),
                    tuple((k, kwflags(v)) for k, v in sorted(o._kwargs.items())))
        if modelled and cls != "KernelLinearOperator":
            want = tuple((("DenseLinearOperator", ("T",), ()) if (cls != "InterpolatedLinearOperator" or i == 0) else "T")
                         if torch.is_tensor(a) else kwflags(a) for i, a in enumerate(pos))
            got = tuple(kwflags(a) for a in made._args)
            if want != got:
                chk.violation(cell + "/arg-flags", f"constructor changed the structure / flags of an argument: {M.first_diff(want, got)}", pl)
        # spec: all direct arguments of the stored operator have the same batch shape (the broadcast one)
        bshapes = {tuple(a.shape[:-2]) for a in made._args if enc.is_op(a)}
        if cls != "InterpolatedLinearOperator" and len(bshapes) > 1:
            chk.violation(cell + "/common-batch", f"stored arguments have different batch shapes {sorted(bshapes)}", pl)
        def same(a, b):   # Toeplitz products go through FFT: tolerance there, bit-exact everywhere else
            return torch.allclose(a, b, atol=2e-3, rtol=0) if "Toeplitz" in cell else torch.equal(a, b)
        if tuple(dense.shape) != tuple(spec_dense.shape) or dense.dtype != spec_dense.dtype or not same(dense, spec_dense):
            chk.violation(cell + "/dense", f"dense value of {cls}(...) differs from the spec computed from the dense arguments: "
                          f"shape {tuple(dense.shape)} vs {tuple(spec_dense.shape)}", pl)
        elif not same(dense2, spec_dense):
            chk.violation(cell + "/dense-rebuilt", f"dense value of {cls}(*_args, **_kwargs) differs from the spec", pl)
        if modelled:
            for cmd, want in (("constructB", e1), ("constructB2", e2)):
                line = (cmd + " " + tail).replace("  ", " ")
                lines.append(line)
                expect.append(("str", (want, cell + "/" + cmd, {"line": line, "cell": cell})))

    pairs = [((), (2,)), ((2,), ()), ((1,), (2,)), ((2, 1), (1, 3)), ((3,), (2, 3)), ((2,), (2,)), ((), ())]
    if not thorough:
        pairs = pairs[:5] + [chk.rng.choice(pairs[5:])]

    def bn(b):
        return M.bname(b)

    for b1, b2 in pairs:
        k1s, k2s = kinds(b1), kinds(b2)
        for kname in k1s:
            if kname == "Interp(Dense)":
                continue
            # --- Sum / PsdSum: kind x Dense, both orders
            for cls in ("SumLinearOperator", "PsdSumLinearOperator"):
                if cls == "PsdSumLinearOperator" and kname in ("tensor", "TriU(Dense)", "Matmul(Dense,Dense)"):
                    continue
                for order in ("k,Dense", "Dense,k"):
                    if cls == "PsdSumLinearOperator" and order == "Dense,k":
                        continue
                    x, y = (k1s[kname](), k2s["Dense"]()) if order == "k,Dense" else (k1s["Dense"](), k2s[kname]())
                    cell = f"C14/constructB/{cls[:-14]}({order.replace('k', kname)})[{bn(b1)}|{bn(b2)}]"
                    one(cell, cls, [x, y], [], dense_of(x) + dense_of(y), kname not in outside)
            # --- Matmul
            for order in ("k,Dense", "Dense,k"):
                x, y = (k1s[kname](), k2s["Dense"]()) if order == "k,Dense" else (k1s["Dense"](), k2s[kname]())
                cell = f"C14/constructB/Matmul({order.replace('k', kname)})[{bn(b1)}|{bn(b2)}]"
                one(cell, "MatmulLinearOperator", [x, y], [], dense_of(x) @ dense_of(y), kname not in outside)
            # --- AddedDiag: kind + Diag (both argument orders)
            if kname not in ("Diag", "ConstantDiag", "Identity", "tensor"):
                for order in ("k,Diag", "Diag,k"):
                    dg = (k2s if order == "k,Diag" else k1s)["Diag"]()
                    x = (k1s if order == "k,Diag" else k2s)[kname]()
                    pos = [x, dg] if order == "k,Diag" else [dg, x]
                    cell = f"C14/constructB/AddedDiag({order.replace('k', kname)})[{bn(b1)}|{bn(b2)}]"
                    one(cell, "AddedDiagLinearOperator", pos, [], dense_of(pos[0]) + dense_of(pos[1]), kname not in outside)
        # --- three arguments with three batch shapes
        x, y, z = k1s["Dense"](), k2s["Diag"](), kinds(())["Toeplitz"]()
        one(f"C14/constructB/Sum(Dense,Diag,Toeplitz)[{bn(b1)}|{bn(b2)}|{bn(())}]", "SumLinearOperator", [x, y, z], [],
            dense_of(x) + dense_of(y) + dense_of(z), True)
    # --- Interpolated: base batch shape vs interpolation batch shape (the base is expanded to the latter)
    ipairs = [((), (2,)), ((1,), (2,)), ((), (2, 3)), ((2,), (2,)), ((), ())]
    for b1, b2 in ipairs:
        for kname, mk in kinds(b1).items():
            if kname in ("tensor", "Interp(Dense)", "Matmul(Dense,Dense)"):
                if kname != "tensor":
                    continue
            base = mk()
            li, lv = g.I(*b2, 3, 2, n=n), g.P(*b2, 3, 2).to(F32)
            ri, rv = g.I(*b2, 3, 2, n=n), g.P(*b2, 3, 2).to(F32)
            spec = _interp_matrix(li, lv, n) @ dense_of(base) @ _interp_matrix(ri, rv, n).transpose(-1, -2)
            cell = f"C14/constructB/Interp({kname})[{bn(b1)}|{bn(b2)}]"
            one(cell, "InterpolatedLinearOperator", [base, li, lv, ri, rv], [], spec, kname not in outside)

    # --- KernelLinearOperator: x1 / x2 / tensor **params broadcast (default num_nonbatch_dimensions)
    ktriples = [((), (), None), ((2,), (), None), ((), (2,), ()), ((), (), (2,)), ((2, 1), (1, 3), None), ((1,), (2,), (2,)),
                ((2,), (2,), (2,)), ((3,), (), (2, 1)), ((1,), (1,), (1,)), ((), (1, 2), (2, 1))]
    for b1, b2, bp in ktriples:
        for variant in ("scale", "scale+sel", "scale+op", "pos-func+flag"):
            if bp is None and variant != "pos-func+flag":
                continue
            if bp is not None and variant == "pos-func+flag" and len(bp) == 0:
                continue
            x1, x2 = g.T(*b1, 3, 2), g.T(*b2, 2, 2)
            kw, spec = [], x1 @ x2.mT
            if variant == "scale+op":
                opd = D(g.T(2, 2))
                spec = spec @ opd.to_dense()
            if bp is not None:
                sc = g.P(*bp, 1, 1)
                spec = spec * sc
                kw.append(("scale", sc))
            if variant == "scale+sel":
                kw.append(("sel", g.I(*bp, 1, 1)))
            if variant == "scale+op":
                kw.append(("op", opd))
            if variant == "pos-func+flag":
                kw.append(("flag", 2))
                spec = spec * 2
                pos = [x1, x2, covar_b]
            else:
                pos = [x1, x2]
                kw = [("covar_func", covar_b)] + kw
            cell = f"C14/constructB/Kernel({variant})[{bn(b1)}|{bn(b2)}|{'-' if bp is None else bn(bp)}]"
            one(cell, "KernelLinearOperator", pos, kw, spec, True)

    # --- explicit num_nonbatch_dimensions (the protocol encodes the dict opaquely: implementation vs spec only)
    for b1, b2, bp in [((), (), (2,)), ((2,), (), (2,)), ((), (1, 2), (2, 1)), ((3,), (3,), ())]:
        for withls in (False, True):
            x1, x2, osc = g.T(*b1, 3, 2), g.T(*b2, 2, 2), g.P(*bp)
            spec = (x1 @ x2.mT) * osc[..., None, None]
            kw = [("covar_func", covar_b0), ("outputscale", osc), ("num_nonbatch_dimensions", {"outputscale": 0})]
            if withls:
                ls = g.P(*bp, 1, 1)
                spec = spec * ls
                kw.append(("lengthscale", ls))
            cell = f"C14/constructB/Kernel(nnd:outputscale=0{'+lengthscale' if withls else ''})[{bn(b1)}|{bn(b2)}|{bn(bp)}]"
            one(cell, "KernelLinearOperator", [x1, x2], kw, spec, False)
