"""C04 — solve returns A^{-1}B (resp. L A^{-1} B) whichever algorithm the library selects.

Theorems: lean/LinOp/Properties/C04.lean (selection model `selectSolve` / `selectInvQuad` / `trace`, substitution,
Cholesky solve, Kronecker loop, eigen-shift, Woodbury, block, permutation, left factor).
Tie: (a) translator harness/extract/c04_select.py regenerates the selection source facts, defaults and hook table
(theorem `source_facts_mirrored` re-checked by the kernel each run; cross-checked here against run-time objects);
(b) correspondence: for every catalogue cell the `verbose_linalg` log of the real solve (which routine ran, on
which size) is compared EXACTLY with the Lean `trace` of the operator's descriptor under the same settings, and
the value models (`triSolve`, `cholSolve`, `kronLoop2`, `solveForward`, `woodbury`, block solves, the as-coded
`CholLinearOperator.inverse()` path) are executed on exact rationals and compared with the library's result.
Spec: exact rational A^{-1} (Gauss-Jordan on Fractions from the catalogue's independent integer dense matrix).
"""
import contextlib
import logging
import random
import re
from fractions import Fraction

import torch

from .. import catalogue as C
from ..common import fmt_list, fmt_mat
from ..extract import c04_select

F64, F32 = torch.float64, torch.float32


# ------------------------------------------------------------------------------------------------ exact spec
def frac_inv(rows):
    n = len(rows)
    a = [[Fraction(x) for x in r] + [Fraction(int(i == j)) for j in range(n)] for i, r in enumerate(rows)]
    for c in range(n):
        p = next((r for r in range(c, n) if a[r][c] != 0), None)
        if p is None:
            raise ZeroDivisionError("singular")
        a[c], a[p] = a[p], a[c]
        pv = a[c][c]
        a[c] = [x / pv for x in a[c]]
        for r in range(n):
            if r != c and a[r][c] != 0:
                f = a[r][c]
                a[r] = [x - f * y for x, y in zip(a[r], a[c])]
    return [r[n:] for r in a]


def to_frac_rows(t):
    return [[Fraction(float(x)) for x in row] for row in t.tolist()]


def exact_inverse(dense):
    """float64 tensor of the exact (rational) inverses of every batch member of an exactly representable matrix."""
    d = dense.double()
    flat = d.reshape(-1, d.shape[-2], d.shape[-1])
    out = torch.empty_like(flat)
    for k in range(flat.shape[0]):
        inv = frac_inv(to_frac_rows(flat[k]))
        out[k] = torch.tensor([[float(x) for x in r] for r in inv], dtype=F64)
    return out.reshape(d.shape)


# ------------------------------------------------------------------------------------------------ log capture
class _Cap(logging.Handler):
    def __init__(self):
        super().__init__()
        self.msgs = []

    def emit(self, record):
        self.msgs.append(record.getMessage())


_SIZE = re.compile(r"torch\.Size\(\[([0-9, ]*)\]\)")


def parse_events(msgs):
    evs = []
    for m in msgs:
        sz = _SIZE.search(m)
        dims = [int(x) for x in sz.group(1).split(",") if x.strip()] if sz else []
        if m.startswith("Running Cholesky"):
            evs.append(f"chol:{dims[-1]}")
        elif m.startswith("Running CG"):
            evs.append(f"cg:{dims[-2]}")
        elif m.startswith("Running symeig"):
            evs.append(f"symeig:{dims[-1]}")
        elif m.startswith("Running Pivoted Cholesky"):
            evs.append(f"pivchol:{dims[-1]}")
        elif m.startswith("Running Lanczos"):
            evs.append(f"lanczos:{dims[-1] if dims else 0}")
        else:
            evs.append("other:" + m.split(" on ")[0].replace("Running ", "").replace(" ", "_"))
    return evs


@contextlib.contextmanager
def capture():
    from linear_operator import settings
    lg = settings.verbose_linalg.logger
    old_handlers, old_level, old_prop = list(lg.handlers), lg.level, lg.propagate
    for h in old_handlers:
        lg.removeHandler(h)
    cap = _Cap()
    lg.addHandler(cap)
    lg.setLevel(logging.DEBUG)
    lg.propagate = False
    try:
        with settings.verbose_linalg(True):
            yield cap
    finally:
        lg.removeHandler(cap)
        for h in old_handlers:
            lg.addHandler(h)
        lg.setLevel(old_level)
        lg.propagate = old_prop


@contextlib.contextmanager
def configured(cfg):
    from linear_operator import settings
    with contextlib.ExitStack() as st:
        if "mc" in cfg:
            st.enter_context(settings.max_cholesky_size(cfg["mc"]))
        if "fast" in cfg or "logprob" in cfg:
            st.enter_context(settings.fast_computations(solves=cfg.get("fast", True), log_prob=cfg.get("logprob", True)))
        if "tol" in cfg:
            st.enter_context(settings.cg_tolerance(cfg["tol"]))
        if "maxit" in cfg:
            st.enter_context(settings.max_cg_iterations(cfg["maxit"]))
        if "ps" in cfg:
            st.enter_context(settings.max_preconditioner_size(cfg["ps"]))
        if "mp" in cfg:
            st.enter_context(settings.min_preconditioning_size(cfg["mp"]))
        if "memeff" in cfg:
            st.enter_context(settings.memory_efficient(cfg["memeff"]))
        if "lds" in cfg or "ldc" in cfg:
            st.enter_context(settings.linalg_dtypes(default=F64, symeig=cfg.get("lds", F64), cholesky=cfg.get("ldc", F64)))
        yield


# ------------------------------------------------------------------------------------------------ instances
class X:
    """A solve instance: build() -> operator, dense (exact), desc (Lean Op tokens or None), solve_mat (exact A^{-1} if given)."""

    def __init__(self, name, build, dense, desc=None, pd=True, solve_mat=None, tags=()):
        self.name, self.build, self.dense, self.desc, self.pd, self.solve_mat = name, build, dense, desc, pd, solve_mat
        self.tags = set(tags)
        self._inv = None

    def inv(self):
        if self._inv is None:
            self._inv = self.solve_mat.double() if self.solve_mat is not None else exact_inverse(self.dense)
        return self._inv


def desc_of(name, n, dense_n):
    N = dense_n
    gen = {"Dense[psd]", "Toeplitz", "PsdSum", "Sum[toeplitz+diag]", "ConstantMul", "SumBatch", "Sum(Kronecker,Diag)",
           "ConstantMul(Kronecker)", "SumBatch(Kronecker)", "KroneckerAddedDiag[diag]"}
    if name in gen:
        return f"gen {N}"
    if name in ("AddedDiag", "AddedDiag(Toeplitz,ConstantDiag)"):
        return f"ad {N}"
    if name in ("Diag", "ConstantDiag", "KroneckerDiag"):
        return f"diag {N}"
    if name == "Identity":
        return f"id {N}"
    if name == "Chol[lower]":
        return f"chol {N}"
    if name == "Kronecker":
        return f"kron gen 2 gen {N // 2}"
    if name == "Kronecker(Toeplitz,Diag)":
        return f"kron gen {N // 2} diag 2"
    if name == "KroneckerAddedDiag[const]":
        return f"kpc gen 2 gen {N // 2}"
    if name == "LowRankRootAddedDiag":
        return f"lrrad {N} 2 0"
    if name in ("BlockDiag", "BlockInterleaved", "BlockDiag(Toeplitz)", "BlockInterleaved(Toeplitz)"):
        return f"block 2 gen {N // 2}"
    if name in ("BatchRepeat", "BatchRepeat(Toeplitz)"):
        return f"brep gen {N}"
    return None  # SumKronecker (Lanczos roots in the iterative branch): values only


def build_instances(rng, dtype, batch, n):
    from linear_operator.operators import (
        BatchRepeatLinearOperator, BlockDiagLinearOperator, CholLinearOperator, ConstantDiagLinearOperator, DiagLinearOperator,
        KroneckerProductAddedDiagLinearOperator, KroneckerProductDiagLinearOperator, KroneckerProductLinearOperator,
        KroneckerProductTriangularLinearOperator, LowRankRootAddedDiagLinearOperator, LowRankRootLinearOperator,
        PermutationLinearOperator, TriangularLinearOperator, DenseLinearOperator)
    out = []
    for it in C.instances(rng, dtype, batch, n, psd=True, depth=2):
        N = it.dense.shape[-1]
        out.append(X(it.name, it.build, it.dense, desc_of(it.name, n, N), tags=it.tags))
    eye = lambda k: torch.eye(k, dtype=dtype)
    ri = C.ri
    L = torch.tril(ri(rng, (*batch, n, n), -2, 2, dtype)) * (1 - eye(n)) + torch.diag_embed(ri(rng, (*batch, n), 1, 2, dtype))
    # a strictly lower entry is forced non-zero so that orientation mistakes always show
    L[..., n - 1, 0] = ri(rng, batch, 1, 2, dtype) if n > 1 else L[..., n - 1, 0]
    U = L.mT.clone()
    cl = lambda t: t.clone()
    out.append(X("Triangular[lower]", lambda: TriangularLinearOperator(cl(L)), L, f"tri {n}", pd=False))
    out.append(X("Triangular[upper]", lambda: TriangularLinearOperator(cl(U), upper=True), U, f"tri {n}", pd=False))
    out.append(X("Triangular[lower].mT", lambda: TriangularLinearOperator(cl(L)).mT, U, f"tri {n}", pd=False))
    out.append(X("Chol[upper]", lambda: CholLinearOperator(TriangularLinearOperator(cl(U), upper=True), upper=True), U.mT @ U, f"chol {n}"))
    L2 = torch.tril(ri(rng, (*batch, 2, 2), 1, 2, dtype))
    out.append(X("KroneckerTriangular[lower]", lambda: KroneckerProductTriangularLinearOperator(
        TriangularLinearOperator(cl(L2)), TriangularLinearOperator(cl(L))), C.kron(L2, L), f"tri {2 * n}", pd=False))
    out.append(X("KroneckerTriangular[upper]", lambda: KroneckerProductTriangularLinearOperator(
        TriangularLinearOperator(cl(L2.mT), upper=True), TriangularLinearOperator(cl(U), upper=True), upper=True),
        C.kron(L2.mT, U), f"tri {2 * n}", pd=False))
    K1, K2, K3 = C.psd_int(rng, batch, 2, dtype), C.psd_int(rng, batch, n, dtype), C.psd_int(rng, batch, 2, dtype)
    out.append(X("Kronecker[3]", lambda: KroneckerProductLinearOperator(cl(K1), cl(K2), cl(K3)), C.kron(C.kron(K1, K2), K3),
                 f"kron3 gen 2 gen {n} gen 2"))
    from linear_operator.operators import (IdentityLinearOperator, RootLinearOperator, ToeplitzLinearOperator)

    def factor(kind, a):
        """(make() -> factor operator / tensor, dense, Lean descriptor) of a PD factor of size a."""
        if kind == "Dense":
            M = C.psd_int(rng, batch, a, dtype)
            return (lambda: cl(M)), M, f"gen {a}"
        if kind == "Identity":
            return (lambda: IdentityLinearOperator(a, batch_shape=torch.Size(batch), dtype=dtype)), eye(a).expand(*batch, a, a).clone(), f"id {a}"
        if kind == "ConstantDiag":
            c = ri(rng, (*batch, 1), 2, 4, dtype)
            return (lambda: ConstantDiagLinearOperator(cl(c), diag_shape=a)), c.unsqueeze(-1) * eye(a), f"diag {a}"
        if kind == "Diag":
            dv = ri(rng, (*batch, a), 1, 4, dtype)
            return (lambda: DiagLinearOperator(cl(dv))), torch.diag_embed(dv), f"diag {a}"
        if kind == "Toeplitz":
            col = ri(rng, (*batch, a), 0, 2, dtype)
            col[..., 0] = col[..., 0] + 2 * a
            return (lambda: ToeplitzLinearOperator(cl(col))), C.toeplitz_dense(col), f"gen {a}"
        if kind in ("Chol[lower]", "Chol[upper]", "Root"):
            Lt = torch.tril(ri(rng, (*batch, a, a), -2, 2, dtype)) * (1 - eye(a)) + torch.diag_embed(ri(rng, (*batch, a), 1, 2, dtype))
            if kind == "Chol[lower]":
                return (lambda: CholLinearOperator(TriangularLinearOperator(cl(Lt)))), Lt @ Lt.mT, f"chol {a}"
            if kind == "Chol[upper]":
                return (lambda: CholLinearOperator(TriangularLinearOperator(cl(Lt.mT), upper=True), upper=True)), Lt @ Lt.mT, f"chol {a}"
            return (lambda: RootLinearOperator(cl(Lt))), Lt @ Lt.mT, f"gen {a}"
        if kind == "BlockDiag":
            Bl_ = C.psd_int(rng, (*batch, 2), a // 2, dtype)
            return (lambda: BlockDiagLinearOperator(DenseLinearOperator(cl(Bl_)))), C.block_diag_dense(Bl_), f"block 2 gen {a // 2}"
        raise ValueError(kind)

    def kron_inst(name, parts):
        makes, denses, descs = zip(*parts)
        dn = denses[0]
        for d_ in denses[1:]:
            dn = C.kron(dn, d_)
        desc = ("kron " if len(parts) == 2 else "kron3 ") + " ".join(descs)
        out.append(X(name, lambda: KroneckerProductLinearOperator(*[m() for m in makes]), dn, desc, tags=("kronfactor",)))

    for kind in ("Identity", "ConstantDiag", "Diag", "Toeplitz", "Chol[lower]", "Chol[upper]", "Root", "BlockDiag"):
        a, b = (4, 3) if kind == "BlockDiag" else (2, 3)
        kron_inst(f"Kronecker({kind}{a},Dense{b})", [factor(kind, a), factor("Dense", b)])
        kron_inst(f"Kronecker(Dense{b},{kind}{a})", [factor("Dense", b), factor(kind, a)])
    for kind in ("Identity", "ConstantDiag", "Diag", "Chol[upper]"):
        for pos in range(3):
            sizes = [2, 3, 4]
            parts = [factor(kind if k == pos else "Dense", sizes[k]) for k in range(3)]
            nm = ",".join((kind if k == pos else "Dense") + str(sizes[k]) for k in range(3))
            kron_inst(f"Kronecker({nm})", parts)
    kron_inst("Kronecker(Identity2,Diag3)", [factor("Identity", 2), factor("Diag", 3)])
    kron_inst("Kronecker(Toeplitz3,Identity2)", [factor("Toeplitz", 3), factor("Identity", 2)])
    Lk = torch.tril(ri(rng, (*batch, 2, 2), 1, 2, dtype))
    out.append(X("Kronecker(Chol,Dense)", lambda: KroneckerProductLinearOperator(CholLinearOperator(TriangularLinearOperator(cl(Lk))), cl(K2)),
                 C.kron(Lk @ Lk.mT, K2), f"kron chol 2 gen {n}"))
    c1, c2 = ri(rng, (*batch, 1), 1, 3, dtype), ri(rng, (*batch, 1), 1, 3, dtype)
    out.append(X("KroneckerAddedDiag[kronconst]", lambda: KroneckerProductAddedDiagLinearOperator(
        KroneckerProductLinearOperator(cl(K1), cl(K2)),
        KroneckerProductDiagLinearOperator(ConstantDiagLinearOperator(cl(c1), 2), ConstantDiagLinearOperator(cl(c2), n))),
        C.kron(K1, K2) + C.kron(c1.unsqueeze(-1) * eye(2), c2.unsqueeze(-1) * eye(n)), None, tags=("chol-desc-gen",)))
    d1, d2 = ri(rng, (*batch, 2), 1, 3, dtype), ri(rng, (*batch, n), 1, 3, dtype)
    out.append(X("KroneckerAddedDiag[krondiag]", lambda: KroneckerProductAddedDiagLinearOperator(
        KroneckerProductLinearOperator(cl(K1), cl(K2)),
        KroneckerProductDiagLinearOperator(DiagLinearOperator(cl(d1)), DiagLinearOperator(cl(d2)))),
        C.kron(K1, K2) + C.kron(torch.diag_embed(d1), torch.diag_embed(d2)), None, tags=("chol-desc-gen",)))
    Rr, cv = ri(rng, (*batch, n, 2), dtype=dtype), ri(rng, (*batch, 1), 1, 3, dtype)
    out.append(X("LowRankRootAddedDiag[const]", lambda: LowRankRootAddedDiagLinearOperator(
        LowRankRootLinearOperator(cl(Rr)), ConstantDiagLinearOperator(cl(cv), n)), Rr @ Rr.mT + cv.unsqueeze(-1) * eye(n), f"lrrad {n} 2 0"))
    def _perm():
        while True:
            q = rng.sample(range(n), n)
            if n == 1 or q != list(range(n)):
                return torch.tensor(q)
    perm = torch.stack([_perm() for _ in range(max(1, int(torch.Size(batch).numel())))]).reshape(*batch, n)
    out.append(X("Permutation", lambda: PermutationLinearOperator(perm.clone()), C.perm_matrix(perm, dtype), None, pd=False, tags=("perm",)))
    # ---- inverse of a Cholesky operator (D09, fixed by /repo 05006ba: now a RootLinearOperator) -- generic PD path
    A_l, A_u = L @ L.mT, U.mT @ U
    out.append(X("Chol[lower].inverse()", lambda: CholLinearOperator(TriangularLinearOperator(cl(L))).inverse(), None, f"gen {n}",
                 solve_mat=A_l, tags=("inv-of-chol",)))
    out.append(X("Chol[upper].inverse()", lambda: CholLinearOperator(TriangularLinearOperator(cl(U), upper=True), upper=True).inverse(),
                 None, f"gen {n}", solve_mat=A_u, tags=("inv-of-chol",)))
    # ---- Cholesky operator over the (Kronecker-triangular) Cholesky factor of a Kronecker product, both orientations
    Kd = C.kron(K1, K2)
    out.append(X("Chol(Kronecker.cholesky)[lower]", lambda: CholLinearOperator(KroneckerProductLinearOperator(cl(K1), cl(K2)).cholesky()),
                 Kd, None, tags=("build-logs",)))
    out.append(X("Chol(Kronecker.cholesky)[upper]", lambda: CholLinearOperator(KroneckerProductLinearOperator(cl(K1), cl(K2)).cholesky(upper=True), upper=True),
                 Kd, None, tags=("build-logs",)))
    # ---- eigen-structured paths with a rank-deficient Kronecker factor and small noise s = 2^-10 (float64 only)
    if dtype == F64:
        s_ = 2.0 ** -10
        r1 = ri(rng, (*batch, 2, 1), 1, 2, dtype)
        K1s = r1 @ r1.mT                                   # rank one
        sc = torch.full((*batch, 1), s_, dtype=dtype)
        out.append(X("KroneckerAddedDiag[const|singular|s=2^-10]", lambda: KroneckerProductAddedDiagLinearOperator(
            KroneckerProductLinearOperator(cl(K1s), cl(K2)), ConstantDiagLinearOperator(cl(sc), diag_shape=2 * n)),
            C.kron(K1s, K2) + s_ * eye(2 * n), f"kpc gen 2 gen {n}", tags=("singular",)))
        e1 = torch.full((*batch, 1), 2.0 ** -5, dtype=dtype)
        out.append(X("KroneckerAddedDiag[kronconst|singular|s=2^-10]", lambda: KroneckerProductAddedDiagLinearOperator(
            KroneckerProductLinearOperator(cl(K1s), cl(K2)),
            KroneckerProductDiagLinearOperator(ConstantDiagLinearOperator(cl(e1), 2), ConstantDiagLinearOperator(cl(e1), n))),
            C.kron(K1s, K2) + s_ * eye(2 * n), None, tags=("singular", "chol-desc-gen", "no-lanczos")))
        C3, C4 = C.psd_int(rng, batch, 2, dtype), C.psd_int(rng, batch, n, dtype)
        out.append(X("SumKronecker[singular|s=2^-10]", lambda: __import__("linear_operator").operators.SumKroneckerLinearOperator(
            KroneckerProductLinearOperator(cl(K1s), cl(K2)), KroneckerProductLinearOperator(cl(C3) * s_, cl(C4))),
            C.kron(K1s, K2) + s_ * C.kron(C3, C4), None, tags=("singular", "no-lanczos")))
    # ---- a Cholesky / triangular operator times a positive constant (structure-preserving rewrite; the wrapped tensor becomes non-dense)
    out.append(X("Chol[lower]*2", lambda: CholLinearOperator(TriangularLinearOperator(cl(L))) * 2.0, 2 * (L @ L.mT), None, tags=("tri-nondense",)))
    out.append(X("Chol[upper]*2", lambda: CholLinearOperator(TriangularLinearOperator(cl(U), upper=True), upper=True) * 2.0, 2 * (U.mT @ U), None,
                 tags=("tri-nondense",)))
    out.append(X("Triangular[lower]*2", lambda: TriangularLinearOperator(cl(L)) * 2.0, 2 * L, None, pd=False, tags=("tri-nondense",)))
    # ---- known-defect instances (D10)
    Lb = torch.tril(ri(rng, (*batch, 2, n, n), -2, 2, dtype)) * (1 - eye(n)) + torch.diag_embed(ri(rng, (*batch, 2, n), 1, 2, dtype))
    out.append(X("Triangular(BlockDiag)", lambda: TriangularLinearOperator(BlockDiagLinearOperator(TriangularLinearOperator(cl(Lb)))),
                 C.block_diag_dense(Lb), None, pd=False, tags=("D10", "tri-nondense")))
    rep = (2,) + (1,) * len(batch)
    out.append(X("Triangular(BatchRepeat)", lambda: TriangularLinearOperator(BatchRepeatLinearOperator(TriangularLinearOperator(cl(L)), torch.Size(rep))),
                 L.repeat(*rep, 1, 1), None, pd=False, tags=("D10", "tri-nondense")))
    for x in out:
        if x.dense is None:
            x.dense = None
    return out


def size1_instances(rng, dtype, batch):
    """1x1 operators of every structured class and 1x1 FACTORS / blocks in every position, values != 1 (a wrong power shows)."""
    from linear_operator.operators import (
        BatchRepeatLinearOperator, BlockDiagLinearOperator, BlockInterleavedLinearOperator, CholLinearOperator, ConstantDiagLinearOperator,
        DenseLinearOperator, DiagLinearOperator, KroneckerProductAddedDiagLinearOperator, KroneckerProductDiagLinearOperator,
        KroneckerProductLinearOperator, RootLinearOperator, SumKroneckerLinearOperator, ToeplitzLinearOperator, TriangularLinearOperator,
        AddedDiagLinearOperator, LowRankRootAddedDiagLinearOperator, LowRankRootLinearOperator)
    out = []
    for it in C.instances(rng, dtype, batch, 1, psd=True, depth=2):
        N = it.dense.shape[-1]
        out.append(X(it.name + "@n1", it.build, it.dense, desc_of(it.name, 1, N), tags=set(it.tags) | {"size1"}))
    cl = lambda t: t.clone()
    eye = lambda k: torch.eye(k, dtype=dtype)
    sc = lambda lo=2, hi=4: C.ri(rng, (*batch, 1, 1), lo, hi, dtype)       # a 1x1 matrix with entry in 2..4
    add = lambda name, mk, dense, desc: out.append(X(name, mk, dense, desc, tags=("size1",)))
    c = sc()
    add("Dense1", lambda: DenseLinearOperator(cl(c)), c, "gen 1")
    add("Diag1", lambda: DiagLinearOperator(cl(c[..., 0])), c, "diag 1")
    add("ConstantDiag1", lambda: ConstantDiagLinearOperator(cl(c[..., 0]), diag_shape=1), c, "diag 1")
    add("Toeplitz1", lambda: ToeplitzLinearOperator(cl(c[..., 0])), c, "gen 1")
    l1 = sc(2, 3)
    add("Chol1[lower]", lambda: CholLinearOperator(TriangularLinearOperator(cl(l1))), l1 * l1, "chol 1")
    add("Chol1[upper]", lambda: CholLinearOperator(TriangularLinearOperator(cl(l1), upper=True), upper=True), l1 * l1, "chol 1")
    add("Root1", lambda: RootLinearOperator(cl(l1)), l1 * l1, "gen 1")
    add("AddedDiag1", lambda: AddedDiagLinearOperator(DenseLinearOperator(cl(c)), DiagLinearOperator(cl(l1[..., 0]))), c + l1, "ad 1")
    add("LowRankRootAddedDiag1", lambda: LowRankRootAddedDiagLinearOperator(LowRankRootLinearOperator(cl(l1)), DiagLinearOperator(cl(c[..., 0]))),
        l1 * l1 + c, "lrrad 1 1 0")
    rep = (2,) + (1,) * len(batch)
    add("BatchRepeat(Dense1)", lambda: BatchRepeatLinearOperator(DenseLinearOperator(cl(c)), torch.Size(rep)), c.repeat(*rep, 1, 1), "brep gen 1")
    b3 = C.ri(rng, (*batch, 3, 1, 1), 2, 4, dtype)
    add("BlockDiag[1x1 blocks]", lambda: BlockDiagLinearOperator(DenseLinearOperator(cl(b3))), C.block_diag_dense(b3), "block 3 gen 1")
    add("BlockInterleaved[1x1 blocks]", lambda: BlockInterleavedLinearOperator(DenseLinearOperator(cl(b3))), C.block_interleaved_dense(b3), "block 3 gen 1")
    K2, K3, D3 = C.psd_int(rng, batch, 2, dtype), C.psd_int(rng, batch, 3, dtype), C.psd_int(rng, batch, 3, dtype)
    a1, c1 = sc(), sc()
    add("Kronecker(s1,Dense3)", lambda: KroneckerProductLinearOperator(cl(a1), cl(K3)), C.kron(a1, K3), "kron gen 1 gen 3")
    add("Kronecker(Dense3,s1)", lambda: KroneckerProductLinearOperator(cl(K3), cl(a1)), C.kron(K3, a1), "kron gen 3 gen 1")
    add("Kronecker(s1,Dense2,Dense3)", lambda: KroneckerProductLinearOperator(cl(a1), cl(K2), cl(K3)), C.kron(C.kron(a1, K2), K3), "kron3 gen 1 gen 2 gen 3")
    add("Kronecker(Dense2,s1,Dense3)", lambda: KroneckerProductLinearOperator(cl(K2), cl(a1), cl(K3)), C.kron(C.kron(K2, a1), K3), "kron3 gen 2 gen 1 gen 3")
    add("Kronecker(Dense2,Dense3,s1)", lambda: KroneckerProductLinearOperator(cl(K2), cl(K3), cl(a1)), C.kron(C.kron(K2, K3), a1), "kron3 gen 2 gen 3 gen 1")
    cv = C.ri(rng, (*batch, 1), 2, 4, dtype)
    add("KroneckerAddedDiag[const](s1,Dense3)", lambda: KroneckerProductAddedDiagLinearOperator(
        KroneckerProductLinearOperator(cl(a1), cl(K3)), ConstantDiagLinearOperator(cl(cv), diag_shape=3)),
        C.kron(a1, K3) + cv.unsqueeze(-1) * eye(3), "kpc gen 1 gen 3")
    add("KroneckerAddedDiag[const](Dense3,s1)", lambda: KroneckerProductAddedDiagLinearOperator(
        KroneckerProductLinearOperator(cl(K3), cl(a1)), ConstantDiagLinearOperator(cl(cv), diag_shape=3)),
        C.kron(K3, a1) + cv.unsqueeze(-1) * eye(3), "kpc gen 3 gen 1")
    e1, e3 = C.ri(rng, (*batch, 1), 2, 4, dtype), C.ri(rng, (*batch, 1), 2, 4, dtype)
    x_ = X("KroneckerAddedDiag[kronconst](s1,Dense3)", lambda: KroneckerProductAddedDiagLinearOperator(
        KroneckerProductLinearOperator(cl(a1), cl(K3)),
        KroneckerProductDiagLinearOperator(ConstantDiagLinearOperator(cl(e1), 1), ConstantDiagLinearOperator(cl(e3), 3))),
        C.kron(a1, K3) + C.kron(e1.unsqueeze(-1) * eye(1), e3.unsqueeze(-1) * eye(3)), None, tags=("size1", "chol-desc-gen"))
    out.append(x_)
    dd1, dd3 = C.ri(rng, (*batch, 1), 2, 4, dtype), C.ri(rng, (*batch, 3), 1, 4, dtype)
    out.append(X("KroneckerAddedDiag[krondiag](s1,Dense3)", lambda: KroneckerProductAddedDiagLinearOperator(
        KroneckerProductLinearOperator(cl(a1), cl(K3)),
        KroneckerProductDiagLinearOperator(DiagLinearOperator(cl(dd1)), DiagLinearOperator(cl(dd3)))),
        C.kron(a1, K3) + C.kron(torch.diag_embed(dd1), torch.diag_embed(dd3)), None, tags=("size1", "chol-desc-gen")))
    # scalar task variance (x) data kernel + scalar noise variance (x) noise covariance, the 1x1 factor in either position
    out.append(X("SumKronecker(s1xDense3,s1xDense3)", lambda: SumKroneckerLinearOperator(
        KroneckerProductLinearOperator(cl(a1), cl(K3)), KroneckerProductLinearOperator(cl(c1), cl(D3))),
        C.kron(a1, K3) + C.kron(c1, D3), None, tags=("size1",)))
    out.append(X("SumKronecker(Dense3xs1,Dense3xs1)", lambda: SumKroneckerLinearOperator(
        KroneckerProductLinearOperator(cl(K3), cl(a1)), KroneckerProductLinearOperator(cl(D3), cl(c1))),
        C.kron(K3, a1) + C.kron(D3, c1), None, tags=("size1",)))
    out.append(X("SumKronecker(s1xs1,s1xs1)", lambda: SumKroneckerLinearOperator(
        KroneckerProductLinearOperator(cl(a1), cl(l1)), KroneckerProductLinearOperator(cl(c1), cl(c))),
        C.kron(a1, l1) + C.kron(c1, c), None, tags=("size1",)))
    return out


SIZE1_CFGS = {"default", "mc0|tol1e-6", "mc0|fastoff", "mc=n|tol1e-6", "mc=n-1|tol1e-6", "mc0|tol1"}
MAXIT8_INSTANCES = {"Dense[psd]", "AddedDiag", "Kronecker", "BlockDiag", "BatchRepeat", "Dense1", "Kronecker(s1,Dense3)"}


def big_instances(rng, dtype, n):
    """Larger well-conditioned instances (CG must really iterate: n > 10)."""
    from linear_operator.operators import (AddedDiagLinearOperator, BlockDiagLinearOperator, DenseLinearOperator, DiagLinearOperator,
                                           KroneckerProductLinearOperator, ToeplitzLinearOperator)
    out = []
    A = C.psd_int(rng, (), n, dtype, rank=3, shift=4, min_gap=0)
    out.append(X(f"Dense[psd]", lambda: DenseLinearOperator(A.clone()), A, f"gen {n}"))
    d = C.ri(rng, (n,), 3, 6, dtype)
    out.append(X("AddedDiag", lambda: AddedDiagLinearOperator(DenseLinearOperator(A.clone()), DiagLinearOperator(d.clone())), A + torch.diag(d), f"ad {n}"))
    col = C.ri(rng, (n,), 0, 1, dtype)
    col[0] = 2 * n
    out.append(X("Toeplitz", lambda: ToeplitzLinearOperator(col.clone()), C.toeplitz_dense(col), f"gen {n}"))
    K1, K2 = C.psd_int(rng, (), 3, dtype, shift=3), C.psd_int(rng, (), n // 3, dtype, shift=3)
    out.append(X("Kronecker", lambda: KroneckerProductLinearOperator(K1.clone(), K2.clone()), C.kron(K1, K2), f"kron gen 3 gen {n // 3}"))
    Bl = C.psd_int(rng, (2,), n, dtype, rank=3, shift=4, min_gap=0)
    out.append(X("BlockDiag", lambda: BlockDiagLinearOperator(DenseLinearOperator(Bl.clone())), C.block_diag_dense(Bl), f"block 2 gen {n}"))
    return out


# ------------------------------------------------------------------------------------------------ one case
def rhs_shape(kind, batch, N):
    if kind == "vec":
        return (N,)
    if kind == "mat":
        return (*batch, N, 2)
    if kind == "col1":
        return (*batch, N, 1)
    if kind == "nobatch":
        return (N, 3)
    if kind == "batch1":
        return (*(1,) * len(batch), N, 2)
    if kind == "morebatch":
        return (3, *batch, N, 2)
    raise ValueError(kind)


def call_via(op, via, B, Lf):
    import linear_operator
    if via == "solve":
        return op.solve(B, Lf) if Lf is not None else op.solve(B)
    if via == "torch.linalg.solve":
        return torch.linalg.solve(op, B)
    if via == "linear_operator.solve":
        return linear_operator.solve(op, B)
    if via == "inv_quad":
        return op.inv_quad(B)
    if via == "inv_quad[noreduce]":
        return op.inv_quad(B, reduce_inv_quad=False)
    if via == "inv_quad_logdet":
        return op.inv_quad_logdet(B, logdet=False)[0]
    if via == "inverse@":
        return op.inverse() @ B
    if via == "inverse.to_dense":
        return op.inverse().to_dense()
    if via == "solve_triangular":
        return op.solve_triangular(B, upper=op.upper)
    if via == "matmul":
        return op @ B
    if via == "solve-twice":
        op.solve(B)
        return op.solve(B)
    raise ValueError(via)


def spec_value(x, via, B, Lf):
    Ainv = x.inv()
    Bd = B.double()
    Bm = Bd.unsqueeze(-1) if Bd.dim() == 1 else Bd
    Xs = Ainv @ Bm
    if via in ("inv_quad", "inv_quad_logdet"):
        return (Bm * Xs).sum((-1, -2))
    if via == "inv_quad[noreduce]":
        return (Bm * Xs).sum(-2)
    if via == "inverse.to_dense":
        return Ainv
    if via == "matmul":
        D = x.dense.double() if x.dense is not None else exact_inverse(x.solve_mat)
        res = D @ Bm
        return res.squeeze(-1) if Bd.dim() == 1 else res
    if Lf is not None:
        Xs = Lf.double() @ Xs
    if Bd.dim() == 1:
        Xs = Xs.squeeze(-1)
    return Xs


def one_case(chk, st, x, dtype, batch, cfgname, cfg, kind, left, via, cell):
    N = (x.dense if x.dense is not None else x.solve_mat).shape[-1]
    bshape = tuple((x.dense if x.dense is not None else x.solve_mat).shape[:-2])
    crng = random.Random(f"C04:{chk.seed}:{cell}")
    B = C.ri(crng, rhs_shape(kind, bshape, N), -3, 3, dtype)
    if float(B.abs().sum()) == 0:
        B = B + 1
    Lf = None
    if left:
        Lf = C.ri(crng, (*(B.shape[:-2] if B.dim() > 1 else ()), 2, N), -2, 2, dtype)
    want = spec_value(x, via, B, Lf)
    desc = f"{cell} B={B.flatten().tolist()[:12]} L={None if Lf is None else Lf.flatten().tolist()[:8]}"
    payload = {"cell": cell, "seed": chk.seed, "tier": chk.tier}
    chk.count("class/" + x.name)
    chk.count("cfg/" + cfgname)
    chk.count("rhs/" + kind + ("+left" if left else ""))
    chk.count("via/" + via)
    err_cls, got, evs, eigh_dtypes = None, None, [], []
    real_eigh = torch.linalg.eigh

    def spy_eigh(a, *args, **kw):
        eigh_dtypes.append(a.dtype)
        return real_eigh(a, *args, **kw)

    with capture() as cap, configured(cfg):
        if "lds" in cfg or "ldc" in cfg:
            torch.linalg.eigh = spy_eigh
        try:
            op = x.build()
            got = call_via(op, via, B, Lf)
        except Exception as e:  # noqa
            err_cls = f"{type(e).__name__}: {str(e)[:160]}"
        finally:
            torch.linalg.eigh = real_eigh
        evs = parse_events(cap.msgs)
    chk.case(desc, nontrivial=N > 1)
    for e in evs:
        chk.count("ran/" + e.split(":")[0])
    st["cases"] += 1
    # ---------------- exact discrete correspondence: which routine ran ----------------
    d = x.desc
    mc = cfg.get("mc", st["defaults"]["mc"])
    fast = cfg.get("fast", True) and (cfg.get("logprob", True) or not via.startswith("inv_quad"))
    if d is None and "chol-desc-gen" in x.tags and (not fast or N <= mc):
        d = f"gen {N}"
    if d is not None and via.startswith("inv_quad") and x.name not in GENERIC_INVQUAD:
        d = None  # classes with their own inv_quad / inv_quad_logdet: values only
    if d is not None and via in ("inverse@", "inverse.to_dense", "solve_triangular", "matmul"):
        d = None
    if d is not None and err_cls is None:
        if via == "solve-twice":
            first = d
            second = re.sub(r"(lrrad \d+ \d+) 0", r"\1 1", d)
            st["lines"].append(f"trace {mc} {int(fast)} {cfg.get('ps', st['defaults']['ps'])} {cfg.get('mp', st['defaults']['mp'])} {first}")
            st["expect"].append((cell, "trace-first", evs, payload, len(evs)))
            st["lines"].append(f"trace {mc} {int(fast)} {cfg.get('ps', st['defaults']['ps'])} {cfg.get('mp', st['defaults']['mp'])} {second}")
            st["expect"].append((cell, "trace-second", evs, payload, None))
        else:
            st["lines"].append(f"trace {mc} {int(fast)} {cfg.get('ps', st['defaults']['ps'])} {cfg.get('mp', st['defaults']['mp'])} {d}")
            st["expect"].append((cell, "trace", evs, payload, None))
    # ---------------- the property on the implementation ----------------
    if err_cls is not None:
        if not x.pd and "NotPSDError" in err_cls and not x.tags & {"D10"}:
            chk.count("outcome/not-pd-refused")   # non-PD operator sent through the generic PD path: outside the property
            return
        chk.violation(cell + "/exception:" + err_cls.split(":")[0], f"{x.name}.{via} raised {err_cls} (B shape {tuple(B.shape)}, left={left}, cfg={cfg_str(cfg)})", payload)
        return
    if tuple(got.shape) != tuple(want.shape):
        chk.violation(cell + "/shape", f"result shape {tuple(got.shape)} != {tuple(want.shape)} (cfg={cfg_str(cfg)})", payload)
        return
    if got.dtype != dtype and via != "inverse.to_dense":
        chk.violation(cell + "/dtype", f"result dtype {got.dtype} != {dtype}", payload)
        return
    kinds = {e.split(":")[0] for e in evs}
    # expected precision: the data dtype, except that eigen-structured paths (symeig ran) work in settings._linalg_dtype_symeig;
    # nothing on a solve path is documented to read the Cholesky linalg dtype (generated table `linalgDtypeReads`)
    f32 = dtype == F32 or ("symeig" in kinds and cfg.get("lds", F64) == F32)
    if eigh_dtypes and "lanczos" not in kinds and any(str(d_) != str(cfg.get("lds", F64)) for d_ in eigh_dtypes):
        chk.corr_break(cell + "/eigh-dtype", f"torch.linalg.eigh ran in {sorted(set(map(str, eigh_dtypes)))} but settings._linalg_dtype_symeig is "
                                             f"{cfg.get('lds', F64)} (cfg={cfg_str(cfg)})", payload)
    scale = max(1.0, float(want.abs().max()))
    err = float((got.double() - want).abs().max()) / scale
    if "lanczos" in kinds:
        tol, meth = (5e-3 if f32 else 1e-4), "lanczos-root"
    elif "cg" in kinds:
        meth = "cg"
        rb = 3 * max(float(cfg.get("tol", st["defaults"]["tol"])), 1e-4 if f32 else 1e-5)
        if via in ("solve", "torch.linalg.solve", "linear_operator.solve", "solve-twice") and Lf is None and x.dense is not None:
            A = x.dense.double()
            Bm = B.double().unsqueeze(-1) if B.dim() == 1 else B.double()
            Xg = got.double().unsqueeze(-1) if B.dim() == 1 else got.double()
            res = (Bm - A @ Xg).norm(dim=-2)
            bn = Bm.norm(dim=-2).expand_as(res)
            rel = torch.where(bn > 0, res / bn.clamp_min(1e-300), torch.zeros_like(res))
            val = float(rel.mean())
            chk.count("outcome/cg-residual-checked")
            if not (val <= rb):
                chk.violation(cell + "/residual", f"mean relative residual {val:.3e} > {rb:.1e} after CG (events {evs}, cfg={cfg_str(cfg)})", payload)
            return
        Ainv = x.inv()
        tol = rb * float(Ainv.norm()) * float(B.double().norm()) * (float(Lf.double().norm()) if Lf is not None else 1.0) \
            * (2 * float(B.double().norm()) if via.startswith("inv_quad") else 1.0) / scale + (1e-3 if f32 else 1e-8)
    else:
        # working precision: kappa <= ~1e3 for the catalogue (observed <= 1e-14), kappa ~ 1e5 for the singular-factor instances (observed <= 5e-12)
        tol, meth = (2e-3 if f32 else (1e-9 if "singular" in x.tags else 1e-11)), "direct"
    chk.count("method/" + meth)
    if meth == "direct" and not f32:
        key = "max_direct_err_f64[singular]" if "singular" in x.tags else "max_direct_err_f64"
        chk.extra[key] = max(chk.extra.get(key, 0.0), err)
    if not (err <= tol):
        chk.violation(cell + "/value", f"{x.name}.{via}: max rel error {err:.3e} > {tol:.1e} ({meth}; events {evs}; cfg={cfg_str(cfg)}; "
                                       f"B shape {tuple(B.shape)}, left={left})", payload)


GENERIC_INVQUAD = {"Chol[lower].inverse()", "Chol[upper].inverse()", "Dense[psd]", "Toeplitz", "PsdSum", "Sum[toeplitz+diag]", "ConstantMul", "SumBatch", "Sum(Kronecker,Diag)",
                   "ConstantMul(Kronecker)", "SumBatch(Kronecker)", "AddedDiag", "AddedDiag(Toeplitz,ConstantDiag)"}


KRONFACTOR_CFGS = {"default", "mc0|tol1e-6", "mc0|fastoff", "mc=n-1|tol1e-6", "mc=3|tol1e-6"}


def cfg_str(cfg):
    return ",".join(f"{k}={v}" for k, v in sorted(cfg.items(), key=lambda kv: kv[0])) or "default"


# ------------------------------------------------------------------------------------------------ value models (driver)
def fm(t):
    return fmt_mat(t.double().tolist())


def parse_mat(s):
    return [[float(Fraction(x)) for x in row.split(",")] for row in s.split(";")]


def formula_cases(chk, st, rng, only):
    """Library results of the structured paths vs the Lean value models on exact data (unbatched, float64)."""
    from linear_operator import settings
    from linear_operator.operators import (BlockDiagLinearOperator, BlockInterleavedLinearOperator, CholLinearOperator,
                                           DenseLinearOperator, DiagLinearOperator, KroneckerProductLinearOperator,
                                           LowRankRootAddedDiagLinearOperator, LowRankRootLinearOperator, TriangularLinearOperator)
    dt = F64
    sizes = [2, 3, 4] if chk.tier == "quick" else [1, 2, 3, 4, 5, 6]
    for n in sizes:
        for rep in range(1 if chk.tier == "quick" else 3):
            tag = f"[n={n}|r={rep}]"
            eye = torch.eye(n, dtype=dt)
            L = torch.tril(C.ri(rng, (n, n), -2, 2, dt)) * (1 - eye) + torch.diag(C.ri(rng, (n,), 1, 2, dt))
            if n > 1:
                L[n - 1, 0] = rng.choice([-2, -1, 1, 2])
            U = L.mT.clone()
            B = C.ri(rng, (n, 2), -3, 3, dt)
            jobs = []
            # triangular: flag and data agree (both orientations), plus the transposed view
            jobs.append((f"C04/model/tri{tag}/lower", f"tri 0 {n} 2 {fm(L)} {fm(B)}", lambda: TriangularLinearOperator(L.clone()).solve(B)))
            jobs.append((f"C04/model/tri{tag}/upper", f"tri 1 {n} 2 {fm(U)} {fm(B)}", lambda: TriangularLinearOperator(U.clone(), upper=True).solve(B)))
            jobs.append((f"C04/model/tri{tag}/lower.mT", f"tri 1 {n} 2 {fm(U)} {fm(B)}", lambda: TriangularLinearOperator(L.clone()).mT.solve(B)))
            # a full matrix under a triangular flag: only the named triangle may be read
            M = C.ri(rng, (n, n), -2, 2, dt) * (1 - eye) + torch.diag(C.ri(rng, (n,), 1, 2, dt))
            jobs.append((f"C04/model/tri{tag}/full-as-lower", f"tri 0 {n} 2 {fm(M)} {fm(B)}", lambda: TriangularLinearOperator(M.clone()).solve(B)))
            jobs.append((f"C04/model/tri{tag}/full-as-upper", f"tri 1 {n} 2 {fm(M)} {fm(B)}", lambda: TriangularLinearOperator(M.clone(), upper=True).solve(B)))
            jobs.append((f"C04/model/chols{tag}/lower", f"chols 0 {n} 2 {fm(L)} {fm(B)}", lambda: CholLinearOperator(TriangularLinearOperator(L.clone())).solve(B)))
            jobs.append((f"C04/model/chols{tag}/upper", f"chols 1 {n} 2 {fm(U)} {fm(B)}",
                         lambda: CholLinearOperator(TriangularLinearOperator(U.clone(), upper=True), upper=True).solve(B)))
            jobs.append((f"C04/model/chols{tag}/tri._cholesky_solve", f"chols 0 {n} 2 {fm(L)} {fm(B)}", lambda: TriangularLinearOperator(L.clone())._cholesky_solve(B)))
            jobs.append((f"C04/model/chols{tag}/tri._cholesky_solve[upper]", f"chols 1 {n} 2 {fm(U)} {fm(B)}",
                         lambda: TriangularLinearOperator(U.clone(), upper=True)._cholesky_solve(B, upper=True)))
            # inverse of a Cholesky operator: the root handed to RootLinearOperator, both orientations
            jobs.append((f"C04/model/cholinvroot{tag}/lower", f"cholinvroot 0 {n} 2 {fm(L)} {fm(B)}",
                         lambda: CholLinearOperator(TriangularLinearOperator(L.clone())).inverse().root.to_dense()))
            jobs.append((f"C04/model/cholinvroot{tag}/upper", f"cholinvroot 1 {n} 2 {fm(U)} {fm(B)}",
                         lambda: CholLinearOperator(TriangularLinearOperator(U.clone(), upper=True), upper=True).inverse().root.to_dense()))
            d = C.ri(rng, (n,), 1, 4, dt)
            jobs.append((f"C04/model/diag{tag}/solve", f"diag {n} 2 {fmt_list(d.tolist())} {fm(B)}", lambda: DiagLinearOperator(d.clone()).solve(B)))
            jobs.append((f"C04/model/diag{tag}/_cholesky_solve", f"diagchol {n} 2 {fmt_list(d.tolist())} {fm(B)}", lambda: DiagLinearOperator(d.clone())._cholesky_solve(B)))
            # left factor through Solve.forward
            A = C.psd_int(rng, (), n, dt)
            Ainv = exact_inverse(A)
            Lf = C.ri(rng, (2, n), -2, 2, dt)
            ainv_s = fmt_mat(frac_inv(to_frac_rows(A)))
            jobs.append((f"C04/model/left{tag}", f"left {n} 2 2 {ainv_s} {fm(Lf)} {fm(B)}", lambda: DenseLinearOperator(A.clone()).solve(B, Lf)))
            # Kronecker loop
            n2 = 2 if n != 2 else 3
            K1, K2 = C.psd_int(rng, (), n, dt), C.psd_int(rng, (), n2, dt)
            Bk = C.ri(rng, (n * n2, 2), -3, 3, dt)
            jobs.append((f"C04/model/kron{tag}/_solve", f"kron {n} {n2} 2 {fmt_mat(frac_inv(to_frac_rows(K1)))} {fmt_mat(frac_inv(to_frac_rows(K2)))} {fm(Bk)}",
                         lambda: KroneckerProductLinearOperator(K1.clone(), K2.clone())._solve(Bk)))
            # Woodbury
            k = 2
            Ur = C.ri(rng, (n, k), -2, 2, dt)
            dd = C.ri(rng, (n,), 1, 3, dt)
            cap = torch.eye(k, dtype=dt) + Ur.mT @ torch.diag(1 / dd) @ Ur
            capf = [[Fraction(int(i == j)) + sum(Fraction(int(Ur[r, i])) * Fraction(int(Ur[r, j])) / Fraction(int(dd[r])) for r in range(n))
                     for j in range(k)] for i in range(k)]
            jobs.append((f"C04/model/woodbury{tag}", f"woodbury {n} {k} 2 {fmt_list(dd.tolist())} {fm(Ur)} {fmt_mat(frac_inv(capf))} {fm(B)}",
                         lambda: LowRankRootAddedDiagLinearOperator(LowRankRootLinearOperator(Ur.clone()), DiagLinearOperator(dd.clone())).solve(B)))
            # block operators
            Bl = C.psd_int(rng, (2,), n, dt)
            binv = ";".join(fmt_mat(frac_inv(to_frac_rows(Bl[b]))) for b in range(2))
            Bb = C.ri(rng, (2 * n, 2), -3, 3, dt)
            for nm, cls, cmd in (("bdiag", BlockDiagLinearOperator, "bdiag"), ("bint", BlockInterleavedLinearOperator, "bint")):
                jobs.append((f"C04/model/{nm}{tag}/cholesky", f"{cmd} 2 {n} 2 {binv} {fm(Bb)}", lambda cls=cls: cls(DenseLinearOperator(Bl.clone())).solve(Bb)))
            for cell, line, fn in jobs:
                if only and only != cell:
                    continue
                try:
                    got = fn()
                except Exception as e:  # noqa
                    chk.violation(cell + "/exception", f"{type(e).__name__}: {str(e)[:200]}", {"cell": cell, "seed": chk.seed, "tier": chk.tier})
                    continue
                chk.case(cell + " " + line[:200], nontrivial=n > 1)
                chk.count("model/" + cell.split("/")[2].split("[")[0])
                st["lines"].append(line)
                st["expect"].append((cell, "value", got.double(), {"cell": cell, "seed": chk.seed, "tier": chk.tier}, None))
    # selection function on a grid (cheap, exact): model vs a direct transcription check against the library
    for n in (1, 2, 5, 799, 800, 801, 2000):
        for mc in (0, 1, 5, 800, 801):
            for fast in (0, 1):
                for cot in (0, 1):
                    st["lines"].append(f"sel solve {cot} {n} {mc} {fast}")
                    st["expect"].append((f"C04/model/select/solve[n={n}|mc={mc}|fast={fast}|cot={cot}]", "select",
                                         "structured" if cot else ("cholesky" if (not fast or n <= mc) else "iterative"), None, None))
                for lp in (0, 1):
                    st["lines"].append(f"sel invquad {n} {mc} {fast} {lp}")
                    st["expect"].append((f"C04/model/select/invquad[n={n}|mc={mc}|fast={fast}|lp={lp}]", "select",
                                         "cholesky" if (not fast or not lp or n <= mc) else "iterative", None, None))


# ------------------------------------------------------------------------------------------------ update 4: eigen-structured value models
def _householder(v):
    n, vv = len(v), sum(Fraction(x) * x for x in v)
    return [[Fraction(int(i == j)) - 2 * Fraction(v[i]) * v[j] / vv for j in range(n)] for i in range(n)]


def _fmul(A, B):
    return [[sum(A[i][l] * B[l][j] for l in range(len(B))) for j in range(len(B[0]))] for i in range(len(A))]


def _ft(A):
    return [list(r) for r in zip(*A)]


def rat_orth(rng, n):
    """an exactly orthogonal rational matrix (product of two Householder reflections of integer vectors), never the identity"""
    Q = [[Fraction(int(i == j)) for j in range(n)] for i in range(n)]
    for _ in range(2 if n > 1 else 1):
        while True:
            v = [rng.randint(-2, 2) for _ in range(n)]
            if sum(1 for x in v if x) >= min(2, n):
                break
        Q = _fmul(Q, _householder(v))
    return Q


def _fdiag(d):
    return [[Fraction(d[i]) if i == j else Fraction(0) for j in range(len(d))] for i in range(len(d))]


def _ften(A, dt=F64):
    return torch.tensor([[float(x) for x in r] for r in A], dtype=dt)


def eig_cases(chk, st, rng, only):
    """Library results of the eigen-structured `_solve` overrides / BatchRepeat._cholesky_solve / the N-factor Kronecker loop vs the Lean
    value models.  The models are fed EXACT primitive outputs (rational orthogonal eigenvectors, eigenvalues whose shifted products are
    perfect squares, exact inverse roots); the library computes its own in floating point; both must equal A^{-1} rhs (1e-9)."""
    from linear_operator.operators import (BatchRepeatLinearOperator, ConstantDiagLinearOperator, DiagLinearOperator,
                                           KroneckerProductAddedDiagLinearOperator, KroneckerProductDiagLinearOperator,
                                           KroneckerProductLinearOperator, SumKroneckerLinearOperator, TriangularLinearOperator)
    dt = F64
    reps = 2 if chk.tier == "quick" else 6
    # eigenvalue sets with e1[i]*e2[j] + 1 a perfect square for every pair
    E1 = {1: [[8], [1]], 2: [[1, 8], [8, 1]], 3: [[1, 8, 1], [8, 8, 1]]}
    E2 = {1: [[3], [15]], 2: [[3, 15], [120, 3], [15, 15]], 3: [[3, 15, 120], [15, 3, 3], [120, 15, 3]]}
    for rep in range(reps):
        for (n1, n2) in ([(2, 3), (3, 2)] if chk.tier == "quick" else [(2, 3), (3, 2), (2, 2), (1, 3), (3, 1), (3, 3)]):
            tag = f"[n1={n1}|n2={n2}|r={rep}]"
            c = 2
            N = n1 * n2
            rhs = C.ri(rng, (N, c), -3, 3, dt)
            Q1, Q2 = rat_orth(rng, n1), rat_orth(rng, n2)
            jobs = []
            # --- constant diagonal: K = (Q1 s^2 L1 Q1^T) x (Q2 L2 Q2^T), c = s^2
            sc = rng.choice([Fraction(1), Fraction(2), Fraction(1, 2), Fraction(3)])
            e1 = [Fraction(x) * sc * sc for x in rng.choice(E1[n1])]
            e2 = [Fraction(x) for x in rng.choice(E2[n2])]
            cst = sc * sc
            K1, K2 = _fmul(_fmul(Q1, _fdiag(e1)), _ft(Q1)), _fmul(_fmul(Q2, _fdiag(e2)), _ft(Q2))
            K1t, K2t = _ften(K1), _ften(K2)
            jobs.append((f"C04/model/kpconst{tag}/_solve",
                         f"kpconst {n1} {n2} {c} {fmt_mat(Q1)} {fmt_mat(Q2)} {fmt_list(e1)} {fmt_list(e2)} {fmt_list([cst])} {fm(rhs)}",
                         lambda K1t=K1t, K2t=K2t, cst=cst: KroneckerProductAddedDiagLinearOperator(
                             KroneckerProductLinearOperator(K1t.clone(), K2t.clone()),
                             ConstantDiagLinearOperator(torch.tensor([float(cst)], dtype=dt), diag_shape=N))._solve(rhs)))
            # --- Kronecker-constant diagonal: no square roots, arbitrary positive eigenvalues
            f1 = [Fraction(rng.randint(1, 6)) for _ in range(n1)]
            f2 = [Fraction(rng.randint(1, 6)) for _ in range(n2)]
            d1, d2 = Fraction(rng.randint(1, 3)), Fraction(rng.choice([1, 2, 3]), rng.choice([1, 2]))
            G1, G2 = _fmul(_fmul(Q1, _fdiag(f1)), _ft(Q1)), _fmul(_fmul(Q2, _fdiag(f2)), _ft(Q2))
            G1t, G2t = _ften(G1), _ften(G2)
            jobs.append((f"C04/model/kpkconst{tag}/_solve",
                         f"kpkconst {n1} {n2} {c} {fmt_mat(Q1)} {fmt_mat(Q2)} {fmt_list(f1)} {fmt_list(f2)} {fmt_list([d1])} {fmt_list([d2])} {fm(rhs)}",
                         lambda G1t=G1t, G2t=G2t, d1=d1, d2=d2: KroneckerProductAddedDiagLinearOperator(
                             KroneckerProductLinearOperator(G1t.clone(), G2t.clone()),
                             KroneckerProductDiagLinearOperator(ConstantDiagLinearOperator(torch.tensor([float(d1)], dtype=dt), n1),
                                                                ConstantDiagLinearOperator(torch.tensor([float(d2)], dtype=dt), n2)))._solve(rhs)))
            # --- general Kronecker diagonal (symmetrised): D_i entries perfect squares, K_i = D_i^{1/2} (Q L Q^T) D_i^{1/2}
            r1 = [Fraction(rng.choice([1, 2, 3])) for _ in range(n1)]
            r2 = [Fraction(rng.choice([1, 2]), rng.choice([1, 2])) for _ in range(n2)]
            if n1 > 1 and len(set(r1)) == 1:
                r1[0] = r1[0] + 1       # not a constant diagonal (that is the other branch)
            dd1, dd2 = [x * x for x in r1], [x * x for x in r2]
            S1, S2 = _fmul(_fmul(_fdiag(r1), G1), _fdiag(r1)), _fmul(_fmul(_fdiag(r2), G2), _fdiag(r2))
            S1t, S2t = _ften(S1), _ften(S2)
            jobs.append((f"C04/model/kpsymm{tag}/_solve",
                         f"kpsymm {n1} {n2} {c} {fmt_mat(Q1)} {fmt_mat(Q2)} {fmt_list(f1)} {fmt_list(f2)} {fmt_list(dd1)} {fmt_list(dd2)} {fm(rhs)}",
                         lambda S1t=S1t, S2t=S2t, dd1=dd1, dd2=dd2: KroneckerProductAddedDiagLinearOperator(
                             KroneckerProductLinearOperator(S1t.clone(), S2t.clone()),
                             KroneckerProductDiagLinearOperator(DiagLinearOperator(torch.tensor([float(x) for x in dd1], dtype=dt)),
                                                                DiagLinearOperator(torch.tensor([float(x) for x in dd2], dtype=dt))))._solve(rhs)))
            # --- sum of Kronecker products: C_i = L_i L_i^T (unit lower integer), R_i = L_i^{-T}, A_i = L_i (Q L Q^T) L_i^T
            def unit_lower(n):
                return [[Fraction(1) if i == j else (Fraction(rng.randint(-1, 1)) if j < i else Fraction(0)) for j in range(n)] for i in range(n)]
            L1, L2 = unit_lower(n1), unit_lower(n2)
            m1 = [Fraction(x) for x in rng.choice(E1[n1])]
            m2 = [Fraction(x) for x in rng.choice(E2[n2])]
            M1, M2 = _fmul(_fmul(Q1, _fdiag(m1)), _ft(Q1)), _fmul(_fmul(Q2, _fdiag(m2)), _ft(Q2))
            A1, A2 = _fmul(_fmul(L1, M1), _ft(L1)), _fmul(_fmul(L2, M2), _ft(L2))
            C1, C2 = _fmul(L1, _ft(L1)), _fmul(L2, _ft(L2))
            R1, R2 = _ft(frac_inv(L1)), _ft(frac_inv(L2))
            A1t, A2t, C1t, C2t = _ften(A1), _ften(A2), _ften(C1), _ften(C2)
            jobs.append((f"C04/model/sumkron{tag}/_solve",
                         f"sumkron {n1} {n2} {c} {fmt_mat(R1)} {fmt_mat(R2)} {fmt_mat(Q1)} {fmt_mat(Q2)} {fmt_list(m1)} {fmt_list(m2)} {fm(rhs)}",
                         lambda A1t=A1t, A2t=A2t, C1t=C1t, C2t=C2t: SumKroneckerLinearOperator(
                             KroneckerProductLinearOperator(A1t.clone(), A2t.clone()),
                             KroneckerProductLinearOperator(C1t.clone(), C2t.clone()))._solve(rhs)))
            # --- BatchRepeat._cholesky_solve: r repeats of a base batch of b triangular factors
            r_, b_ = rng.choice([(2, 1), (2, 2), (3, 2), (1, 2)]), None
            r_, b_ = r_
            n = n2
            Lb = torch.tril(C.ri(rng, (b_, n, n), -2, 2, dt)) * (1 - torch.eye(n, dtype=dt)) + torch.diag_embed(C.ri(rng, (b_, n), 1, 2, dt))
            Xb = C.ri(rng, (r_ * b_, n, c), -3, 3, dt)
            binv = ";".join(fmt_mat(frac_inv(to_frac_rows(Lb[k] @ Lb[k].mT))) for k in range(b_))
            jobs.append((f"C04/model/brepsolve[r={r_}|b={b_}|n={n}|rep={rep}]/_cholesky_solve",
                         f"brepsolve {r_} {b_} {n} {c} {binv} {fm(Xb.reshape(r_ * b_ * n, c))}",
                         lambda Lb=Lb, Xb=Xb, r_=r_, b_=b_, n=n: BatchRepeatLinearOperator(
                             TriangularLinearOperator(Lb.clone()), torch.Size((r_,)))._cholesky_solve(Xb).reshape(r_ * b_ * n, c)))
            # --- N-factor Kronecker loop on the flat buffer (2, 3 and 4 factors)
            for sizes in ([n1, n2], [n1, n2, 2], [2, n1, n2], [2, n1, 1, n2]):
                Ks = [C.psd_int(rng, (), k, dt) for k in sizes]
                Rn = 1
                for k in sizes:
                    Rn *= k
                rk = C.ri(rng, (Rn, c), -3, 3, dt)
                mx = max(sizes)
                rows = []
                for K in Ks:
                    for row in frac_inv(to_frac_rows(K)):
                        rows.append(list(row) + [Fraction(0)] * (mx - len(row)))
                jobs.append((f"C04/model/kronn[sizes={'x'.join(map(str, sizes))}|r={rep}]/_solve",
                             f"kronn {c} {fmt_list(sizes)} {fmt_mat(rows)} {fm(rk)}",
                             lambda Ks=Ks, rk=rk: KroneckerProductLinearOperator(*[K.clone() for K in Ks])._solve(rk)))
            for cell, line, fn in jobs:
                if only and only != cell:
                    continue
                try:
                    got = fn()
                except Exception as e:  # noqa
                    chk.violation(cell + "/exception", f"{type(e).__name__}: {str(e)[:200]}", {"cell": cell, "seed": chk.seed, "tier": chk.tier})
                    continue
                chk.case(cell + " " + line[:200], nontrivial=True)
                chk.count("model/" + cell.split("/")[2].split("[")[0])
                st["lines"].append(line)
                st["expect"].append((cell, "value", got.double(), {"cell": cell, "seed": chk.seed, "tier": chk.tier}, None))


# ------------------------------------------------------------------------------------------------ session 5: batch-broadcast rhs index maps
def _shp(s):
    return "s" + "x".join(map(str, s))


def _prod(s):
    r = 1
    for k in s:
        r *= k
    return r


BCAST_SHAPES_QUICK = [((2, 1), (3,)), ((2,), ()), ((), (2,)), ((1,), (3,)), ((3,), (1,)), ((2, 1), (1, 3)), ((1, 2), (2, 1)),
                      ((2,), (3, 2)), ((2, 3), (3,)), ((2,), (3,)), ((2, 1), (3, 2))]
BCAST_SHAPES_MORE = [((1, 1), (2,)), ((2, 1, 2), (3, 1)), ((3,), (2, 1)), ((2, 2), (2, 2)), ((1,), ()), ((), (1, 2)), ((2, 3), (2, 1)),
                     ((2, 3), (3, 2)), ((4,), (2, 1))]


def bcast_cases(chk, st, rng, only):
    """Operator batch `sA` x rhs batch `sB` (size-1 dims, missing leading dims, non-broadcastable pairs) for the direct solve paths and
    the Kronecker loop, with a left factor of batch `sL`: library vs the Lean flat-buffer model (`solveBroadcastFlat`, `kronSolveBroadcastFlat`,
    `leftBroadcastFlat`: which operator / rhs member each output member reads) vs dense torch.linalg.solve on the expanded tensors."""
    from linear_operator import to_linear_operator
    from linear_operator.operators import (BatchRepeatLinearOperator, CholLinearOperator, DiagLinearOperator,
                                           KroneckerProductLinearOperator, TriangularLinearOperator)
    dt = F64
    shapes = BCAST_SHAPES_QUICK + (BCAST_SHAPES_MORE if chk.tier != "quick" else [rng.choice(BCAST_SHAPES_MORE)])
    c = 2

    def tri(batch, n):
        return torch.tril(C.ri(rng, (*batch, n, n), -2, 2, dt), -1) + torch.diag_embed(C.ri(rng, (*batch, n), 1, 2, dt))

    def inv_rows(dense):
        return ";".join(fmt_mat(frac_inv(to_frac_rows(m))) for m in dense.reshape(-1, dense.shape[-2], dense.shape[-1]))

    def stack(t):
        return fm(t.reshape(-1, t.shape[-1]))

    def bshape(a, b):
        try:
            return tuple(torch.broadcast_shapes(a, b))
        except RuntimeError:
            return None

    jobs = []   # (cell, line, fn, spec)
    for sA, sB in shapes:
        out = bshape(sA, sB)
        n = rng.choice([2, 3])
        tagb = f"sA={_shp(sA)}|sB={_shp(sB)}"
        B = C.ri(rng, (*sB, n, c), -3, 3, dt)

        def spec_of(A, B=B, out=out, n=n):
            return None if out is None else torch.linalg.solve(A.expand(*out, n, n), B.expand(*out, n, c)).reshape(-1, c)
        # generic Cholesky path (torch.cholesky_solve broadcasting)
        A = C.psd_int(rng, sA, n, dt)
        jobs.append((f"C04/bcast/Dense[{tagb}|n={n}]/solve", f"bcastsolve {n} {c} {_shp(sA)} {_shp(sB)} {inv_rows(A)} {stack(B)}",
                     lambda A=A, B=B: to_linear_operator(A.clone()).solve(B), spec_of(A)))
        L = tri(sA, n)
        A = L @ L.mT
        jobs.append((f"C04/bcast/Chol[{tagb}|n={n}]/solve", f"bcastsolve {n} {c} {_shp(sA)} {_shp(sB)} {inv_rows(A)} {stack(B)}",
                     lambda L=L, B=B: CholLinearOperator(TriangularLinearOperator(L.clone())).solve(B), spec_of(A)))
        jobs.append((f"C04/bcast/Triangular[{tagb}|n={n}]/solve", f"bcastsolve {n} {c} {_shp(sA)} {_shp(sB)} {inv_rows(L)} {stack(B)}",
                     lambda L=L, B=B: TriangularLinearOperator(L.clone()).solve(B), spec_of(L)))
        d = 2.0 ** C.ri(rng, (*sA, n), -1, 2, dt)
        jobs.append((f"C04/bcast/Diag[{tagb}|n={n}]/solve", f"bcastsolve {n} {c} {_shp(sA)} {_shp(sB)} {inv_rows(torch.diag_embed(d))} {stack(B)}",
                     lambda d=d, B=B: DiagLinearOperator(d.clone()).solve(B), spec_of(torch.diag_embed(d))))
        # BatchRepeat over the leading operator batch dimension: member p of the operator batch is base member p % b
        if len(sA) >= 1 and sA[0] % 2 == 0:
            bb = (sA[0] // 2, *sA[1:])
            base = C.psd_int(rng, bb, n, dt)
            A = base.repeat(2, *([1] * (len(sA) - 1)), 1, 1)
            jobs.append((f"C04/bcast/BatchRepeat[{tagb}|n={n}]/solve", f"bcastsolve {n} {c} {_shp(sA)} {_shp(sB)} {inv_rows(A)} {stack(B)}",
                         lambda base=base, B=B, sA=sA: BatchRepeatLinearOperator(
                             to_linear_operator(base.clone()), torch.Size((2, *([1] * (len(sA) - 1))))).solve(B), spec_of(A)))
        # Kronecker loop: rhs.expand(*batch_shape, …) then reshape / factor solve / permute
        n1, n2 = rng.choice([(2, 3), (3, 2), (2, 2)])
        K1, K2 = C.psd_int(rng, sA, n1, dt), C.psd_int(rng, sA, n2, dt)
        X = C.ri(rng, (*sB, n1 * n2, c), -3, 3, dt)
        kd = torch.einsum("...ij,...kl->...ikjl", K1, K2).reshape(*sA, n1 * n2, n1 * n2)
        ksp = None if out is None else torch.linalg.solve(kd.expand(*out, n1 * n2, n1 * n2), X.expand(*out, n1 * n2, c)).reshape(-1, c)
        for ep in ("solve", "_solve"):
            jobs.append((f"C04/bcast/Kronecker[{tagb}|n1={n1}|n2={n2}]/{ep}",
                         f"bcastkron {n1} {n2} {c} {_shp(sA)} {_shp(sB)} {inv_rows(K1)} {inv_rows(K2)} {stack(X)}",
                         lambda K1=K1, K2=K2, X=X, ep=ep: getattr(KroneckerProductLinearOperator(K1.clone(), K2.clone()), ep)(X), ksp))
        # left factor: the generic path concatenates [Lᵀ | R] (so sL = sB); Diag.solve multiplies afterwards (any broadcastable sL)
        if out is not None:
            o = 2
            for cls, sL in (("Dense", sB), ("Diag", sB), ("Diag", (2, *([1] * len(out)))), ("Diag", ())):
                out2 = bshape(sL, out)
                Lf = C.ri(rng, (*sL, o, n), -2, 2, dt)
                if cls == "Dense":
                    A = C.psd_int(rng, sA, n, dt)
                    fn = lambda A=A, B=B, Lf=Lf: to_linear_operator(A.clone()).solve(B, Lf)  # noqa
                else:
                    dd = 2.0 ** C.ri(rng, (*sA, n), -1, 2, dt)
                    A = torch.diag_embed(dd)
                    fn = lambda dd=dd, B=B, Lf=Lf: DiagLinearOperator(dd.clone()).solve(B, Lf)  # noqa
                sp = (Lf.expand(*out2, o, n) @ torch.linalg.solve(A.expand(*out2, n, n), B.expand(*out2, n, c))).reshape(-1, c)
                jobs.append((f"C04/bcast/{cls}[{tagb}|sL={_shp(sL)}|n={n}]/solve-left",
                             f"bcastleft {n} {c} {o} {_shp(sA)} {_shp(sB)} {_shp(sL)} {inv_rows(A)} {stack(B)} {stack(Lf)}", fn, sp))
    # Triangular over a BatchRepeat of (batched) triangular factors — what BatchRepeat(PD).cholesky() returns; its solve() must fold the
    # repeats like BatchRepeat._cholesky_solve.  `samedim=1`: the base is batched (size > 1) along a dimension that is also repeated.
    for bsh, rep, sB in [((2,), (3,), (6,)), ((2,), (3,), ()), ((1,), (3,), (3,)), ((2,), (2, 1), (2, 2)), ((), (3,), (1,)), ((2,), (3,), (2, 6)),
                         ((2, 2), (1, 2), (1, 4))]:
        n = rng.choice([2, 3])
        pad = (1,) * (len(rep) - len(bsh)) + tuple(bsh)
        same = int(any(r_ > 1 and b_ > 1 for r_, b_ in zip(rep, pad)))
        sA = tuple(r_ * b_ for r_, b_ in zip(rep, pad))
        out = bshape(sA, sB)
        Lb = tri(bsh, n)
        Lrep = Lb.repeat(*rep, 1, 1)
        B = C.ri(rng, (*sB, n, c), -3, 3, dt)
        sp = torch.linalg.solve_triangular(Lrep.expand(*out, n, n), B.expand(*out, n, c), upper=False).reshape(-1, c)
        tagb = f"base={_shp(bsh)}|rep={_shp(rep)}|sB={_shp(sB)}|samedim={same}"
        line = f"bcastsolve {n} {c} {_shp(sA)} {_shp(sB)} {inv_rows(Lrep)} {stack(B)}"
        jobs.append((f"C04/bcast/Triangular(BatchRepeat(tri))[{tagb}]/solve", line,
                     lambda Lb=Lb, rep=rep, B=B: TriangularLinearOperator(BatchRepeatLinearOperator(
                         TriangularLinearOperator(Lb.clone()), torch.Size(rep))).solve(B), sp))
        jobs.append((f"C04/bcast/BatchRepeat(Dense).cholesky()[{tagb}]/solve", line,
                     lambda Lb=Lb, rep=rep, B=B: BatchRepeatLinearOperator(
                         to_linear_operator(Lb @ Lb.mT), torch.Size(rep)).cholesky().solve(B), sp))
        Arep = Lrep @ Lrep.mT
        spd = torch.linalg.solve(Arep.expand(*out, n, n), B.expand(*out, n, c)).reshape(-1, c)
        lined = f"bcastsolve {n} {c} {_shp(sA)} {_shp(sB)} {inv_rows(Arep)} {stack(B)}"
        jobs.append((f"C04/bcast/BatchRepeat(Dense)[{tagb}]/solve", lined,
                     lambda Lb=Lb, rep=rep, B=B: BatchRepeatLinearOperator(to_linear_operator(Lb @ Lb.mT), torch.Size(rep)).solve(B), spd))
        jobs.append((f"C04/bcast/BatchRepeat(Chol)[{tagb}]/solve", lined,
                     lambda Lb=Lb, rep=rep, B=B: BatchRepeatLinearOperator(
                         CholLinearOperator(TriangularLinearOperator(Lb.clone())), torch.Size(rep)).solve(B), spd))
        jobs.append((f"C04/bcast/BatchRepeat(tri)[{tagb}]/_cholesky_solve", lined,
                     lambda Lb=Lb, rep=rep, B=B: BatchRepeatLinearOperator(
                         TriangularLinearOperator(Lb.clone()), torch.Size(rep))._cholesky_solve(B), spd))
        Lf = C.ri(rng, (*sB, 2, n), -2, 2, dt)
        jobs.append((f"C04/bcast/Triangular(BatchRepeat(tri))[{tagb}]/solve-left",
                     f"bcastleft {n} {c} 2 {_shp(sA)} {_shp(sB)} {_shp(sB)} {inv_rows(Lrep)} {stack(B)} {stack(Lf)}",
                     lambda Lb=Lb, rep=rep, B=B, Lf=Lf: TriangularLinearOperator(BatchRepeatLinearOperator(
                         TriangularLinearOperator(Lb.clone()), torch.Size(rep))).solve(B, Lf),
                     (Lf.expand(*out, 2, n) @ sp.reshape(*out, n, c)).reshape(-1, c)))
    for cell, line, fn, spec in jobs:
        if only and only != cell:
            continue
        payload = {"cell": cell, "seed": chk.seed, "tier": chk.tier}
        chk.case(cell + " " + line[:160], nontrivial=True)
        chk.count("bcast/" + cell.split("/")[2].split("[")[0])
        try:
            got = fn()
        except Exception as e:  # noqa
            if spec is None and isinstance(e, RuntimeError):
                st["lines"].append(line)
                st["expect"].append((cell, "value", "shape-error", payload, None))
            else:
                chk.violation(cell + f"/exception:{type(e).__name__}", f"{type(e).__name__}: {str(e)[:200]}", payload)
            continue
        if spec is None:
            chk.violation(cell + "/shape", f"batch shapes do not broadcast but solve returned a tensor of shape {tuple(got.shape)}", payload)
            continue
        got2 = got.double().reshape(-1, got.shape[-1])
        if got2.shape != spec.shape:
            chk.violation(cell + "/shape", f"result shape {tuple(got.shape)}: {got2.shape[0]} stacked rows, dense solve on the expanded tensors has {spec.shape[0]}", payload)
            continue
        err = float((got2 - spec).abs().max())
        if not err <= 1e-9 * max(1.0, float(spec.abs().max())):
            chk.violation(cell + "/value", f"differs from torch.linalg.solve on the expanded dense tensors by {err:.3g}", payload)
            continue
        st["lines"].append(line)
        st["expect"].append((cell, "value", got2, payload, None))


# ------------------------------------------------------------------------------------------------ update 4: which algorithm ran (decision function)
def cls_token(x):
    """Lean `OpClass` of a catalogue instance (None: not classified)."""
    nm = x.name.split("@")[0]
    if nm.startswith("KroneckerAddedDiag[diag]"):
        return "kpadloOther"
    if nm.startswith("KroneckerAddedDiag[kronconst"):
        return "kpadloKronConst"
    if nm.startswith("KroneckerAddedDiag[krondiag"):
        return "kpadloKronDiag"
    if nm.startswith("SumKronecker"):
        return "sumKron"
    if nm.startswith("KroneckerTriangular"):
        return "kronTri"
    if nm.startswith("BlockInterleaved"):
        return "blockInterleaved"
    d = x.desc
    if d is None:
        return None
    head = d.split(" ")[0]
    return {"gen": "generic", "ad": "addedDiag", "diag": "diag", "id": "ident", "tri": "tri", "chol": "chol", "kron": "kron", "kron3": "kron",
            "kpc": "kpadloConst", "lrrad": "lrrad", "block": "blockDiag", "brep": "batchRepeat"}.get(head)


@contextlib.contextmanager
def algo_spy(rec):
    """Record, in call order, the selection-relevant calls: `cholesky()` (public), every class's `_solve`, the two KPADLO constructors."""
    import linear_operator.operators as O
    from linear_operator.operators._linear_operator import LinearOperator
    import linear_operator.operators.kronecker_product_added_diag_linear_operator as KP
    saved = []

    def wrap(owner, name, tag):
        orig = owner.__dict__[name]

        def f(self, *a, **k):
            pre = k.get("preconditioner", a[1] if len(a) > 1 else None) if name == "_solve" else None
            rec.append((tag, type(self).__name__, pre is not None))
            return orig(self, *a, **k)
        saved.append((owner, name, orig))
        setattr(owner, name, f)

    wrap(LinearOperator, "cholesky", "cholesky")
    seen = set()
    for cname in dir(O):
        cls = getattr(O, cname)
        if isinstance(cls, type) and issubclass(cls, LinearOperator):
            for k in cls.__mro__:
                if k not in seen and "_solve" in k.__dict__ and issubclass(k, LinearOperator):
                    seen.add(k)
                    wrap(k, "_solve", "_solve:" + k.__name__)
    for fn in ("_constant_kpadlt_constructor", "_symmetrize_kpadlt_constructor"):
        orig = getattr(KP, fn)
        saved.append((KP, fn, orig))
        setattr(KP, fn, (lambda orig, fn: (lambda *a, **k: (rec.append((fn, "", False)), orig(*a, **k))[1]))(orig, fn))
    try:
        yield
    finally:
        for owner, name, orig in saved:
            setattr(owner, name, orig)


def observed_algo(rec, evs):
    """Name (Lean `Algo.name`) of the algorithm the recorded call sequence shows at the top level."""
    if not rec:
        return "structured"          # a class-specific `solve` ran without touching cholesky() / any `_solve`
    tag, cname, pre = rec[0]
    if tag == "cholesky":
        return "cholFresh"           # the cached-factor scenarios refine this to cholCached when no factorization was logged
    if tag == "_solve:LinearOperator":
        return "pcg+precond" if pre else "pcg"
    if tag == "_solve:KroneckerProductLinearOperator":
        return "kronFactors"
    if tag == "_solve:KroneckerProductAddedDiagLinearOperator":
        nxt = [t for t, _, _ in rec[1:3]]
        if nxt[:1] == ["_constant_kpadlt_constructor"]:
            return "eigKronConst"
        if nxt[:1] == ["_symmetrize_kpadlt_constructor"]:
            return "eigSymm"
        if nxt[:1] == ["_solve:LinearOperator"]:
            return "pcg+precond" if rec[1][2] else "pcg"
        return "eigConst"
    if tag == "_solve:SumKroneckerLinearOperator":
        return "sumKronCongr"
    if tag == "_solve:LowRankRootAddedDiagLinearOperator":
        return "woodbury" if any(e.startswith("chol:") for e in evs) else "woodbury+cached"
    if tag in ("_solve:BlockDiagLinearOperator", "_solve:BlockInterleavedLinearOperator"):
        return "blockBase"
    if tag in ("_solve:TriangularLinearOperator", "_solve:CholLinearOperator"):
        return "structured"
    return "other:" + tag


STRUCTURED_ALGOS = {"triSubst", "kronTriFactors", "cholSubst", "cholHalf", "diagDiv", "identCopy"}


def method_cases(chk, st, rng, only):
    """The decision function `methodOf` vs the call sequence of the real library, over classes x settings x entry points, and the
    cached-factor scenarios (a factor cached on the caller's object before the call)."""
    from linear_operator.operators import AddedDiagLinearOperator, DenseLinearOperator, DiagLinearOperator
    dt = F64
    n = 3
    xs = build_instances(random.Random(f"C04:{chk.seed}:method"), dt, (), n)
    cfgs = [("default", {}), ("mc0", {"mc": 0, "maxit": 200}), ("mc0|fastoff", {"mc": 0, "fast": False}), ("mc0|logprob-off", {"mc": 0, "logprob": False, "maxit": 200}),
            ("mc0|prec5|minprec0", {"mc": 0, "ps": 5, "mp": 0, "maxit": 200}), ("mc0|prec0|minprec0", {"mc": 0, "ps": 0, "mp": 0, "maxit": 200}),
            ("mc=n", {"mc": None}), ("mc=n-1", {"mc": -1, "maxit": 200})]
    dflt = st["defaults"]
    per_tok = {}
    for x in xs:
        tok = cls_token(x)
        if tok is None or x.tags & {"D10", "tri-nondense", "singular", "inv-of-chol", "perm"}:
            continue
        per_tok[tok] = per_tok.get(tok, 0) + 1
        if per_tok[tok] > (3 if chk.tier == "quick" else 8):
            continue
        N = x.dense.shape[-1]
        B = C.ri(rng, (N, 2), -3, 3, dt)
        for cfgname, cfg0 in cfgs:
            cfg = dict(cfg0)
            if cfg.get("mc", 0) is None:
                cfg["mc"] = N
            elif cfg.get("mc", 0) == -1:
                cfg["mc"] = N - 1
            for entry, via in (("solve", "solve"), ("invquad", "inv_quad")):
                if not x.pd and (entry == "invquad" or True) and tok in ("tri", "kronTri") and entry == "invquad":
                    continue
                cell = f"C04/method/{x.name}[n={N}]/cfg={cfgname}/entry={entry}"
                if only and only != cell:
                    continue
                rec = []
                try:
                    with capture() as cap, configured(cfg), algo_spy(rec):
                        op = x.build()
                        rec.clear()
                        cap.msgs.clear()
                        second = x.name.startswith("LowRankRootAddedDiag") and rng.random() < 0.5
                        if second:
                            op.solve(B)
                            rec.clear()
                            cap.msgs.clear()
                        call_via(op, via, B, None)
                        evs = parse_events(cap.msgs)
                except Exception as e:  # noqa
                    chk.count("method/skipped-exception")
                    continue
                obs = observed_algo(rec, evs)
                if tok == "kronTri" and obs == "kronFactors":
                    obs = "kronTriFactors"      # KroneckerProductTriangular.solve runs the inherited factor-by-factor loop
                chk.case(cell + f" second={second}", nontrivial=True)
                chk.count("method/" + entry)
                mc, fast, lp = cfg.get("mc", dflt["mc"]), int(cfg.get("fast", True)), int(cfg.get("logprob", True))
                st["lines"].append(f"method {entry} {tok} {N} {mc} {fast} {lp} {cfg.get('ps', dflt['ps'])} {cfg.get('mp', dflt['mp'])} 0 0 {int(second)}")
                chk.count("method/class=" + tok)
                st["expect"].append((cell, "method", obs, {"cell": cell, "seed": chk.seed, "tier": chk.tier}, None))
    # ---- cached factors on the caller's object
    A = C.psd_int(rng, (), n, dt)
    dvec = C.ri(rng, (n,), 1, 3, dt)
    B = C.ri(rng, (n, 2), -3, 3, dt)
    mk = {"generic": (lambda: DenseLinearOperator(A.clone()), A),
          "addedDiag": (lambda: AddedDiagLinearOperator(DenseLinearOperator(A.clone()), DiagLinearOperator(dvec.clone())), A + torch.diag(dvec))}
    for tok, (make, dense) in mk.items():
        Ainv = exact_inverse(dense)
        for warm in ("none", "cholesky", "root"):
            for entry, via in (("solve", "solve"), ("invquad", "inv_quad"), ("iql", "inv_quad_logdet")):
                for cfgname, cfg in (("default", {}), ("mc0", {"mc": 0, "maxit": 200})):
                    cell = f"C04/method/cache[{tok}]/warm={warm}/cfg={cfgname}/entry={entry}"
                    if only and only != cell:
                        continue
                    rec = []
                    with capture() as cap, configured(cfg), algo_spy(rec):
                        op = make()
                        if warm == "cholesky":
                            op.cholesky()
                        elif warm == "root":
                            with configured({"mc": 800}):
                                op.root_decomposition(method="cholesky")
                        from linear_operator.operators import TriangularLinearOperator as _T
                        tri_root = warm == "root" and isinstance(op.root_decomposition().root, _T)
                        rec.clear()
                        cap.msgs.clear()
                        got = call_via(op, via, B, None)
                        evs = parse_events(cap.msgs)
                    obs = observed_algo(rec, evs)
                    if obs == "cholFresh" and not any(e.startswith("chol:") for e in evs):
                        obs = "cholCached"
                    if entry == "iql" and not rec and not evs:
                        obs = "cholFromRoot"
                    want = (B * (Ainv @ B)).sum((-1, -2)) if via != "solve" else Ainv @ B
                    err = float((got.double() - want).abs().max()) / max(1.0, float(want.abs().max()))
                    chk.case(cell, nontrivial=True)
                    chk.count("method/cache")
                    if not err <= (1e-9 if "cg" not in {e.split(':')[0] for e in evs} else 1e-2):
                        chk.violation(cell + "/value", f"value differs from A^-1 B by {err:.3e} (events {evs})", {"cell": cell, "seed": chk.seed, "tier": chk.tier})
                    mc = cfg.get("mc", dflt["mc"])
                    st["lines"].append(f"method {entry} {tok} {n} {mc} 1 1 {dflt['ps']} {dflt['mp']} {int(warm == 'cholesky' or (warm == 'root' and 'cholesky' in str(getattr(op, '_memoize_cache', {}).keys())))} {int(tri_root)} 0")
                    st["expect"].append((cell, "method", obs, {"cell": cell, "seed": chk.seed, "tier": chk.tier}, None))


# ------------------------------------------------------------------------------------------------ translator cross-check
def cross_check(chk, facts):
    from linear_operator import settings
    import linear_operator.operators as O
    d = facts["defaults"]
    rt = {"max_cholesky_size": settings.max_cholesky_size.value(), "max_preconditioner_size": settings.max_preconditioner_size.value(),
          "min_preconditioning_size": settings.min_preconditioning_size.value(), "max_cg_iterations": settings.max_cg_iterations.value(),
          "cg_tolerance": settings.cg_tolerance.value()}
    for k, v in rt.items():
        if str(d.get(k)) != str(v):
            chk.proof_break(f"translator(settings.{k})", f"extracted default {d.get(k)!r} but run-time value is {v!r}")
    if settings.fast_computations.solves.on() is not (d.get(facts["fast"].get("solves")) == "True"):
        chk.proof_break("translator(fast_computations.solves)", "extracted default differs from run-time state")
    for cname, _, hooks in facts["classes"]:
        cls = getattr(O, cname, None)
        if cls is None:
            import linear_operator.operators.permutation_linear_operator as P
            cls = getattr(P, cname, None)
        if cls is None:
            continue
        real = sorted(h for h in c04_select.HOOKS if h in cls.__dict__)
        if real != hooks:
            chk.proof_break(f"translator(hookTable {cname})", f"ast says {hooks}, class __dict__ says {real}")
    return {"mc": rt["max_cholesky_size"], "ps": rt["max_preconditioner_size"], "mp": rt["min_preconditioning_size"],
            "tol": float(rt["cg_tolerance"])}


# ------------------------------------------------------------------------------------------------ run
def configs_for(N, quick):
    base = [
        ("default", {}),
        ("mc0|tol1e-6", {"mc": 0, "tol": 1e-6, "maxit": 200}),
        ("mc0|tol1e-2", {"mc": 0, "tol": 1e-2, "maxit": 200}),
        ("mc0|tol1", {"mc": 0, "maxit": 200}),
        ("mc0|fastoff", {"mc": 0, "fast": False}),
        ("mc0|tol1e-6|prec5|minprec0", {"mc": 0, "tol": 1e-6, "maxit": 200, "ps": 5, "mp": 0}),
        ("mc0|tol1e-6|prec0|minprec0", {"mc": 0, "tol": 1e-6, "maxit": 200, "ps": 0, "mp": 0}),
        (f"mc=n|tol1e-6", {"mc": N, "tol": 1e-6, "maxit": 200}),
        (f"mc=n-1|tol1e-6", {"mc": N - 1, "tol": 1e-6, "maxit": 200}),
        ("default|memeff", {"memeff": True}),
        ("mc0|tol1e-6|memeff", {"mc": 0, "tol": 1e-6, "maxit": 200, "memeff": True}),
    ]
    # the full 2x2 of (symeig dtype, cholesky dtype), on the structured path (mc0), with factors below / product above the
    # threshold (mc=3) and on the default path
    for sn, sd in (("s32", F32), ("s64", F64)):
        for cn, cd in (("c32", F32), ("c64", F64)):
            if sd == F64 and cd == F64:
                continue  # = the default, present in every other configuration
            base.append((f"mc0|tol1e-6|ldt={sn}{cn}", {"mc": 0, "tol": 1e-6, "maxit": 200, "lds": sd, "ldc": cd}))
            base.append((f"default|ldt={sn}{cn}", {"lds": sd, "ldc": cd}))
            if N > 3:
                base.append((f"mc=3|tol1e-6|ldt={sn}{cn}", {"mc": 3, "tol": 1e-6, "maxit": 200, "lds": sd, "ldc": cd}))
    if N <= 4:
        base.append(("mc0|tol1e-6|maxit8", {"mc": 0, "tol": 1e-6, "maxit": 8}))  # max_cg_iterations >= 2n but below the Lanczos-quadrature default
    if N > 3:
        base.append(("mc=3|tol1e-6", {"mc": 3, "tol": 1e-6, "maxit": 200}))  # factors below, product above the threshold
    return base


def run(chk, only=None):
    facts = c04_select.generate()
    defaults = cross_check(chk, facts)
    chk.rule = ("every PD catalogue instance (depth 2) plus triangular / Cholesky-orientation / Kronecker-triangular / 3-factor Kronecker / "
                "Kronecker+diag variants / permutation / known-defect instances x batch {(), (2,)} x dtype x settings grid "
                "(max_cholesky_size 0/default/n/n-1/3, fast solves on/off, cg_tolerance 1/1e-2/1e-6, preconditioner size 0/5, "
                "min_preconditioning_size 0/2000, memory_efficient, linalg dtypes) x rhs kind (vector, matrix, 1 column, unbatched, "
                "size-1 batch, extra batch dim) x left factor x entry point (solve, torch.linalg.solve, linear_operator.solve, inv_quad, "
                "inverse, solve_triangular, second call); values from a per-cell RNG; non-trivial = operator larger than 1x1. "
                "spec = exact rational inverse (Fractions) of the independent dense matrix. "
                "Plus: value models of the eigen-structured _solve overrides / BatchRepeat._cholesky_solve / 2-4-factor Kronecker loops on exact "
                "rational primitive outputs (factor sizes 2x3, 3x2; thorough also 2x2, 1x3, 3x1, 3x3); decision-function cells: up to 3 (thorough 8) "
                "instances per operator class x 8 settings x {solve, inv_quad} and cached-factor scenarios {none, cholesky, root} x {solve, inv_quad, "
                "inv_quad_logdet} x {default, mc0} for Dense and AddedDiag; batch-broadcast cells: 12 (thorough 20) pairs of operator / rhs batch "
                "shapes (size-1 dims, missing leading dims, non-broadcastable) x {Dense, Chol, Triangular, Diag, BatchRepeat, Kronecker solve/_solve} "
                "+ left factors + 7 repeat layouts x BatchRepeat / Triangular(BatchRepeat) variants, spec = torch.linalg.solve on the expanded dense "
                "tensors, model = Lean flat-buffer index maps (distinct = shapes x class x entry point)")
    chk.assumptions += [
        "floating point is not modelled: direct paths are compared at 1e-11 (f64; 1e-9 for the kappa~1e5 singular-factor instances) / 2e-3 (f32, incl. float64 data on an eigen path under a float32 symeig linalg dtype) relative to max|A^{-1}B|, CG cells by the mean relative "
        "residual <= 3*max(cg_tolerance, 1e-5), Lanczos-root cells (SumKronecker / Kronecker+Kronecker-const-diag above max_cholesky_size) at 1e-4",
        "cholesky_ex / eigh / solve_triangular / cholesky_solve meet their contracts (hypotheses of the theorems); CG's contract is C08",
        "condition numbers of the catalogue are <= ~1e3",
        "operator descriptors (which Lean Op / OpClass an instance is) are harness-side; checked by the trace and call-sequence comparisons themselves",
        "the algorithm that ran is read off the first selection-relevant call (cholesky() / a class's _solve / a KPADLO constructor) recorded by wrapping these methods",
    ]
    chk.prove("LinOp.Properties.C04", ["LinOp/C04", "LinOp/Core", "LinOp/Generated/C04Select.lean"])
    st = {"lines": [], "expect": [], "cases": 0, "defaults": defaults}
    quick = chk.tier == "quick"
    dtypes = [F64, F32]
    batches = [(), (2,)] if quick else [(), (2,), (2, 3), (1,)]
    sizes = [3] if quick else [3, 2, 4]
    for dtype in dtypes:
        for batch in batches:
            for n in sizes:
                if dtype == F32 and (n != 3 or len(batch) > 1):
                    continue
                grng = random.Random(f"C04:{chk.seed}:{dtype}:{batch}:{n}")
                xs = build_instances(grng, dtype, batch, n)
                if n == sizes[0] and len(batch) <= 1:
                    xs += size1_instances(random.Random(f"C04:{chk.seed}:{dtype}:{batch}:size1"), dtype, batch)
                for x in xs:
                    N = (x.dense if x.dense is not None else x.solve_mat).shape[-1]
                    for cfgname, cfg in configs_for(N, quick):
                        if dtype == F32 and cfgname not in ("default", "mc0|tol1e-6", "mc0|fastoff"):
                            continue
                        if "ldt=" in cfgname and not (x.name.startswith("KroneckerAddedDiag") or x.name.startswith("SumKronecker")
                                                       or x.name in ("Dense[psd]", "Kronecker", "AddedDiag")):
                            continue
                        if "ldt=s32" in cfgname and "singular" in x.tags:
                            continue  # kappa ~ 1e5: a float32 eigendecomposition is not expected to resolve the noise level
                        if "kronfactor" in x.tags and cfgname not in KRONFACTOR_CFGS:
                            continue
                        if "size1" in x.tags and cfgname not in SIZE1_CFGS and not (cfgname.endswith("maxit8") and x.name in MAXIT8_INSTANCES):
                            continue
                        if cfgname.endswith("maxit8") and x.name not in MAXIT8_INSTANCES:
                            continue
                        if "no-lanczos" in x.tags and cfg.get("fast", True) and cfg.get("mc", defaults["mc"]) < max(2, n):
                            continue  # factors above max_cholesky_size would be diagonalised / rooted by Lanczos (toleranced path)
                        if "perm" in x.tags and not (cfg.get("fast", True) and N > cfg.get("mc", defaults["mc"])):
                            continue  # a permutation is not PD: only its own `_solve` (iterative branch) and inverse are in scope
                        rich = cfgname in ("default", "mc0|tol1e-6")
                        kinds = ["mat"]
                        if rich and dtype == F64:
                            kinds = ["mat", "vec", "col1", "morebatch"] + (["nobatch", "batch1"] if batch else [])
                        for kind in kinds:
                            for left in ((0, 1) if (rich and kind == "mat") or (rich and kind == "vec" and not batch) else (0,)):
                                vias = ["solve"]
                                if rich and kind == "mat" and not left and dtype == F64:
                                    vias += ["torch.linalg.solve", "linear_operator.solve", "inv_quad", "inv_quad[noreduce]", "solve-twice"]
                                    if x.name in INVERSE_DEFINED:
                                        vias += ["inverse@", "inverse.to_dense"]
                                    if x.name.startswith("Triangular["):
                                        vias += ["solve_triangular"]
                                    if x.name.startswith("Chol"):
                                        vias += ["matmul"]
                                if cfgname == "default" and kind == "mat" and not left and dtype == F64:
                                    pass
                                for via in vias:
                                    if kind == "vec" and left and (batch or (x.dense is not None and x.dense.dim() > 2)):
                                        continue  # a 1-D rhs with a left factor is only typed for an unbatched operator
                                    if x.tags & {"D10"} and via not in ("solve",):
                                        continue
                                    if not x.pd and via.startswith("inv_quad"):
                                        continue  # inverse quadratic forms are only defined for PD operators
                                    if x.name == "Triangular(BatchRepeat)" and kind in ("morebatch",):
                                        continue
                                    bn = "x".join(map(str, batch)) or "-"
                                    cell = f"C04/{x.name}[b={bn}|n={N}|{str(dtype)[6:]}]/cfg={cfgname}/rhs={kind}/left={left}/via={via}"
                                    if only and only != cell:
                                        continue
                                    one_case(chk, st, x, dtype, batch, cfgname, cfg, kind, left, via, cell)
                            # inv_quad with the log_prob flag off (selection of functions/_inv_quad.py)
                        if cfgname == "mc0|tol1e-6" and dtype == F64 and x.name in GENERIC_INVQUAD:
                            bn = "x".join(map(str, batch)) or "-"
                            cell = f"C04/{x.name}[b={bn}|n={N}|{str(dtype)[6:]}]/cfg={cfgname}|logprob-off/rhs=mat/left=0/via=inv_quad"
                            if not only or only == cell:
                                one_case(chk, st, x, dtype, batch, cfgname + "|logprob-off", dict(cfg, logprob=False), "mat", 0, "inv_quad", cell)
    # larger instances: CG really iterates and the tolerance matters
    for n in ([12] if quick else [12, 15, 24]):
        grng = random.Random(f"C04:{chk.seed}:big:{n}")
        for x in big_instances(grng, F64, n):
            N = x.dense.shape[-1]
            for cfgname, cfg in [("default", {}), ("mc0|tol1e-6", {"mc": 0, "tol": 1e-6, "maxit": 400}), ("mc0|tol1e-2", {"mc": 0, "tol": 1e-2, "maxit": 400}),
                                 ("mc0|tol1", {"mc": 0, "maxit": 400}), ("mc0|tol1e-6|prec5|minprec0", {"mc": 0, "tol": 1e-6, "maxit": 400, "ps": 5, "mp": 0}),
                                 ("mc=n|tol1e-6", {"mc": N, "tol": 1e-6, "maxit": 400}), ("mc=n-1|tol1e-6", {"mc": N - 1, "tol": 1e-6, "maxit": 400}),
                                 ("mc0|fastoff", {"mc": 0, "fast": False})]:
                for kind, left in (("mat", 0), ("vec", 0), ("mat", 1)):
                    cell = f"C04/big:{x.name}[b=-|n={N}|float64]/cfg={cfgname}/rhs={kind}/left={left}/via=solve"
                    if only and only != cell:
                        continue
                    one_case(chk, st, x, F64, (), cfgname, cfg, kind, left, "solve", cell)
    frng = random.Random(f"C04:{chk.seed}:formula")
    formula_cases(chk, st, frng, only)
    eig_cases(chk, st, random.Random(f"C04:{chk.seed}:eig"), only)
    method_cases(chk, st, random.Random(f"C04:{chk.seed}:methodrng"), only)
    bcast_cases(chk, st, random.Random(f"C04:{chk.seed}:bcast"), only)
    # ---------------- Lean driver ----------------
    outs = chk.run_driver("C04", st["lines"])
    if outs is not None:
        for o, (cell, kind, exp, payload, extra) in zip(outs, st["expect"]):
            if o == "bad-op":
                chk.corr_break(cell + "/driver", "driver rejected the case", payload)
                continue
            if kind == "select":
                if o == exp:
                    chk.traces_validated += 1
                else:
                    chk.corr_break(cell, f"Lean selectSolve says {o}, transcription of the source says {exp}", payload)
            elif kind == "method":
                ok = (o == exp) or (exp == "structured" and o in STRUCTURED_ALGOS)
                if ok:
                    chk.traces_validated += 1
                else:
                    chk.corr_break(cell + "/algorithm", f"library call sequence shows {exp} but the Lean decision function `methodOf` says {o}", payload)
            elif kind in ("trace", "trace-first", "trace-second"):
                size, method, evs = o.split(" ")
                model = [] if evs == "-" else evs.split(",")
                if kind == "trace":
                    ok = model == exp
                elif kind == "trace-first":
                    st["_first"] = model
                    continue
                else:
                    ok = st.pop("_first", []) + model == exp
                    model = "first+second call"
                if ok:
                    chk.traces_validated += 1
                else:
                    chk.corr_break(cell + "/algorithm", f"library ran {exp or ['nothing']} but the Lean selection model predicts {model} (method {method}, size {size})", payload)
            elif isinstance(exp, str):
                if o == exp:
                    chk.traces_validated += 1
                else:
                    chk.corr_break(cell, f"library raised a shape error but the Lean model returns a result ({o[:60]})", payload)
            elif o == "shape-error":
                chk.corr_break(cell, "the Lean model says the batch shapes do not broadcast but the library returned a result", payload)
            else:
                got = torch.tensor(parse_mat(o), dtype=F64)
                if got.shape == exp.shape and float((got - exp).abs().max()) <= 1e-9 * max(1.0, float(got.abs().max())):
                    chk.traces_validated += 1
                else:
                    chk.corr_break(cell, f"library result differs from the Lean value model by {float((got - exp).abs().max()) if got.shape == exp.shape else 'shape'}", payload)
    chk.extra["cases"] = st["cases"]


INVERSE_DEFINED = {"Diag", "ConstantDiag", "Identity", "Chol[lower]", "Chol[upper]", "KroneckerDiag", "Triangular[lower]", "Triangular[upper]",
                   "KroneckerTriangular[lower]", "KroneckerTriangular[upper]", "Permutation"}


def replay(chk, payload):
    p = payload.get("payload") or {}
    cell = p.get("cell") if isinstance(p, dict) else None
    if not cell:
        run(chk)
        return
    cell = re.sub(r"/exception(:\w+)?$", "", cell)
    for suffix in ("/shape", "/dtype", "/value", "/residual", "/algorithm", "/driver"):
        if cell.endswith(suffix):
            cell = cell[: -len(suffix)]
    chk.seed = p.get("seed", chk.seed)
    chk.tier = p.get("tier", chk.tier)
    run(chk, only=cell)
