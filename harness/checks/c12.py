"""C12 — cached results are transparent: answers do not depend on query history.

Implementation side: seed-random HISTORIES (queries / settings changes / derivations) on one operator object.
After every step
  * the answer is compared with the dense truth (validity of the factorization it claims to be) and, structurally
    (tuple layout, None-ness, shapes) and for uniquely determined answers also numerically, with the answer of a
    FRESHLY constructed deep copy under the same settings;
  * every entry of the object's `_memoize_cache` is audited against the dense truth (cache_inv on the implementation);
  * the canonicalised key set and the numerical primitives that ran (verbose_linalg logger) are recorded and compared
    exactly with the Lean model (LinOp/C12/Model.lean through the driver).
"""
import json
import logging
import pickle
import unittest.mock
import warnings

import torch

from ..extract import c12_cache
from ..extract import c12_settings

F64 = torch.float64
BIG = 800

# ----------------------------------------------------------------------------------------------- helpers


def _gen(rng):
    return torch.Generator().manual_seed(rng.randrange(2 ** 31))


def rand_pd(rng, n, batch=(), lo=1.0, hi=3.0):
    """Well-conditioned SPD matrices with distinct eigenvalues."""
    g = _gen(rng)
    q, _ = torch.linalg.qr(torch.randn(*batch, n, n, generator=g, dtype=F64))
    ev = torch.linspace(lo, hi, n, dtype=F64) + 0.05 * torch.rand(*batch, n, generator=g, dtype=F64)
    return (q * ev.unsqueeze(-2)) @ q.mT


def sym(a):
    return 0.5 * (a + a.mT)


def dense_of(x):
    from linear_operator.operators import LinearOperator
    return x.to_dense() if isinstance(x, LinearOperator) else x


def deep_fresh(op):
    """A freshly constructed copy: same class, same tensors, sub-operators rebuilt recursively, empty caches."""
    from linear_operator.operators import LinearOperator
    args = [deep_fresh(a) if isinstance(a, LinearOperator) else a for a in op._args]
    kwargs = {k: (deep_fresh(v) if isinstance(v, LinearOperator) else v) for k, v in op._kwargs.items()}
    if type(op).__name__ == "CholLinearOperator" and getattr(op, "upper", False):
        kwargs["upper"] = True      # `upper` never reaches `_kwargs` (D16, another property): a faithful copy must pass it
    return op.__class__(*args, **kwargs)


def sub_handle(op):
    """The first square sub-operator (a second handle on part of the same object graph), or None."""
    from linear_operator.operators import LinearOperator
    for a in op._args:
        if isinstance(a, LinearOperator) and a.dim() >= 2 and a.shape[-1] == a.shape[-2] and a.shape[-1] >= 2:
            return a
    return None


def sub_handles(op):
    """All square sub-operators (size >= 2) held directly by `op`, in argument order."""
    from linear_operator.operators import LinearOperator
    return [a for a in op._args if isinstance(a, LinearOperator) and a.dim() >= 2 and a.shape[-1] == a.shape[-2] and a.shape[-1] >= 2]


def _tensors_of(v, out, depth=0):
    from linear_operator.operators import LinearOperator
    if depth > 6:
        return
    if torch.is_tensor(v):
        out.append(v)
    elif isinstance(v, LinearOperator):
        for a in list(v._args) + list(v._kwargs.values()):
            _tensors_of(a, out, depth + 1)
    elif isinstance(v, (tuple, list)) and not isinstance(v, torch.Size):
        for a in v:
            _tensors_of(a, out, depth + 1)


ADHOC = ("_q_cache", "_r_cache", "_precond_lt", "_precond_logdet_cache", "_piv_chol_self", "_noise", "_default_preconditioner_cache")


def snapshot_caches(ops):
    """{(id(owner), key): (owner, value, [tensors], [clones])} for every memoised entry (and ad-hoc cache attribute) of the
    given operators and, recursively, of their sub-operators."""
    from linear_operator.operators import LinearOperator
    snap, seen = {}, set()

    def walk(o, depth):
        if id(o) in seen or depth > 5:
            return
        seen.add(id(o))
        entries = [(canon_key(k), v) for k, v in list(getattr(o, "_memoize_cache", {}).items())]
        entries += [("attr:" + a, o.__dict__[a]) for a in ADHOC if o.__dict__.get(a, None) is not None]
        for ck, v in entries:
            ts = []
            _tensors_of(v, ts)
            snap[(id(o), ck)] = (o, v, ts, [t.detach().clone() for t in ts])
        for a in list(o._args) + list(o._kwargs.values()):
            if isinstance(a, LinearOperator):
                walk(a, depth + 1)
    for o in ops:
        walk(o, 0)
    return snap


def mutated_entries(old, new):
    """Entries that existed before with the same value object and whose tensors are no longer bit-identical."""
    bad = []
    for k, (o, v, ts, cl) in old.items():
        if k in new and new[k][1] is v:
            for t, c in zip(ts, cl):
                if t.shape != c.shape or not torch.equal(t.detach(), c):
                    bad.append((type(o).__name__, k[1], (t.detach() - c).abs().max().item() if t.shape == c.shape else float("nan")))
                    break
    return bad


def canon_key(k):
    """`_memoize_cache` key -> canonical string  name|args|kwargs  (bare names:  !name)."""
    def arg(a):
        if a is None or isinstance(a, (bool, int, str, float)):
            return repr(a)
        if torch.is_tensor(a):
            return "<T>"
        return f"<{type(a).__name__}>"
    if isinstance(k, str):
        return "!" + k
    if not isinstance(k, tuple):
        return "!fn:" + getattr(k, "__name__", type(k).__name__)
    name, args, kw = k
    if not isinstance(name, str):
        name = "fn:" + getattr(name, "__name__", type(name).__name__)
    kws = pickle.loads(kw)
    return name + "|" + ",".join(arg(a) for a in args) + "|" + ",".join(f"{a}={arg(b)}" for a, b in kws.items())


def key_name(ck):
    return ck[1:] if ck.startswith("!") else ck.split("|")[0]


def keyset(op):
    return sorted(canon_key(k) for k in getattr(op, "_memoize_cache", {}).keys())


class LogTap(logging.Handler):
    def __init__(self):
        super().__init__(level=logging.DEBUG)
        self.items = []

    def emit(self, record):
        m = record.getMessage()
        if m.startswith("Running Cholesky"):
            self.items.append("chol")
        elif m.startswith("Running symeig"):
            self.items.append("symeig")
        elif m.startswith("Running Lanczos"):
            self.items.append("lanczos")
        elif m.startswith("Running CG"):
            self.items.append("cg")
        elif m.startswith("Running Pivoted"):
            self.items.append("pivchol")
        elif m.startswith("Running svd"):
            self.items.append("svd")
        else:
            self.items.append("other")


class Env:
    """Settings in force for one step + log capture."""
    DEFAULT = {"mcs": BIG, "frd": True, "flp": True, "fs": True, "mrds": 100}

    def __init__(self):
        import linear_operator.settings as S
        self.S = S
        self.tap = LogTap()
        lg = S.verbose_linalg.logger
        self._old = (lg.handlers[:], lg.propagate)
        lg.handlers = [self.tap]
        lg.propagate = False

    def close(self):
        lg = self.S.verbose_linalg.logger
        lg.handlers, lg.propagate = self._old

    def __call__(self, st):
        import contextlib
        S = self.S
        es = contextlib.ExitStack()
        es.enter_context(warnings.catch_warnings())
        warnings.simplefilter("ignore")
        es.enter_context(S.max_cholesky_size(st["mcs"]))
        es.enter_context(S.fast_computations(covar_root_decomposition=st["frd"], log_prob=st["flp"], solves=st["fs"]))
        es.enter_context(S.max_root_decomposition_size(st["mrds"]))
        es.enter_context(S.verbose_linalg(True))
        es.enter_context(S.min_preconditioning_size(2))
        es.enter_context(S.cg_tolerance(1e-4))
        es.enter_context(S.max_cg_iterations(200))
        return es

    def logs(self, fn):
        self.tap.items = []
        res = fn()
        out = list(self.tap.items)
        self.tap.items = []
        return res, out


# ----------------------------------------------------------------------------------------------- catalogue


class Spec:
    """One operator of the catalogue: `make()` builds a fresh object; `truth` is its dense matrix (float64)."""

    def __init__(self, cls, make, truth, profile, pd=True, tags=()):
        self.cls, self.make, self.truth, self.profile, self.pd, self.tags = cls, make, truth, profile, pd, set(tags)
        self.n = truth.shape[-1]
        self.batch = tuple(truth.shape[:-2])


def _rbf(x1, x2, lengthscale):
    x1 = x1.div(lengthscale)
    x2 = x2.div(lengthscale)
    sq = (x1.unsqueeze(-2) - x2.unsqueeze(-3)).square().sum(dim=-1)
    return sq.div(-2.0).exp()


def catalogue(rng, tier):
    import linear_operator.operators as O
    specs = []

    def add(cls, make, profile, pd=True, tags=()):
        with warnings.catch_warnings():
            warnings.simplefilter("ignore")
            o_ = make()
            truth = o_.to_dense().detach().clone()
        sp = Spec(cls, make, truth, profile, pd, tags)
        sp.has_sub = pd and sub_handle(o_) is not None
        sp.nsub = len(sub_handles(o_)) if pd else 0
        specs.append(sp)

    n = rng.choice([5, 6])
    A = rand_pd(rng, n)
    add(f"Dense[n={n}]", lambda A=A: O.DenseLinearOperator(A.clone()), "base")
    Ab = rand_pd(rng, 4, (2,))
    add("Dense[b=(2,)|n=4]", lambda A=Ab: O.DenseLinearOperator(A.clone()), "base")
    d = torch.linspace(1.0, 3.0, 5, dtype=F64) + 0.1 * torch.rand(5, generator=_gen(rng), dtype=F64)
    add("Diag[n=5]", lambda d=d: O.DiagLinearOperator(d.clone()), "diag")
    db = torch.linspace(1.0, 3.0, 4, dtype=F64) + 0.1 * torch.rand(2, 4, generator=_gen(rng), dtype=F64)
    add("Diag[b=(2,)|n=4]", lambda d=db: O.DiagLinearOperator(d.clone()), "diag")
    K1, K2 = rand_pd(rng, 2, lo=1.0, hi=1.6), rand_pd(rng, 3, lo=1.0, hi=2.0)
    add("Kronecker[2x3]", lambda a=K1, b=K2: O.KroneckerProductLinearOperator(O.DenseLinearOperator(a.clone()), O.DenseLinearOperator(b.clone())), "kron")
    d6 = 0.5 + torch.rand(6, generator=_gen(rng), dtype=F64)
    dk2, dk3 = 0.6 + torch.rand(2, generator=_gen(rng), dtype=F64), 0.6 + torch.rand(3, generator=_gen(rng), dtype=F64)
    J1, J2 = rand_pd(rng, 2, lo=0.5, hi=0.9), rand_pd(rng, 3, lo=0.5, hi=1.2)

    def kron(a=K1, b=K2):
        return O.KroneckerProductLinearOperator(O.DenseLinearOperator(a.clone()), O.DenseLinearOperator(b.clone()))
    add("KronAddedDiag(ConstantDiag)[2x3]", lambda: O.KroneckerProductAddedDiagLinearOperator(
        kron(), O.ConstantDiagLinearOperator(torch.tensor([0.7], dtype=F64), 6)), "kpad")
    add("KronAddedDiag(Diag)[2x3]", lambda d=d6: O.KroneckerProductAddedDiagLinearOperator(kron(), O.DiagLinearOperator(d.clone())), "kpad")
    add("KronAddedDiag(KronDiag)[2x3]", lambda a=dk2, b=dk3: O.KroneckerProductAddedDiagLinearOperator(
        kron(), O.KroneckerProductDiagLinearOperator(O.DiagLinearOperator(a.clone()), O.DiagLinearOperator(b.clone()))), "kpad")
    add("KronAddedDiag(KronConstantDiag)[2x3]", lambda: O.KroneckerProductAddedDiagLinearOperator(
        kron(), O.KroneckerProductDiagLinearOperator(O.ConstantDiagLinearOperator(torch.tensor([0.8], dtype=F64), 2),
                                                     O.ConstantDiagLinearOperator(torch.tensor([1.3], dtype=F64), 3))), "kpad")
    add("SumKronecker[2x3]", lambda a=J1, b=J2: O.SumKroneckerLinearOperator(kron(), kron(a, b)), "sumkron")
    A2, d2 = rand_pd(rng, 5), 0.5 + torch.rand(5, generator=_gen(rng), dtype=F64)
    add("AddedDiag(Dense,Diag)[n=5]", lambda a=A2, d=d2: O.AddedDiagLinearOperator(O.DenseLinearOperator(a.clone()), O.DiagLinearOperator(d.clone())), "addeddiag", tags=("precond",))
    A2c = rand_pd(rng, 6)
    add("AddedDiag(Dense,ConstantDiag)[n=6]", lambda a=A2c: O.AddedDiagLinearOperator(
        O.DenseLinearOperator(a.clone()), O.ConstantDiagLinearOperator(torch.tensor([0.7], dtype=F64), 6)), "addeddiag", tags=("precond",))
    R = torch.randn(6, 2, generator=_gen(rng), dtype=F64)
    d3 = 1.0 + torch.rand(6, generator=_gen(rng), dtype=F64)
    add("LowRankRootAddedDiag[n=6|r=2]", lambda r=R, d=d3: O.LowRankRootAddedDiagLinearOperator(
        O.LowRankRootLinearOperator(r.clone()), O.DiagLinearOperator(d.clone())), "lrrad", tags=("precond",))
    L = torch.linalg.cholesky(rand_pd(rng, 5))
    add("Chol(lower)[n=5]", lambda L=L: O.CholLinearOperator(O.TriangularLinearOperator(L.clone())), "chol")
    add("Chol(upper)[n=5]", lambda L=L: O.CholLinearOperator(O.TriangularLinearOperator(L.mT.contiguous().clone(), upper=True), upper=True), "chol")
    L4 = torch.linalg.cholesky(rand_pd(rng, 4))
    add("BatchRepeat(Chol)[b=(2,)|n=4]", lambda L=L4: O.BatchRepeatLinearOperator(
        O.CholLinearOperator(O.TriangularLinearOperator(L.clone())), torch.Size((2,))), "brepeat")
    add("Triangular(lower)[n=5]", lambda L=L: O.TriangularLinearOperator(L.clone()), "tri", pd=False)
    add("Triangular(upper)[n=5]", lambda L=L: O.TriangularLinearOperator(L.mT.contiguous().clone(), upper=True), "tri", pd=False)
    base = rand_pd(rng, 4)
    g = _gen(rng)
    idx = torch.stack([torch.randperm(4, generator=g)[:2] for _ in range(6)])
    val = 0.3 + torch.rand(6, 2, generator=g, dtype=F64)
    add("Interpolated[n=6|m=4]", lambda b=base, i=idx, v=val: O.InterpolatedLinearOperator(
        O.DenseLinearOperator(b.clone()), i.clone(), v.clone(), i.clone(), v.clone()), "interp", pd=False)
    d4 = 0.8 + torch.rand(6, generator=g, dtype=F64)
    add("AddedDiag(Interpolated,Diag)[n=6]", lambda b=base, i=idx, v=val, d=d4: O.AddedDiagLinearOperator(
        O.InterpolatedLinearOperator(O.DenseLinearOperator(b.clone()), i.clone(), v.clone(), i.clone(), v.clone()),
        O.DiagLinearOperator(d.clone())), "addeddiag", tags=("precond",))
    x = torch.linspace(0, 3, 5, dtype=F64).unsqueeze(-1) + 0.1 * torch.rand(5, 1, generator=g, dtype=F64)
    ls = torch.tensor([[0.7]], dtype=F64)
    add("Kernel(rbf)[n=5]", lambda x=x, ls=ls: O.KernelLinearOperator(x.clone(), x.clone(), lengthscale=ls.clone(), covar_func=_rbf), "kernel", pd=False)
    add("AddedDiag(Kernel,Diag)[n=5]", lambda x=x, ls=ls, d=d2: O.AddedDiagLinearOperator(
        O.KernelLinearOperator(x.clone(), x.clone(), lengthscale=ls.clone(), covar_func=_rbf), O.DiagLinearOperator(d.clone())),
        "addeddiag", tags=("precond",))
    A5 = rand_pd(rng, 4)
    add("BatchRepeat(Dense)[b=(2,)|n=4]", lambda a=A5: O.BatchRepeatLinearOperator(O.DenseLinearOperator(a.clone()), torch.Size((2,))), "brepeat")
    S1, S2 = rand_pd(rng, 5), rand_pd(rng, 5, lo=0.5, hi=1.0)
    add("Sum(Dense,Dense)[n=5]", lambda a=S1, b=S2: O.SumLinearOperator(O.DenseLinearOperator(a.clone()), O.DenseLinearOperator(b.clone())), "sum")
    C = rand_pd(rng, 5)
    add("ConstantMul(Dense)[n=5]", lambda a=C: O.ConstantMulLinearOperator(O.DenseLinearOperator(a.clone()), torch.tensor(2.5, dtype=F64)), "constmul")
    Bd = rand_pd(rng, 3, (2,))
    add("BlockDiag(Dense[b=2])[2x3]", lambda a=Bd: O.BlockDiagLinearOperator(O.DenseLinearOperator(a.clone())), "block")
    add("BlockInterleaved(Dense[b=2])[2x3]", lambda a=Bd: O.BlockInterleavedLinearOperator(O.DenseLinearOperator(a.clone())), "block")
    add("KroneckerDiag[2x3]", lambda a=dk2, b=dk3: O.KroneckerProductDiagLinearOperator(O.DiagLinearOperator(a.clone()), O.DiagLinearOperator(b.clone())), "diag")
    add("Identity[n=4]", lambda: O.IdentityLinearOperator(4, dtype=F64), "diag", tags=("degenerate",))
    M1 = rand_pd(rng, 4, lo=1.0, hi=2.0)
    add("Matmul(Dense,Dense)[n=4]", lambda a=M1: O.MatmulLinearOperator(O.DenseLinearOperator(a.clone()), O.DenseLinearOperator(a.clone())), "matmul")
    # n-ary Kronecker product with factors of two different modelled classes (a Sum factor memoises its `to_dense`, so the
    # factor-wise `_symeig` leaves a key on it): exercised by the settings-flip family and the exact wrapper correspondence only
    Kf1, Kf2a, Kf2b, Kf3 = rand_pd(rng, 2, lo=1.0, hi=1.4), rand_pd(rng, 2, lo=0.5, hi=0.7), rand_pd(rng, 2, lo=0.5, hi=0.7), rand_pd(rng, 3, lo=1.0, hi=1.8)
    add("Kronecker[2x2x3|Dense,Sum,Dense]", lambda a=Kf1, b=Kf2a, c=Kf2b, d=Kf3: O.KroneckerProductLinearOperator(
        O.DenseLinearOperator(a.clone()), O.SumLinearOperator(O.DenseLinearOperator(b.clone()), O.DenseLinearOperator(c.clone())),
        O.DenseLinearOperator(d.clone())), "kron", tags=("fliponly",))
    if tier == "thorough":
        A9 = rand_pd(rng, 9)
        add("Dense[n=9]", lambda A=A9: O.DenseLinearOperator(A.clone()), "base")
        Abb = rand_pd(rng, 3, (2, 2))
        add("Dense[b=(2,2)|n=3]", lambda A=Abb: O.DenseLinearOperator(A.clone()), "base")
        Sb = rand_pd(rng, 4, (2,))
        add("Sum(Dense[b],Dense)[b=(2,)|n=4]", lambda a=Sb, b=A5: O.SumLinearOperator(O.DenseLinearOperator(a.clone()), O.DenseLinearOperator(b.clone())), "sum")
        K3 = rand_pd(rng, 2, lo=1.0, hi=1.4)
        add("Kronecker[2x2x3]", lambda a=K1, b=K3, c=K2: O.KroneckerProductLinearOperator(
            O.DenseLinearOperator(a.clone()), O.DenseLinearOperator(b.clone()), O.DenseLinearOperator(c.clone())), "kron")
    return specs


# ----------------------------------------------------------------------------------------------- queries

ROOT_METHODS = [None, "cholesky", "symeig", "lanczos", "diagonalization", "svd", "pivoted_cholesky"]
ROOTINV_METHODS = [None, "cholesky", "symeig", "lanczos", "diagonalization", "svd", "pinverse"]


def call_variant(kind, method):
    """How `method` is passed: 'none' -> f(), 'kw' -> f(method=m), 'pos' -> positional."""
    return kind, method


def query_list(spec):
    qs = [("to_dense",), ("diagonal",), ("matmul",)]
    if spec.profile == "tri":
        return qs + [("inverse",), ("tsolve",)]
    if spec.profile in ("interp", "kernel"):
        return qs
    qs += [("rootinv_iv", 1), ("rootinv_iv", 3)]
    qs += [("cholesky", False), ("cholesky", True), ("hook_cholesky", False), ("hook_cholesky", True), ("svd",), ("eigh",), ("eigvalsh",), ("solve",), ("logdet",),
           ("iql",), ("inv_quad",), ("sample",)]
    for m in ROOT_METHODS:
        for how in (("none",) if m is None else ()) + ("kw", "pos"):
            qs.append(("root", how, m))
    for m in ROOTINV_METHODS:
        for how in (("none",) if m is None else ()) + ("kw",):
            qs.append(("rootinv", how, m))
    for m in (None, "symeig", "lanczos"):
        for how in (("none",) if m is None else ()) + ("kw", "pos"):
            qs.append(("diagz", how, m))
    if spec.profile in ("chol", "diag", "kron"):
        qs.append(("inverse",))
    if "precond" in spec.tags:
        qs.append(("precond",))
    return qs


def _fake_randn(real):
    def f(*shape, **kw):
        gen = kw.pop("generator", None)
        if len(shape) == 1 and isinstance(shape[0], (tuple, list, torch.Size)):
            shape = tuple(shape[0])
        if len(shape) >= 2 and shape[-1] == shape[-2]:
            return torch.eye(shape[-1], dtype=kw.get("dtype", None)).expand(*shape).contiguous()
        return real(*shape, generator=gen, **kw) if gen is not None else real(*shape, **kw)
    return f


def run_query(op, q, rhs):
    """Execute query `q` on `op`; returns a dict  {sig: str, vals: {label: tensor}}  of observations."""
    kind = q[0]
    n = op.shape[-1]

    def mcall(f, how, m):
        if how == "none":
            return f()
        if how == "kw":
            return f(method=m)
        return f(m)

    if kind == "to_dense":
        r = op.to_dense()
        return {"sig": f"T{tuple(r.shape)}", "dense": r}
    if kind == "diagonal":
        r = op.diagonal()
        return {"sig": f"T{tuple(r.shape)}", "diag": r}
    if kind == "matmul":
        r = op.matmul(rhs)
        return {"sig": f"T{tuple(r.shape)}", "matmul": r}
    if kind == "cholesky":
        r = op.cholesky(upper=q[1])
        return {"sig": f"op{tuple(r.shape)}", "chol": r.to_dense(), "upper": q[1]}
    if kind == "hook_cholesky":      # the memoised hook itself, as overrides of other classes call it
        r = op._cholesky(upper=q[1])
        return {"sig": f"op{tuple(r.shape)}", "chol": r.to_dense(), "upper": q[1]}
    if kind == "root":
        r = mcall(op.root_decomposition, q[1], q[2])
        # when the answer is the operator itself (Root/Chol), densify a cache-free copy: observing must not write op's cache
        return {"sig": f"op{tuple(r.shape)}", "psd": (deep_fresh(r) if r is op else r).to_dense(), "root_tri": type(r.root).__name__ == "TriangularLinearOperator"}
    if kind == "rootinv":
        r = mcall(op.root_inv_decomposition, q[1], q[2])
        return {"sig": f"op{tuple(r.shape)}", "psdinv": r.to_dense()}
    if kind == "rootinv_iv":     # Lanczos inverse root from caller-supplied start vectors (1 column / k columns) + test vectors
        g = torch.Generator().manual_seed(777 + q[1] + n)
        iv = torch.randn(*op.shape[:-2], n, q[1], generator=g, dtype=F64)
        tv = torch.randn(*op.shape[:-2], n, 3, generator=g, dtype=F64)
        r = op.root_inv_decomposition(initial_vectors=iv, test_vectors=tv)
        return {"sig": f"op{tuple(r.shape)}", "psdinv": r.to_dense()}
    if kind == "diagz":
        ev, evec = mcall(op.diagonalization, q[1], q[2])
        V = dense_of(evec)
        return {"sig": f"T{tuple(ev.shape)}/op{tuple(V.shape)}", "psd": (V * ev.unsqueeze(-2)) @ V.mT, "evals": ev}
    if kind == "svd":
        U, S_, V = op.svd()
        U, V = dense_of(U), dense_of(V)
        return {"sig": f"{tuple(U.shape)}/{tuple(S_.shape)}/{tuple(V.shape)}", "psd": (U * S_.unsqueeze(-2)) @ V.mT, "evals": S_}
    if kind == "eigh":
        r = op.eigh()
        ev, evec = r
        out = {"sig": f"T{tuple(ev.shape)}/{'None' if evec is None else tuple(evec.shape)}", "evals": ev}
        if evec is not None:
            V = dense_of(evec)
            out["psd"] = (V * ev.unsqueeze(-2)) @ V.mT
        return out
    if kind == "eigvalsh":
        r = op.eigvalsh()
        if isinstance(r, tuple):
            return {"sig": "tuple" + str(len(r))}
        return {"sig": f"T{tuple(r.shape)}", "evals": r}
    if kind == "solve":
        r = op.solve(rhs)
        return {"sig": f"T{tuple(r.shape)}", "solve": r}
    if kind == "tsolve":
        r = op.solve(rhs)
        return {"sig": f"T{tuple(r.shape)}", "solve": r}
    if kind == "logdet":
        r = op.logdet()
        return {"sig": f"T{tuple(r.shape)}", "logdet": r}
    if kind == "iql":
        a, b = op.inv_quad_logdet(rhs, logdet=True)
        return {"sig": f"T{tuple(a.shape)}/T{tuple(b.shape)}", "inv_quad": a, "logdet": b}
    if kind == "inv_quad":
        a = op.inv_quad(rhs)
        return {"sig": f"T{tuple(a.shape)}", "inv_quad": a}
    if kind == "inverse":
        r = op.inverse()
        return {"sig": f"op{tuple(r.shape)}", "inv": r.to_dense()}
    if kind == "sample":
        real = torch.randn
        with unittest.mock.patch("torch.randn", _fake_randn(real)):
            s = op.zero_mean_mvn_samples(n)
        # with identity base samples, samples[k, ..., :] is the k-th column of the root
        root = s.permute(*range(1, s.dim()), 0)
        return {"sig": f"T{tuple(s.shape)}", "psd": root @ root.mT}
    if kind == "precond":
        cl, plt, ld = op._preconditioner()
        if cl is None:
            return {"sig": "None"}
        eye = torch.eye(n, dtype=F64).expand(*op.shape[:-2], n, n)
        P = plt.to_dense()
        return {"sig": f"closure/op{tuple(plt.shape)}/T{tuple(ld.shape)}", "precond_inv": (cl(eye), P), "precond_logdet": (ld, P)}
    raise ValueError(q)


def tol_for(label, logs_step, sticky):
    """Absolute+relative tolerance class of one observation."""
    if label in ("dense", "diag", "matmul"):
        return 1e-10
    loose = 0.0
    if "pivchol" in sticky:
        loose = max(loose, 5e-3)
    if "lanczos" in sticky:
        loose = max(loose, 5e-4)
    if label in ("solve", "inv_quad") and "cg" in logs_step:
        loose = max(loose, 2e-3)
    if label in ("psd", "psdinv"):
        loose = max(loose, 1e-5)    # sub-operator Lanczos runs are not always visible in this object's log
    return max(loose, 1e-8)


def close(a, b, tol):
    # leading singleton batch dims are a shape matter (other properties), not a cache matter: compare without them
    while a.dim() > b.dim() and a.shape[0] == 1:
        a = a[0]
    while b.dim() > a.dim() and b.shape[0] == 1:
        b = b[0]
    if a.shape != b.shape:
        return False, f"shape {tuple(a.shape)} vs {tuple(b.shape)}"
    if not torch.isfinite(a).all():
        return False, "non-finite"
    err = (a - b).abs().max().item() if a.numel() else 0.0
    scale = max(1.0, b.abs().max().item() if b.numel() else 1.0)
    return err <= tol * scale, f"max|diff|={err:.3e} tol={tol * scale:.1e}"


def check_obs(obs, A, rhs, logs_step, sticky, pd):
    """Compare the observations of one answer with the dense truth.  Returns list of failure strings."""
    fails = []

    def cmp(label, got, want, tol=None):
        ok, msg = close(got, want, tol if tol is not None else tol_for(label, logs_step, sticky))
        if not ok:
            fails.append(f"{label}: {msg}")

    stochastic = pd and ("cg" in logs_step or "lanczos" in logs_step)
    for label, v in obs.items():
        if label == "dense":
            cmp(label, v, A)
        elif label == "diag":
            cmp(label, v, A.diagonal(dim1=-2, dim2=-1))
        elif label == "matmul":
            cmp(label, v, A @ rhs)
        elif label == "chol":
            Lt = torch.linalg.cholesky(A)
            cmp(label, v, Lt.mT if obs["upper"] else Lt)
            z = v.triu(1) if not obs["upper"] else v.tril(-1)
            if z.abs().max().item() != 0.0:
                fails.append("chol: wrong triangle is populated")
        elif label == "psd":
            cmp(label, v, A)
        elif label == "psdinv":
            cmp(label, v, torch.linalg.inv(A))
        elif label == "inv":
            cmp(label, v, torch.linalg.inv(A))
        elif label == "evals":
            want = torch.linalg.eigvalsh(A) if pd else None
            if want is not None:
                cmp(label, v.sort(dim=-1)[0], want)
        elif label == "solve":
            cmp(label, v, torch.linalg.solve(A, rhs))
        elif label == "logdet":
            if not ("cg" in logs_step or "lanczos" in logs_step):
                cmp(label, v, torch.logdet(A))
            else:  # stochastic Lanczos quadrature: only a sanity band
                cmp(label, v, torch.logdet(A), tol=0.75)
        elif label == "inv_quad":
            cmp(label, v, (rhs * torch.linalg.solve(A, rhs)).sum(dim=(-2, -1)))
        elif label == "precond_inv":
            got, P = v
            cmp(label, got, torch.linalg.inv(P), tol=1e-7)
        elif label == "precond_logdet":
            got, P = v
            cmp(label, got, torch.logdet(P), tol=1e-7)
    return fails


UNIQUE = ("dense", "diag", "matmul", "chol", "evals", "solve", "logdet", "inv_quad", "inv")


def compare_fresh(obs, fobs, logs_step, flogs, sticky):
    fails = []
    import re as _re
    norm = lambda t: _re.sub(r"\((?:1, )+", "(", t)  # noqa: E731  leading singleton batch dims: not a cache matter
    if norm(obs["sig"]) != norm(fobs["sig"]):
        fails.append(f"structure differs from a fresh copy: {obs['sig']} vs fresh {fobs['sig']}")
        return fails
    noisy = {"cg", "lanczos"} & (set(logs_step) | set(flogs))
    for label in UNIQUE:
        if label in obs and label in fobs and torch.is_tensor(obs[label]):
            if label == "logdet" and noisy:
                continue
            a, b = obs[label], fobs[label]
            if label == "evals":
                a, b = a.sort(dim=-1)[0], b.sort(dim=-1)[0]
            tol = max(tol_for(label, list(logs_step) + list(flogs), sticky), 1e-8)
            ok, msg = close(a, b, tol)
            if not ok:
                fails.append(f"{label} differs from a fresh copy: {msg}")
    return fails


def entry_name(msg):
    """Cache name of an audit failure message `cache entry <key>: …`."""
    return key_name(msg[len("cache entry "):].split(": ")[0])


def audit_cache(op, A, sticky, pd, skip=()):
    """cache_inv on the implementation: every `_memoize_cache` entry is a valid answer for its key.
    `skip`: canonical keys written by a deliberately rank-limited (approximate) query."""
    fails, unknown = [], []
    tol = max(5e-3 if "pivchol" in sticky else 0.0, 5e-4 if "lanczos" in sticky else 0.0, 1e-5)
    for k, v in list(getattr(op, "_memoize_cache", {}).items()):
        ck = canon_key(k)
        if ck in skip:
            continue
        name = key_name(ck)

        def cmp(got, want, t=tol):
            ok, msg = close(got, want, t)
            if not ok:
                fails.append(f"cache entry {ck}: {msg}")
        try:
            if name == "cholesky":
                V = dense_of(v)
                upper = "upper=True" in ck
                cmp(V.mT @ V if upper else V @ V.mT, A)
                z = V.tril(-1) if upper else V.triu(1)
                if z.abs().max().item() != 0.0:
                    fails.append(f"cache entry {ck}: wrong triangle is populated")
            elif name == "root_decomposition":
                cmp(v.to_dense(), A)
            elif name == "root_inv_decomposition":
                cmp(v.to_dense(), torch.linalg.inv(A))
            elif name == "diagonalization":
                ev, evec = v
                V = dense_of(evec)
                cmp((V * ev.unsqueeze(-2)) @ V.mT, A)
            elif name == "svd":
                U, S_, V = v
                U, V = dense_of(U), dense_of(V)
                cmp((U * S_.unsqueeze(-2)) @ V.mT, A)
            elif name in ("fn:to_dense", "covar_mat"):
                cmp(dense_of(v), A, 1e-10)
            elif name in ("fn:_diagonal", "kernel_diag"):
                cmp(v, A.diagonal(dim1=-2, dim2=-1), 1e-10)
            elif name == "fn:inverse":
                cmp(v.to_dense(), torch.linalg.inv(A))
            elif name == "size":
                if tuple(v) != tuple(A.shape):
                    fails.append(f"cache entry {ck}: {tuple(v)} vs {tuple(A.shape)}")
            elif name == "chol_cap_mat":
                pass  # audited through the answers that use it (solve / logdet of LowRankRootAddedDiag)
            else:
                unknown.append(ck)
        except Exception as e:  # a cache entry of an unexpected form
            fails.append(f"cache entry {ck}: audit raised {type(e).__name__}: {e}")
    return fails, unknown


# ----------------------------------------------------------------------------------------------- derivations

def derive(op, A, d, aux):
    """Apply derivation `d` to operator `op` with dense truth `A`.  Returns (new_op, new_truth, pd)."""
    kind = d[0]
    n = A.shape[-1]
    if kind == "add_jitter":
        return op.add_jitter(0.25), A + 0.25 * torch.eye(n, dtype=F64), True
    if kind == "add_diagonal":
        dv = aux["diag"][..., :n]
        return op.add_diagonal(dv), A + torch.diag_embed(dv.expand(*A.shape[:-1])), True
    if kind == "add_low_rank":
        B = aux["lowrank"][..., :n, :]
        if len(d) == 3:
            return op.add_low_rank(B, root_decomp_method=d[1], root_inv_decomp_method=d[2]), A + B @ B.mT, True
        return op.add_low_rank(B), A + B @ B.mT, True
    if kind == "cat_rows":
        B = aux["cross"][..., :, :n]        # o x n
        D = aux["newmat"]
        top = torch.cat([A, B.mT.expand(*A.shape[:-2], n, B.shape[-2])], dim=-1)
        bot = torch.cat([B.expand(*A.shape[:-2], B.shape[-2], n), D.expand(*A.shape[:-2], *D.shape[-2:])], dim=-1)
        if len(d) == 2:
            return op.cat_rows(B, D, method=d[1]), torch.cat([top, bot], dim=-2), True
        return op.cat_rows(B, D), torch.cat([top, bot], dim=-2), True
    if kind == "index":
        k = n - 1
        return op[..., :k, :k], A[..., :k, :k], True
    if kind == "index_tail":        # NON-leading contiguous diagonal block  op[a:n, a:n], a = 1
        return op[..., 1:n, 1:n], A[..., 1:n, 1:n], True
    if kind == "index_inner":       # NON-leading, non-trailing contiguous diagonal block  op[1:n-1, 1:n-1]
        return op[..., 1:n - 1, 1:n - 1], A[..., 1:n - 1, 1:n - 1], True
    if kind == "index_step":        # stepped principal submatrix
        return op[..., ::2, ::2], A[..., ::2, ::2], True
    if kind == "index_rect":        # non-square block (control): only to_dense / matmul make sense on it
        return op[..., 1:n, 0:n - 1], A[..., 1:n, 0:n - 1], False
    if kind == "index_batch":
        return op[0], A[0], True
    if kind == "transpose":
        return op.mT, A.mT, True
    if kind == "scale":
        return op * 1.5, A * 1.5, True
    if kind == "expand":
        return op.expand(2, *A.shape), A.expand(2, *A.shape), True
    if kind == "unsqueeze":
        return op.unsqueeze(0), A.unsqueeze(0), True
    raise ValueError(d)


PINNABLE = ("cholesky", "symeig", "svd")   # ("diagonalization" is a Lanczos run above max_cholesky_size: not deterministic)   # deterministic methods: the same method on both sides gives a paired couple
METHOD_PAIRS = [(a, b) for a in (None, "cholesky", "symeig") for b in (None, "cholesky", "symeig") if (a, b) != (None, None)] \
    + [("diagonalization", "diagonalization"), ("svd", "svd")]


def derivations_for(spec, A):
    if spec.profile in ("tri", "interp", "kernel"):
        ds = [("transpose",), ("scale",)]
        if spec.profile == "kernel":
            ds += [("add_jitter",), ("add_diagonal",)]
        return ds
    ds = [("add_jitter",), ("add_diagonal",), ("add_low_rank",), ("transpose",), ("scale",), ("index",), ("index_tail",), ("index_inner",),
          ("index_step",)]
    if spec.profile != "brepeat":   # BatchRepeat's eigendecompositions lose leading singleton batch dims (not a cache matter)
        ds += [("expand",), ("unsqueeze",)]
    ds += [("add_low_rank", a, b) for a, b in METHOD_PAIRS]
    if A.dim() == 2:
        ds += [("cat_rows",), ("cat_rows", "cholesky"), ("cat_rows", "symeig")]
    if A.dim() > 2:
        ds.append(("index_batch",))
    return ds


# ----------------------------------------------------------------------------------------------- model lines

def model_profile(op):
    """Profile (name understood by the Lean driver) of a run-time object, or None when its class is not mirrored."""
    import linear_operator.operators as O
    t = type(op)
    if t is O.DenseLinearOperator:
        return "base"
    if t is O.SumLinearOperator:
        return "sum"
    if t is O.DiagLinearOperator:
        return "diag"
    if t is O.CholLinearOperator and not getattr(op, "upper", False):
        return "chol"
    return None


def wrapper_profile(op):
    """(kind, [(sub profile, sub n)]) understood by the Lean WRAPPER model (LinOp/C12/Classes.lean), or None."""
    import linear_operator.operators as O
    t = type(op)
    kind = {O.BatchRepeatLinearOperator: "batchRepeat", O.BlockDiagLinearOperator: "block", O.BlockInterleavedLinearOperator: "blockInterleaved",
            O.ConstantMulLinearOperator: "constMul", O.KroneckerProductLinearOperator: "kron"}.get(t)
    subs = [a for a in op._args if isinstance(a, O.LinearOperator)]
    if t is O.AddedDiagLinearOperator:
        # `_linear_op` (a modelled single-object class) + `_diag_tensor` (Diag: general branch, ConstantDiag: constant-diagonal branch)
        if len(subs) != 2 or model_profile(subs[0]) not in ("base", "sum") or subs[0] is not op._linear_op:
            return None
        if type(subs[1]) is O.ConstantDiagLinearOperator:
            return "addedDiagConst", [(model_profile(subs[0]), subs[0].shape[-1]), ("diag", subs[1].shape[-1])]
        if type(subs[1]) is O.DiagLinearOperator:
            return "addedDiag", [(model_profile(subs[0]), subs[0].shape[-1]), ("diag", subs[1].shape[-1])]
        return None
    if kind is None:
        return None
    if kind == "kron":
        # n-ary: every factor must be a modelled single-object class (extension session 5)
        if len(subs) < 2 or len(subs) != len(op._args) or any(model_profile(x) not in ("base", "sum") for x in subs):
            return None
        return kind, [(model_profile(x), x.shape[-1]) for x in subs]
    # BatchRepeat(Chol(lower)): the sub-profile `chol` is a keys-only profile, which is all the wrapper correspondence compares
    ok_sub = ("base", "sum", "chol") if kind == "batchRepeat" else ("base", "sum")
    if len(subs) != 1 or model_profile(subs[0]) not in ok_sub:
        return None
    if kind == "constMul" and not bool(torch.all(op._constant > 0)):
        return None
    return kind, [(model_profile(x), x.shape[-1]) for x in subs]


def wkeys(op):
    import linear_operator.operators as O
    f = lambda o: " ".join(k for k in keyset(o) if key_name(k) not in UNMODELLED_NAMES) or "-"  # noqa: E731
    return "W " + f(op) + "".join(" | S " + f(a) for a in op._args if isinstance(a, O.LinearOperator))


KEYS_ONLY = ("diag", "chol")
UNMODELLED_NAMES = ("size", "fn:_diagonal", "fn:inverse")


STAR = ("svd", "eigh", "eigvalsh", "iql", "logdet", "sample", "solve", "inv_quad", "matmul", "diagonal", "inverse", "precond", "tsolve")


def q_line(q, st, n):
    """History step -> driver line.  Settings travel with every line (the model is a function of them)."""
    s = f"{st['mcs']} {1 if st['frd'] else 0} {1 if st['flp'] else 0} {1 if st['fs'] else 0}"
    m = "-" if len(q) < 3 or q[2] is None else q[2]
    if q[0] in ("cholesky", "hook_cholesky"):
        return f"q {s} {q[0]} {1 if q[1] else 0}"
    if q[0] in ("root", "rootinv", "diagz"):
        return f"q {s} {q[0]} {q[1]} {m}"
    return f"q {s} {q[0]}"


def wq_line(q, st, n, tgt):
    """History step on the wrapper (`self`) or on its i-th sub-operator (`sub<i>`) -> wrapper-model driver line."""
    sw = q_line(q, st, n).split(" ")
    return "wq " + " ".join(sw[1:5]) + " " + tgt + " " + " ".join(sw[5:])


# ----------------------------------------------------------------------------------------------- histories

def settings_pool(n):
    small = max(1, n - 2)
    pool = []
    for mcs in (BIG, small, n, n - 1):
        for frd in (True, False):
            for flp in (True, False):
                for fs in (True, False):
                    pool.append({"mcs": mcs, "frd": frd, "flp": flp, "fs": fs, "mrds": 100})
    return pool


def random_settings(rng, n):
    r = rng.random()
    st = dict(Env.DEFAULT)
    if r < 0.35:
        return st
    st["mcs"] = rng.choice([BIG, max(1, n - 2), n, n - 1, 1])
    st["frd"] = rng.random() < 0.75
    st["flp"] = rng.random() < 0.75
    st["fs"] = rng.random() < 0.75
    st["mrds"] = rng.choice([100, 100, 64])
    return st


def gen_history(rng, spec, length, with_derive=True, excluded=()):
    """[(settings, step)] with step = ('q', query) | ('d', derivation) | ('back',)."""
    hist = []
    qs = [q for q in query_list(spec) if q not in excluded]
    st = random_settings(rng, spec.n)
    depth = 0
    focus = rng.sample(qs, k=min(len(qs), rng.choice([3, 5, 8])))
    for _ in range(length):
        if rng.random() < 0.3:
            st = random_settings(rng, spec.n)
        r = rng.random()
        if with_derive and r < 0.15 and depth < 2:
            hist.append((st, ("d", rng.choice(derivations_for(spec, spec.truth)))))
            depth += 1
        elif r < 0.2 and depth > 0:
            hist.append((st, ("back",)))
            depth -= 1
        elif getattr(spec, "has_sub", False) and r < 0.36:
            hist.append((st, ("qs", rng.choice(SUB_QUERIES))))
        else:
            q = rng.choice(focus) if rng.random() < 0.7 else rng.choice(qs)
            hist.append((st, ("q", q)))
    return hist


SUB_QUERIES = [("to_dense",), ("diagonal",), ("cholesky", False), ("cholesky", True), ("svd",), ("eigh",), ("eigvalsh",), ("solve",),
               ("logdet",), ("iql",), ("root", "none", None), ("rootinv", "none", None), ("diagz", "none", None), ("sample",)]


SM = {"mcs": 1, "frd": True, "flp": True, "fs": True, "mrds": 100}     # Lanczos / CG regime
DF = dict(Env.DEFAULT)
NOFAST = {"mcs": 1, "frd": False, "flp": False, "fs": False, "mrds": 100}
LOWRANK = {"mcs": BIG, "frd": True, "flp": True, "fs": True, "mrds": 2}      # rank-2 Lanczos / pivoted-Cholesky roots


def templates(spec):
    """Histories covering every (write-site -> read-site) pair of the cache discipline."""
    if spec.profile in ("tri", "interp", "kernel"):
        qs = query_list(spec)
        t = [[(DF, ("q", a)), (DF, ("q", b)), (DF, ("q", a))] for a in qs for b in qs if a != b][:8]
        t.append([(DF, ("q", qs[0])), (DF, ("d", ("transpose",))), (DF, ("q", qs[0])), (DF, ("q", ("matmul",))), (DF, ("back",)), (DF, ("q", ("matmul",)))])
        t.append([(DF, ("q", ("matmul",))), (DF, ("d", ("scale",))), (DF, ("q", ("to_dense",))), (DF, ("q", ("diagonal",)))])
        if spec.profile == "kernel":
            t.append([(DF, ("q", ("diagonal",))), (DF, ("q", ("to_dense",))), (DF, ("d", ("add_jitter",))), (DF, ("q", ("cholesky", False))),
                      (DF, ("q", ("solve",))), (DF, ("back",)), (DF, ("q", ("diagonal",)))])
        return t
    Q = lambda *q: ("q", tuple(q))  # noqa: E731
    t = []
    # cholesky orientation: lower then upper then lower; upper first
    t.append([(DF, Q("cholesky", False)), (DF, Q("cholesky", True)), (DF, Q("cholesky", False)), (DF, Q("solve")), (DF, Q("logdet"))])
    t.append([(DF, Q("cholesky", True)), (DF, Q("cholesky", False)), (DF, Q("root", "none", None)), (DF, Q("iql")), (DF, Q("cholesky", True))])
    t.append([(DF, Q("hook_cholesky", False)), (DF, Q("hook_cholesky", True)), (DF, Q("cholesky", True)), (DF, Q("cholesky", False)),
              (DF, Q("hook_cholesky", True)), (DF, Q("hook_cholesky", False)), (DF, Q("solve"))])
    t.append([(DF, Q("hook_cholesky", True)), (DF, Q("hook_cholesky", False)), (DF, Q("root", "none", None)), (DF, Q("iql"))])
    # root_decomposition method variants never confused
    for a, b in (("cholesky", "symeig"), ("symeig", "lanczos"), ("lanczos", "cholesky"), ("svd", "pivoted_cholesky"), ("diagonalization", "cholesky")):
        t.append([(DF, Q("root", "kw", a)), (DF, Q("root", "kw", b)), (DF, Q("root", "none", None)), (DF, Q("root", "pos", a)), (DF, Q("root", "kw", a))])
    for a, b in (("cholesky", "symeig"), ("lanczos", "cholesky"), ("svd", "pinverse"), ("diagonalization", "lanczos")):
        t.append([(DF, Q("rootinv", "kw", a)), (DF, Q("rootinv", "kw", b)), (DF, Q("rootinv", "none", None)), (DF, Q("root", "none", None)), (DF, Q("rootinv", "kw", a))])
    # CONSECUTIVE calls of the same query with different `method`, the first one rank-limited (approximate, not judged itself):
    # a later call with another method must not be served the rank-2 factor
    QA = lambda *q: ("qa", tuple(q))  # noqa: E731
    for first in ("lanczos", "pivoted_cholesky"):
        t.append([(LOWRANK, QA("root", "kw", first)), (DF, Q("root", "kw", "cholesky")), (DF, Q("root", "kw", "symeig")), (DF, Q("root", "none", None)),
                  (DF, Q("root", "pos", "cholesky")), (DF, Q("root", "kw", "svd")), (DF, Q("root", "kw", None)), (DF, Q("sample")), (DF, Q("iql"))])
        t.append([(LOWRANK, QA("root", "pos", first)), (DF, Q("root", "pos", "symeig")), (DF, Q("root", "kw", "cholesky")), (DF, Q("root", "none", None))])
    t.append([(LOWRANK, QA("rootinv", "kw", "lanczos")), (DF, Q("rootinv", "kw", "cholesky")), (DF, Q("rootinv", "kw", "symeig")), (DF, Q("rootinv", "none", None)),
              (DF, Q("rootinv", "kw", "svd")), (DF, Q("solve"))])
    t.append([(LOWRANK, QA("diagz", "kw", "lanczos")), (DF, Q("diagz", "kw", "symeig")), (DF, Q("diagz", "none", None)), (DF, Q("eigh")), (DF, Q("svd"))])
    # eigh / eigvalsh after every query that runs `_symeig(eigenvectors=True)`, twice in a row
    for pre in (Q("svd"), Q("diagz", "kw", "symeig"), Q("diagz", "none", None), Q("root", "kw", "symeig"), Q("rootinv", "kw", "symeig"), Q("eigh"), Q("root", "kw", "svd")):
        t.append([(DF, pre), (DF, Q("eigh")), (DF, Q("eigh")), (DF, Q("eigvalsh")), (DF, Q("eigvalsh")), (DF, Q("eigh"))])
    # Lanczos inverse root from caller-supplied start vectors, then every reader of the side-written root_decomposition
    for k in (1, 3):
        t.append([(SM, Q("rootinv_iv", k)), (SM, Q("root", "none", None)), (SM, Q("sample")), (DF, Q("root", "none", None)), (DF, Q("iql")),
                  (SM, Q("rootinv", "none", None)), (SM, ("d", ("add_low_rank",))), (SM, Q("root", "none", None)), (SM, ("back",)), (SM, Q("root", "none", None))])
        if ("cat_rows",) in derivations_for(spec, spec.truth):
            t.append([(SM, Q("rootinv_iv", k)), (SM, ("d", ("cat_rows",))), (SM, Q("root", "none", None)), (SM, Q("rootinv", "none", None))])
    # _choose_root_method probing the cache: diagonalization first, then default roots; settings flip in between
    t.append([(DF, Q("diagz", "none", None)), (DF, Q("root", "none", None)), (DF, Q("rootinv", "none", None)), (SM, Q("root", "kw", None)), (SM, Q("sample"))])
    t.append([(SM, Q("diagz", "none", None)), (DF, Q("root", "none", None)), (DF, Q("cholesky", False)), (DF, Q("rootinv", "none", None))])
    t.append([(DF, Q("diagz", "kw", "lanczos")), (DF, Q("diagz", "kw", "symeig")), (DF, Q("diagz", "none", None)), (DF, Q("eigh")), (DF, Q("eigvalsh")), (DF, Q("svd"))])
    # triangular-root shortcut of inv_quad_logdet: root first (Cholesky / Lanczos / symeig), then iql / logdet / solve
    t.append([(DF, Q("root", "none", None)), (DF, Q("iql")), (DF, Q("logdet")), (DF, Q("cholesky", True))])
    t.append([(SM, Q("root", "none", None)), (DF, Q("iql")), (DF, Q("logdet")), (DF, Q("solve")), (DF, Q("cholesky", False))])
    t.append([(DF, Q("root", "kw", "symeig")), (DF, Q("iql")), (DF, Q("root", "none", None)), (NOFAST, Q("logdet")), (NOFAST, Q("inv_quad"))])
    t.append([(DF, Q("root", "kw", "lanczos")), (DF, Q("iql")), (DF, Q("logdet"))])
    # _root_inv_decomposition side-writing root_decomposition
    t.append([(SM, Q("rootinv", "none", None)), (SM, Q("root", "none", None)), (DF, Q("root", "none", None)), (DF, Q("sample")), (DF, Q("iql"))])
    t.append([(DF, Q("root", "none", None)), (DF, Q("rootinv", "kw", "lanczos")), (DF, Q("root", "none", None)), (DF, Q("iql")), (DF, Q("sample"))])
    t.append([(SM, Q("root", "none", None)), (SM, Q("rootinv", "none", None)), (SM, Q("root", "none", None)), (SM, Q("solve")), (SM, Q("iql"))])
    # eigh / eigvalsh pop; repeated
    t.append([(DF, Q("eigh")), (DF, Q("eigh")), (DF, Q("eigvalsh")), (DF, Q("eigh")), (DF, Q("root", "kw", "symeig")), (DF, Q("eigh")), (DF, Q("eigvalsh"))])
    # settings on both sides of n between identical queries
    t.append([(DF, Q("solve")), (SM, Q("solve")), (NOFAST, Q("solve")), (SM, Q("iql")), (DF, Q("iql")), (SM, Q("inv_quad")), (DF, Q("logdet"))])
    t.append([(SM, Q("sample")), (DF, Q("sample")), (DF, Q("root", "none", None)), (NOFAST, Q("sample"))])
    # derivations: caches present, then derive, query the result, go back, query the parent again
    for d in derivations_for(spec, spec.truth):
        t.append([(DF, Q("cholesky", False)), (DF, Q("root", "none", None)), (DF, Q("rootinv", "none", None)), (DF, Q("to_dense")), (DF, Q("diagz", "none", None)),
                  (DF, Q("svd")), (DF, ("d", d)), (DF, Q("to_dense")), (DF, Q("cholesky", False)), (DF, Q("root", "none", None)), (DF, Q("rootinv", "none", None)),
                  (DF, Q("solve")), (DF, Q("logdet")), (DF, Q("diagonal")), (DF, Q("svd")), (DF, ("back",)), (DF, Q("root", "none", None)), (DF, Q("cholesky", True)), (DF, Q("solve"))])
    for d in (("add_low_rank",), ("cat_rows",)):
        if d in derivations_for(spec, spec.truth):
            t.append([(DF, ("d", d)), (DF, Q("root", "none", None)), (DF, Q("rootinv", "none", None)), (DF, Q("iql")), (DF, Q("sample")), (DF, ("back",)), (DF, Q("root", "none", None))])
            t.append([(SM, ("d", d)), (SM, Q("root", "none", None)), (SM, Q("rootinv", "none", None)), (DF, Q("iql"))])
            t.append([(DF, Q("root", "kw", None)), (DF, Q("root", "none", None)), (SM, ("d", d)), (DF, Q("root", "none", None)), (DF, Q("rootinv", "none", None))])
            t.append([(DF, Q("diagz", "none", None)), (DF, ("d", d)), (DF, Q("root", "none", None)), (DF, Q("rootinv", "none", None)), (DF, Q("solve"))])
            t.append([(DF, ("d", d)), (DF, ("d", d)), (DF, Q("root", "none", None)), (DF, Q("rootinv", "none", None)), (DF, Q("logdet"))])
    if spec.profile == "sumkron":     # D32: eigendecomposition of the second summand cached by logdet, then the structured inverse root
        t.append([(DF, Q("logdet")), (DF, Q("rootinv", "kw", "lanczos")), (SM, Q("rootinv", "none", None)), (DF, Q("solve")), (SM, Q("root", "none", None))])
    if getattr(spec, "has_sub", False):
        QS = lambda *q: ("qs", tuple(q))  # noqa: E731   query on the shared sub-operator handle
        t.append([(SM, Q("root", "none", None)), (SM, QS("logdet")), (SM, QS("diagz", "none", None)), (SM, QS("eigh")), (SM, Q("rootinv", "none", None)),
                  (SM, Q("diagz", "none", None)), (SM, Q("eigh")), (SM, Q("logdet")), (SM, ("d", ("add_jitter",))), (SM, Q("root", "none", None)),
                  (SM, Q("logdet")), (SM, ("back",)), (SM, QS("svd")), (SM, QS("solve")), (SM, Q("solve"))])
        t.append([(SM, Q("rootinv", "none", None)), (SM, Q("root", "none", None)), (SM, QS("eigvalsh")), (SM, Q("solve")), (SM, Q("sample")),
                  (DF, QS("root", "none", None)), (DF, Q("root", "none", None)), (DF, Q("iql")), (SM, Q("iql")), (SM, Q("eigvalsh"))])
        t.append([(DF, Q("root", "kw", "lanczos")), (DF, Q("rootinv", "kw", "lanczos")), (DF, QS("diagz", "none", None)), (DF, Q("eigh")),
                  (DF, Q("svd")), (DF, Q("to_dense")), (DF, QS("to_dense")), (DF, QS("logdet")), (DF, Q("logdet"))])
        t.append([(SM, QS("diagz", "none", None)), (SM, Q("root", "none", None)), (SM, QS("diagz", "none", None)), (SM, QS("root", "none", None)),
                  (SM, Q("rootinv", "none", None)), (SM, QS("rootinv", "none", None)), (SM, QS("iql")), (SM, Q("svd")), (SM, QS("sample"))])
        t.append([(SM, Q("svd")), (SM, Q("root", "kw", "svd")), (SM, Q("root", "none", None)), (SM, Q("svd")), (SM, Q("eigh")), (SM, Q("rootinv", "kw", "svd")),
                  (SM, Q("diagz", "none", None)), (SM, Q("root", "kw", "diagonalization")), (SM, Q("diagz", "none", None)), (SM, Q("solve"))])
    # transplants with explicit method arguments (all pairs), on a fresh object and after cache-filling queries
    if ("add_low_rank",) in derivations_for(spec, spec.truth):
        for a, b in METHOD_PAIRS:
            dd = ("d", ("add_low_rank", a, b))
            t.append([(DF, dd), (DF, Q("root", "none", None)), (DF, Q("rootinv", "none", None)), (DF, Q("iql")), (DF, ("back",)), (DF, Q("root", "none", None))])
            t.append([(DF, Q("diagz", "none", None)), (DF, Q("svd")), (DF, dd), (DF, Q("root", "none", None)), (DF, Q("rootinv", "none", None)), (DF, Q("solve"))])
            t.append([(DF, Q("root", "none", None)), (DF, Q("rootinv", "none", None)), (SM, dd), (DF, Q("root", "none", None)), (DF, Q("sample"))])
    for m in ("cholesky", "symeig"):
        if ("cat_rows", m) in derivations_for(spec, spec.truth):
            t.append([(DF, ("d", ("cat_rows", m))), (DF, Q("root", "none", None)), (DF, Q("rootinv", "none", None)), (DF, Q("solve"))])
            t.append([(DF, Q("diagz", "none", None)), (DF, ("d", ("cat_rows", m))), (DF, Q("root", "none", None)), (DF, Q("rootinv", "none", None))])
    if "precond" in spec.tags:
        t.append([(SM, Q("precond")), (SM, Q("solve")), (SM, Q("precond")), (SM, Q("iql")), (DF, Q("solve")), (SM, Q("inv_quad")), (SM, Q("precond"))])
        t.append([(SM, Q("solve")), (SM, Q("precond")), (SM, ("d", ("add_jitter",))), (SM, Q("solve")), (SM, ("back",)), (SM, Q("solve"))])
    if spec.profile in ("chol", "diag", "kron"):
        t.append([(DF, Q("inverse")), (DF, Q("inverse")), (DF, Q("to_dense")), (DF, Q("cholesky", True)), (DF, Q("cholesky", False)), (DF, Q("diagonal")), (DF, Q("solve"))])
    return t


INDEX_KINDS = [("index",), ("index_tail",), ("index_inner",), ("index_step",)]


def pre_templates(spec, rng, tier, ci=0):
    """All-default-settings histories with ONE factorization pre-computed (cells live in the namespace `pre:`):
    (1) derive-after-precompute: every derivation applied to a parent on which one cacheable factorization was computed first; the
        derived operator's Cholesky-based (and other) queries are compared with a cache-free copy and the dense truth.  The indexing
        derivations (leading, NON-leading tail / inner block, stepped, non-square) x the Cholesky-path pre-queries are always run,
        the other (derivation, pre-query) pairs as a seed-rotating subset;
    (2) composite-after-precompute: one pre-query on the composite or on one of its sub-operator handles, then root_decomposition and
        root_inv_decomposition of the composite with EVERY explicit method."""
    if spec.profile in ("tri", "interp", "kernel"):
        return []
    Q = lambda *q: ("q", tuple(q))  # noqa: E731
    out = []
    chol_pre = [Q("cholesky", False), Q("root", "none", None), Q("logdet")]
    other_pre = [Q("cholesky", True), Q("rootinv", "none", None), Q("diagz", "none", None), Q("svd"), Q("root", "kw", "symeig"),
                 Q("root", "kw", "lanczos"), Q("root", "kw", "cholesky"), Q("iql"), Q("sample"), Q("eigh"), Q("hook_cholesky", True)]
    post = [Q("cholesky", False), Q("cholesky", True), Q("root", "none", None), Q("rootinv", "none", None), Q("logdet"), Q("iql"),
            Q("sample"), Q("solve"), Q("to_dense")]
    tail = [(DF, ("back",)), (DF, Q("cholesky", False)), (DF, Q("logdet"))]
    idx = list(INDEX_KINDS) + ([("index_batch",)] if spec.truth.dim() > 2 else [])
    for d in idx:
        for pre in chol_pre:
            out.append([(DF, pre), (DF, ("d", d))] + [(DF, x) for x in post] + tail)
    for pre in chol_pre[:2]:
        out.append([(DF, pre), (DF, ("d", ("index_rect",))), (DF, Q("to_dense")), (DF, Q("matmul")), (DF, ("back",)), (DF, Q("cholesky", False))])
    singles = [d for d in derivations_for(spec, spec.truth) if len(d) == 1]
    pairs = [(d, pre) for d in singles for pre in chol_pre + other_pre if not (d in idx and pre in chol_pre)]
    # the plain Dense operator (base-class implementations throughout) takes EVERY (derivation, pre-query) pair; the other classes a
    # rotating chunk of one run-wide shuffle, so that each pair is visited by several classes in every run
    import random as _random
    k = 8 if tier == "quick" else 40
    order = list(pairs)
    _random.Random(rng.getrandbits(32) if ci < 0 else f"pairs:{getattr(rng, 'pre_salt', 0)}").shuffle(order)
    if spec.profile == "base" and spec.truth.dim() == 2:
        chosen = order
    else:
        start = (ci * k) % max(1, len(order))
        chosen = (order + order)[start:start + min(k, len(order))]
    for d, pre in chosen:
        out.append([(DF, pre), (DF, ("d", d))] + [(DF, x) for x in post] + tail)
    # (2) composites
    nsub = getattr(spec, "nsub", 0)
    if nsub:
        pre2 = [("logdet",), ("iql",), ("cholesky", False), ("diagz", "none", None), ("diagz", "kw", "symeig"), ("diagz", "kw", "lanczos"),
                ("root", "none", None), ("rootinv", "none", None)]
        rest = [("root", "kw", m) for m in ROOT_METHODS[1:]] + [("rootinv", "kw", "lanczos"), ("rootinv", "kw", "symeig"), ("svd",), ("eigh",)]
        pre2 += rest if tier != "quick" else rng.sample(rest, k=4)
        roots = [("root", "kw", m) for m in ROOT_METHODS[1:]]
        rinvs = [("rootinv", "kw", m) for m in ROOTINV_METHODS[1:]]
        off = rng.randrange(6)
        for ti, tgt in enumerate(["self"] + list(range(nsub))):
            for pi, pre in enumerate(pre2):
                r = (ti + pi + off) % len(roots)
                first = (DF, ("q", pre)) if tgt == "self" else (DF, ("qs", pre, tgt))
                out.append([first] + [(DF, ("q", x)) for x in roots[r:] + roots[:r]] + [(DF, ("q", x)) for x in rinvs[r:] + rinvs[:r]])
    return out


# ----------------------------------------------------------------------------------------------- engine

FLIP_QUERY = {"root_decomposition": "root", "root_inv_decomposition": "rootinv", "diagonalization": "diagz"}


def flip_templates(spec, setting_rows, tier):
    """Settings-flip family (extension session 5), derived from the translator's enumeration of memoised methods whose computation
    reads a setting (`harness/extract/c12_settings.py`): for every such method that is the EFFECTIVE implementation on this object
    (first class in the MRO that defines it) and every setting it reads that selects a code path (`max_cholesky_size`,
    `fast_computations.covar_root_decomposition`), the same call is made on the same object under the two values of the setting,
    in both orders, followed by the other calling conventions and the readers of the entry, and once more under the first settings."""
    if spec.profile in ("tri", "interp", "kernel", "sumkron") or not spec.pd or "degenerate" in spec.tags:
        return []       # sumkron: the mixed-settings pairing defect (D30 family / D32) is open and has its own cells
    with warnings.catch_warnings():
        warnings.simplefilter("ignore")
        op = spec.make()
    Q = lambda *q: ("q", tuple(q))  # noqa: E731
    n = spec.truth.shape[-1]
    SMALL = dict(Env.DEFAULT, mcs=1)
    EDGE = dict(Env.DEFAULT, mcs=n - 1)
    NOFRD = dict(Env.DEFAULT, mcs=1, frd=False)
    out = []
    for r in setting_rows:
        kind = FLIP_QUERY.get(r["fn"])
        if kind is None:
            continue
        owner = next((k.__name__ for k in type(op).__mro__ if r["fn"] in vars(k)), None)
        if owner != r["cls"]:
            continue
        chains = set(r["direct"]) | {v.split(":", 1)[1] for v in r["via"]}
        pairs = []
        if "max_cholesky_size" in chains:
            pairs += [(DF, SMALL), (SMALL, DF)] + ([(EDGE, DF)] if tier == "thorough" else [])
        if "fast_computations.covar_root_decomposition" in chains:
            pairs += [(SMALL, NOFRD)] + ([(NOFRD, SMALL)] if tier == "thorough" else [])
        forms = [("none", None), ("kw", None)] + ([("pos", None)] if kind != "rootinv" else [])
        readers = {"root": [Q("sample"), Q("iql"), Q("rootinv", "kw", "pinverse")], "rootinv": [Q("root", "none", None), Q("solve"), Q("logdet")],
                   "diagz": [Q("logdet"), Q("root", "kw", "diagonalization"), Q("eigh")]}[kind]
        for a, b in pairs:
            for how, m in forms[:2 if tier == "quick" else 3]:
                h = [(a, Q(kind, how, m)), (b, Q(kind, how, m))]
                h += [(b, Q(kind, h2, m2)) for h2, m2 in forms if (h2, m2) != (how, m)]
                h += [(b, q_) for q_ in readers]
                h += [(a, Q(kind, how, m)), (a, Q("cholesky", False))]
                if spec.nsub:
                    h += [(b, ("qs", (kind, "none", None), spec.nsub - 1)), (a, Q(kind, how, m))]
                out.append(h)
    return out


def hist_json(hist):
    return [[st, list(step[:1]) + [list(x) if isinstance(x, tuple) else x for x in step[1:]]] for st, step in hist]


def hist_unjson(j):
    out = []
    for st, step in j:
        out.append((st, tuple([step[0]] + [tuple(x) if isinstance(x, list) else x for x in step[1:]])))
    return out


def pairing_tag(trace):
    """Which numerical primitives produced the roots a transplant consumed (part of the cell id)."""
    if "lanczos" in trace:
        return "lanczos"
    return "exact"


class Runner:
    def __init__(self, chk, env):
        self.chk, self.env = chk, env
        self.lines, self.expect, self.owner = [], [], []
        self.wlines, self.wexpect, self.wowner = [], [], []    # wrapper model (wrapper + sub-operator key sets)
        self.after_derive = []      # per line: a derived object exists, whose queries may memoise the parent's to_dense
        self.excluded = {}

    def aux_for(self, spec):
        g = torch.Generator().manual_seed(12345 + spec.n)
        import random
        return {"rhs": torch.randn(16, 2, generator=g, dtype=F64),
                "diag": 0.2 + torch.rand(16, generator=g, dtype=F64),
                "lowrank": 0.6 * torch.randn(16, 2, generator=g, dtype=F64),
                "cross": 0.25 * torch.randn(2, 16, generator=g, dtype=F64),
                "newmat": rand_pd(random.Random(spec.n), 2, lo=2.0, hi=2.5)}

    def survey(self, spec):
        """Queries that are already invalid (or raise) on a FRESH object are another property's concern: exclude them."""
        env = self.env
        aux = self.aux_for(spec)
        rhs = aux["rhs"][:spec.n].expand(*spec.batch, spec.n, 2)
        bad = set()
        for st in (DF, SM, NOFAST):
            for q in query_list(spec):
                if q in bad:
                    continue
                try:
                    with env(st):
                        op = spec.make()
                        obs, logs = env.logs(lambda: run_query(op, q, rhs))
                        f = check_obs(obs, spec.truth, rhs, logs, set(logs), spec.pd)
                    # NB: only the ANSWER decides.  A valid answer that leaves an invalid cache entry behind is a C12
                    # violation in its own right (later readers are served the entry) and must stay in the sweep.
                    if f:
                        bad.add(q)
                except Exception:
                    bad.add(q)
        if any(q[0] in ("root", "rootinv") and q[2] in ("diagonalization", "symeig") for q in bad):
            # a cached diagonalization redirects `_choose_root_method` into a path that is already invalid on a
            # fresh object of this class (another property's defect): do not poison histories with it
            bad |= {q for q in query_list(spec) if q[0] == "diagz"}
        # an operator whose own matmul / diagonal disagree with its to_dense (e.g. Chol(upper), D01) makes every wrapper
        # built on it inconsistent for reasons unrelated to caching: its derived objects are exercised but not judged
        spec.inconsistent = ("matmul",) in bad or ("diagonal",) in bad
        self.excluded[spec.cls] = bad
        return bad

    def run_history(self, spec, hist, hid, record=True, ns=""):
        """Run one history.  Returns list of (cell, what) failures."""
        chk, env = self.chk, self.env
        aux = self.aux_for(spec)
        with env(DF):
            op = spec.make()
            _ = op.shape
        stack = [{"op": op, "A": spec.truth, "pd": spec.pd, "sticky": set(), "cls": ns + spec.cls, "lineage": "base", "tainted": False}]
        fails = []
        aliases = [False]
        mlines, mexp = [], []
        prof = model_profile(op)
        if record and prof is not None:
            mlines.append(f"new {prof} {spec.n}")
            mexp.append(None)
        modelled = record and prof is not None
        wprof = wrapper_profile(op) if record else None
        wl, we = [], []
        if wprof is not None:
            wl.append(f"wnew {wprof[0]} {spec.n} " + ",".join(f"{a}:{b}" for a, b in wprof[1]))
            we.append(None)
        wmod = wprof is not None
        snap = {}
        for si, (st, step) in enumerate(hist):
            fr = stack[-1]
            # --- no cached VALUE may ever be changed in place by a later step (object, sub-operators, parents)
            new_snap = snapshot_caches([f["op"] for f in stack])
            for owner, ck, err in mutated_entries(snap, new_snap):
                fails.append((f"C12/{fr['cls']}/{fr['lineage']}/cached-value-mutated",
                              f"before step {si}: the value cached under {ck} on a {owner} was modified in place by step {si - 1} "
                              f"({hist[si - 1][1]}) (max change {err:.3e})"))
            snap = new_snap
            is_approx = step[0] == "qa"
            if is_approx:
                # a deliberately rank-limited query: executed (cache effects count), its own answer and entries are not judged
                before = set(keyset(fr["op"]))
                try:
                    with env(st):
                        _, logs_a = env.logs(lambda: run_query(fr["op"], step[1], aux["rhs"][:fr["A"].shape[-1]].expand(*fr["A"].shape[:-2], fr["A"].shape[-1], 2)))
                except Exception:
                    env.tap.items = []
                    fr["tainted"] = True
                    modelled = False
                    wmod = False
                    continue
                if wmod and len(stack) == 1:
                    wl.append(wq_line(step[1], st, fr["A"].shape[-1], "self"))
                    we.append(wkeys(fr["op"]))
                fr["sticky"] |= set(logs_a)
                fr.setdefault("approx", set()).update(set(keyset(fr["op"])) - before)
                chk.count("approx-steps")
                if modelled:
                    mlines.append(q_line(step[1], st, fr["A"].shape[-1]))
                    mexp.append(None)
                continue
            is_sub = step[0] == "qs"
            if is_sub:
                sidx = step[2] if len(step) > 2 else 0
                skey = "sub" if sidx == 0 else f"sub{sidx}"
                if skey not in fr:
                    hs = sub_handles(fr["op"])
                    sh = hs[sidx] if sidx < len(hs) else None
                    if sh is None:
                        fr[skey] = None
                    else:
                        with env(DF):
                            sA = deep_fresh(sh).to_dense().detach().clone()
                        env.tap.items = []
                        ev_ = torch.linalg.eigvalsh(sym(sA))
                        if not (ev_.min().item() > 1e-3 and (ev_.max() / ev_.min().clamp_min(1e-12)).max().item() < 8.0
                                and (sA - sA.mT).abs().max().item() < 1e-10):
                            sh = None       # only SPD handles take the factorization queries
                    if sh is None:
                        fr[skey] = None
                    else:
                        fr[skey] = {"op": sh, "A": sA, "pd": True, "sticky": fr["sticky"], "cls": fr["cls"],
                                    "lineage": fr["lineage"] + f">sub{sidx}", "tainted": fr["tainted"]}
                if fr[skey] is None:
                    continue
                if sidx != 0 and wmod:
                    # the wrapper model addresses sub-operators by their position among the operator arguments
                    import linear_operator.operators as _O
                    _lops = [a for a in fr["op"]._args if isinstance(a, _O.LinearOperator)]
                    if not (wprof is not None and wprof[0] in ("kron", "addedDiag") and sidx < len(_lops) and _lops[sidx] is fr[skey]["op"]):
                        wmod = False
                if len(stack) > 1:
                    modelled = False    # the handle may be the parent object itself: its cache changes behind the single-object model
                wtop = fr
                fr = fr[skey]
                step = ("q", step[1])
            op, A = fr["op"], fr["A"]
            n = A.shape[-1]
            rhs = aux["rhs"][:n].expand(*A.shape[:-2], n, 2)
            sline = f"{st['mcs']} {1 if st['frd'] else 0} {1 if st['flp'] else 0} {1 if st['fs'] else 0}"
            if step[0] == "back":
                if len(stack) > 1:
                    stack.pop()
                    if not aliases.pop() and modelled:
                        mlines.append("back")
                        mexp.append(None)
                continue
            if step[0] == "q":
                q = step[1]
                cell = f"C12/{fr['cls']}/{fr['lineage']}/q={q[0]}" + (f"[{q[1]}|{q[2]}]" if len(q) == 3 else (f"[upper={q[1]}]" if len(q) == 2 else ""))
                exc = fexc = None
                obs = fobs = None
                logs = flogs = []
                with env(st):
                    try:
                        obs, logs = env.logs(lambda: run_query(op, q, rhs))
                    except Exception as e:
                        exc = e
                        env.tap.items = []
                    try:
                        fresh = deep_fresh(op)
                        fobs, flogs = env.logs(lambda: run_query(fresh, q, rhs))
                    except Exception as e:
                        fexc = e
                        env.tap.items = []
                if exc is not None or fexc is not None:
                    if exc is not None and fexc is None:
                        # is the exception caused by cached state?  retry on a shallow copy of the SAME object without caches
                        import copy
                        twin = copy.copy(op)
                        twin._memoize_cache = {}
                        for a_ in ("_q_cache", "_r_cache", "_precond_lt", "_precond_logdet_cache", "_piv_chol_self", "_constant_diag", "_noise"):
                            if a_ in twin.__dict__:
                                setattr(twin, a_, None)
                        twin.__dict__.pop("_default_preconditioner_cache", None)
                        try:
                            with env(st):
                                run_query(twin, q, rhs)
                            cache_related = True
                        except Exception:
                            cache_related = False
                        env.tap.items = []
                        if cache_related:
                            fails.append((cell, f"step {si} settings={st}: raised {type(exc).__name__}: {str(exc)[:120]} but a fresh copy "
                                                f"(and the same object with its caches cleared) answers"))
                        else:
                            chk.count("raises-independent-of-cache(other property)")
                    elif exc is None and fexc is not None:
                        chk.count("fresh-raises-history-answers")
                    else:
                        chk.count("both-raise")
                    modelled = False
                    wmod = False
                    fr["tainted"] = True
                    continue
                fr["sticky"] |= set(logs) | set(flogs)
                for lab in ("lanczos", "pivchol", "cg"):
                    if lab in logs:
                        chk.count("primitive:" + lab)
                bad_f = check_obs(fobs, A, rhs, flogs, fr["sticky"], fr["pd"])
                bad = check_obs(obs, A, rhs, logs, fr["sticky"], fr["pd"])
                if bad_f:
                    chk.count("fresh-also-invalid")
                    fr["tainted"] = True
                elif fr["tainted"]:
                    chk.count("skipped-after-fresh-invalid-step")
                else:
                    bad += compare_fresh(obs, fobs, logs, flogs, fr["sticky"])
                    for b in bad:
                        fails.append((cell, f"step {si} settings={st}: {b}"))
                a_f, unknown = audit_cache(op, A, fr["sticky"], fr["pd"], skip=fr.get("approx", ()))
                if q[0] == "rootinv_iv":
                    modelled = False      # tensor-keyed entries are outside the Lean key grammar
                    wmod = False
                if wmod and len(stack) == 1:
                    # wrapper model: key sets of the wrapper AND of its sub-operators after a query on either handle
                    if q[0] == "precond" and not is_sub and wprof[0].startswith("addedDiag") and obs.get("sig") != "None":
                        # observer effect of the harness, modelled exactly: the returned preconditioner operator
                        # `PsdSum(Root(piv_chol), self._diag_tensor)` SHARES the diagonal part with the wrapper and the harness densifies it
                        wl.append(wq_line(("to_dense",), st, n, "sub1"))
                    else:
                        wl.append(wq_line(q, st, n, f"sub{sidx}" if is_sub else "self"))
                    we.append(wkeys(wtop["op"] if is_sub else op))
                if not fr["tainted"]:
                    for b in a_f:
                        fails.append((f"C12/{fr['cls']}/{fr['lineage']}/cache-audit:{entry_name(b)}", f"after step {si} ({q}) settings={st}: {b}"))
                for u in unknown:
                    chk.corr_break(f"C12/{fr['cls']}/unmodelled-cache-name", f"cache key {u} is not known to the audit", {"key": u})
                chk.count("q:" + q[0])
                if modelled and not is_sub:
                    mlines.append(q_line(q, st, n))
                    ko = model_profile(op) in KEYS_ONLY
                    mexp.append((" ".join(k for k in keyset(op) if key_name(k) not in UNMODELLED_NAMES) or "-") + " ; "
                                + ("*" if (ko or q[0] in STAR) else (",".join(logs) or "-")) + " ; "
                                + ("*" if ko else ("tri" if obs.get("root_tri") else "-")))
            elif step[0] == "d":
                d = step[1]
                if (d[0] == "index_batch" and A.dim() <= 2) or (d[0] == "cat_rows" and A.dim() != 2) or (d[0] == "index" and n <= 2) \
                        or (d[0] in ("index_tail", "index_step", "index_rect") and n <= 3) or (d[0] == "index_inner" and n <= 4):
                    # not applicable to the current object: keep the stack balanced with a no-op frame
                    wmod = False        # (the wrapper model records base-frame steps only)
                    stack.append(fr)
                    aliases.append(True)
                    continue
                wmod = False        # derived objects share the sub-operators: outside the single-wrapper model
                captured = {}
                pin_tainted = False
                transplant = d[0] in ("add_low_rank", "cat_rows")
                if transplant:
                    o_r, o_ri = op.root_decomposition, op.root_inv_decomposition

                    def w_r(*a, _f=o_r, **k):
                        captured["R"] = _f(*a, **k)
                        return captured["R"]

                    def w_ri(*a, _f=o_ri, **k):
                        captured["RI"] = _f(*a, **k)
                        return captured["RI"]
                    op.root_decomposition, op.root_inv_decomposition = w_r, w_ri
                try:
                    with env(st):
                        (new, newA, pd), logs = env.logs(lambda: derive(op, A, d, aux))
                except Exception as e:
                    env.tap.items = []
                    try:
                        with env(st):
                            derive(deep_fresh(op), A, d, aux)
                        fails.append((f"C12/{fr['cls']}/{fr['lineage']}/d={d[0]}", f"step {si}: raised {type(e).__name__}: {str(e)[:120]} but works on a fresh copy"))
                    except Exception:
                        chk.count("derive-raises-on-fresh-too")
                    env.tap.items = []
                    modelled = False
                    continue
                finally:
                    if transplant:
                        op.__dict__.pop("root_decomposition", None)
                        op.__dict__.pop("root_inv_decomposition", None)
                fr["sticky"] |= set(logs)
                sticky = fr["sticky"]      # one set per history: derived objects share sub-operators (and their Lanczos-made caches)
                lineage = d[0]
                if transplant and "R" in captured and "RI" in captured:
                    Lr = dense_of(captured["R"].root)
                    Pm = dense_of(captured["RI"].root).mT
                    paired = Lr.shape[-1] == Pm.shape[-2] and Lr.shape[-2] == Pm.shape[-1]
                    if paired:
                        eye = torch.eye(Lr.shape[-2], dtype=F64)
                        paired = (Lr @ Pm - eye).abs().max().item() < 1e-6 and (Lr @ Lr.mT - A).abs().max().item() < 1e-6
                    from linear_operator.operators import TriangularLinearOperator as _Tri
                    tri = isinstance(captured["R"].root, _Tri)
                    fake = tri and Lr.triu(1).abs().max().item() != 0.0 and Lr.tril(-1).abs().max().item() != 0.0
                    args_tag = "" if len(d) == 1 else "[" + "|".join(str(x) for x in d[1:]) + "]"
                    honoured = captured["R"] is not op and Lr.shape[-1] == Lr.shape[-2]   # Root/Chol operators return `self`, ignoring `method`
                    root_ok = honoured and (Lr @ Lr.mT - A).abs().max().item() < 1e-6
                    inv_ok = honoured and Pm.shape == Lr.shape and (Pm.mT @ Pm - torch.linalg.inv(A)).abs().max().item() < 1e-6
                    pinned = d[0] == "add_low_rank" and len(d) == 3 and d[1] == d[2] and d[1] in PINNABLE and honoured
                    if pinned and not (root_ok and inv_ok):
                        pinned = False
                        pin_tainted = True      # one of the two factorizations is wrong by itself: not a pairing / cache matter
                    if pinned:
                        # the caller pinned the SAME deterministic method for root and inverse root: they are mutual inverses by
                        # request, so the transplant must be valid whatever the numeric test says (a dropped method argument
                        # must not hide behind the open D30 line)
                        ptag = "pinned-" + d[1] + ("" if paired else "(numerically-not-inverse)")
                    else:
                        ptag = "paired" if paired else "unpaired"
                    lineage = f"{d[0]}{args_tag}(roots={ptag}{'-faketri' if fake else ('-tri' if tri else '')})"
                    chk.count("transplant:" + lineage)
                cell = f"C12/{fr['cls']}/{fr['lineage']}/d={lineage}"
                if "roots=" in fr["lineage"]:
                    lineage = fr["lineage"] + ">" + lineage    # consequences of a transplant stay attributable to it
                chk.count("d:" + d[0])
                with env(st):
                    chk_op = deep_fresh(new)     # never densify the live object: observing must not write its cache
                    ok, msg = close(chk_op.to_dense(), newA, 1e-9)
                env.tap.items = []
                tainted = fr["tainted"] or getattr(spec, "inconsistent", False) or pin_tainted
                if transplant and len(d) > 1:
                    ex_ = self.excluded.get(spec.cls, set())
                    if any(m is not None and (("root", "kw", m) in ex_ or ("rootinv", "kw", m) in ex_) for m in d[1:]):
                        tainted = True      # that method is already wrong on a fresh object of this class (another property)
                if not ok:
                    # a cache-free copy of the derived operator already denotes the wrong matrix: the derivation itself is
                    # wrong (C02/C14 territory, e.g. Chol(upper) losing `upper`), not the caches -> not judged here
                    chk.count("derived-wrong-matrix(other property)")
                    tainted = True
                if new is not op:
                    a_f, unknown = audit_cache(new, newA, sticky, pd)
                    if not tainted:
                        for b in a_f:
                            fails.append((cell + "/transplanted-cache:" + entry_name(b), f"step {si} settings={st}: derived object's {b}"))
                    if not transplant and [k for k in keyset(new) if key_name(k) != "size"]:
                        chk.count("derived-with-cache:" + d[0])
                stack.append({"op": new, "A": newA, "pd": pd, "sticky": sticky, "cls": fr["cls"], "lineage": lineage, "tainted": tainted})
                aliases.append(new is op)
                # the parent must still be consistent
                fr["sticky"] |= set(logs)
                a_f, _ = audit_cache(op, A, fr["sticky"], fr["pd"], skip=fr.get("approx", ()))
                if not fr["tainted"]:
                    for b in a_f:
                        fails.append((f"C12/{fr['cls']}/{fr['lineage']}/cache-audit:{entry_name(b)}", f"parent after derivation {d[0]} (step {si}): {b}"))
                if len(d) > 1:
                    modelled = False        # explicit method arguments: keys outside the driver's `d` grammar
                if modelled and new is not op:
                    prof2 = model_profile(new)
                    mlines.append(f"d {sline} {d[0]} {prof2 or 'opaque'} {newA.shape[-1]}")
                    mexp.append(("P " + (" ".join(k for k in keyset(op) if key_name(k) not in UNMODELLED_NAMES) or "-") + " ; N "
                                 + (" ".join(k for k in keyset(new) if key_name(k) not in UNMODELLED_NAMES) or "-") + " ; *"))
                    if prof2 is None:
                        modelled = False
        if hist:
            fr = stack[-1]
            for owner, ck, err in mutated_entries(snap, snapshot_caches([f["op"] for f in stack])):
                fails.append((f"C12/{fr['cls']}/{fr['lineage']}/cached-value-mutated",
                              f"after the last step: the value cached under {ck} on a {owner} was modified in place by step "
                              f"{len(hist) - 1} ({hist[-1][1]}) (max change {err:.3e})"))
        if record:
            seen_d = False
            for ln in mlines:
                self.after_derive.append(seen_d)
                if ln.startswith("d "):
                    seen_d = True
            self.lines += mlines
            self.expect += mexp
            self.owner += [hid] * len(mlines)
            if len(wl) > 1:
                self.wlines += wl
                self.wexpect += we
                self.wowner += [hid] * len(wl)
        return fails


def shrink(runner, spec, hist, cell, ns=""):
    hist = list(hist)
    changed = True
    budget = 60
    while changed and budget > 0:
        changed = False
        for i in range(len(hist) - 1, -1, -1):
            cand = hist[:i] + hist[i + 1:]
            # keep d/back balanced
            depth, ok = 0, True
            for _, s in cand:
                if s[0] == "d":
                    depth += 1
                if s[0] == "back":
                    depth -= 1
                    if depth < 0:
                        ok = False
            if not ok:
                continue
            budget -= 1
            if budget <= 0:
                break
            try:
                f = runner.run_history(spec, cand, None, record=False, ns=ns)
            except Exception:
                continue
            if any(c == cell for c, _ in f):
                hist = cand
                changed = True
    return hist


NS_OF = {"pre": "pre:", "flip": "flip:"}


def run(chk):
    table = c12_cache.generate()
    setting_rows = c12_settings.generate()
    chk.rule = ("per operator class of the catalogue: template histories covering every cache write-site -> read-site pair, all-default-settings "
                "`pre:` histories (one factorization pre-computed on the object or on one of its sub-operator handles, then either a derivation — "
                "indexing with leading / non-leading / stepped / non-square blocks always, the other derivations as a rotating subset, all of them on "
                "Dense — followed by the Cholesky-based queries on the derived operator, or root_decomposition / root_inv_decomposition of the composite "
                "with every explicit method), then "
                "seed-random histories (length <= 8 quick / <= 20 thorough) of queries (to_dense, cholesky(upper), root_decomposition / "
                "root_inv_decomposition / diagonalization with every method and calling convention, svd, eigh, eigvalsh, solve, logdet, "
                "inv_quad_logdet, inv_quad, diagonal, matmul, sampling, inverse, preconditioner), settings changes (max_cholesky_size on "
                "both sides of n, the three fast_computations flags, max_root_decomposition_size) and derivations (add_jitter, add_diagonal, "
                "add_low_rank, cat_rows, indexing, transpose, scaling, expand, unsqueeze); distinct = distinct (class, history); non-trivial = "
                "at least two steps that touch the same cache name")
    chk.assumptions += ["torch.linalg (cholesky, eigh, svd, qr, solve_triangular) meets its textbook contract",
                        "Lanczos / pivoted-Cholesky / CG answers are compared up to the tolerance of the method (5e-4 / 5e-3 / 2e-3 relative)",
                        "stochastic log-determinants (SLQ) are only sanity-banded",
                        "matrices are SPD with condition number <= ~4 and distinct eigenvalues"]
    chk.prove("LinOp.Properties.C12", ["LinOp/C12", "LinOp/Generated/C12Table.lean", "LinOp/Generated/C12Settings.lean", "LinOp/Core/Parse.lean", "LinOp/Core/Basic.lean"])
    c12_cache.crosscheck(chk, table)
    torch.set_default_dtype(torch.float32)
    env = Env()
    runner = Runner(chk, env)
    specs = catalogue(chk.rng, chk.tier)
    chk.rng.pre_salt = chk.rng.getrandbits(32)      # one shuffle of the (derivation, pre-query) pairs per run
    nrand, maxlen = (6, 8) if chk.tier == "quick" else (40, 20)
    hists = []
    for spec in specs:
        ex = runner.survey(spec)
        chk.count("excluded-queries(invalid on a fresh object)", len(ex))
        for t in flip_templates(spec, setting_rows, chk.tier):
            t = [(st, step) for st, step in t if not (step[0] in ("q", "qs") and step[1] in ex)]
            hists.append((spec, t, "flip"))
        if "fliponly" in spec.tags:
            for _ in range(nrand):
                hists.append((spec, gen_history(chk.rng, spec, chk.rng.randint(3, maxlen), with_derive=False, excluded=ex), "flip"))
            continue
        for t in templates(spec):
            t = [(st, step) for st, step in t if not (step[0] == "q" and step[1] in ex)]
            hists.append((spec, t, "template"))
        for _ in range(nrand):
            hists.append((spec, gen_history(chk.rng, spec, chk.rng.randint(3, maxlen), excluded=ex), "random"))
        for t in pre_templates(spec, chk.rng, chk.tier, ci=specs.index(spec)):
            t = [(st, step) for st, step in t if not (step[0] == "q" and step[1] in ex)]
            hists.append((spec, t, "pre"))
    def tame(spec, hist):
        # repeated eigenvalues: Lanczos breaks down (not a cache matter) -> default settings, no Lanczos methods
        if "degenerate" not in spec.tags:
            return hist
        return [(DF, step) for _, step in hist if not (step[0] == "q" and len(step[1]) == 3 and step[1][2] == "lanczos")]
    hists = [(spec, tame(spec, hist), kind) for spec, hist, kind in hists]
    for hid, (spec, hist, kind) in enumerate(hists):
        desc = spec.cls + " " + json.dumps(hist_json(hist))
        names = [s[1][0] for _, s in hist if s[0] == "q"]
        chk.case(desc, nontrivial=len(names) >= 2)
        chk.count("histories:" + kind)
        chk.count("class:" + spec.cls)
        chk.count("steps", len(hist))
        try:
            fails = runner.run_history(spec, hist, hid, ns=NS_OF.get(kind, ""))
        except Exception as e:
            import traceback
            fails = [(f"C12/{spec.cls}/harness-exception", f"{type(e).__name__}: {e} {traceback.format_exc()[-400:]}")]
        seen = set()
        for cell, what in fails:
            if cell in seen:
                continue
            seen.add(cell)
            if chk.known(cell) is not None:
                chk.violation(cell, what, None)
                continue
            ns_ = NS_OF.get(kind, "")
            small = shrink(runner, spec, hist, cell, ns_) if "harness-exception" not in cell else hist
            chk.violation(cell, what, {"class": spec.cls, "history": hist_json(small), "seed": chk.seed, "tier": chk.tier, "ns": ns_})
    env.close()
    outs = chk.run_driver("C12", runner.lines)
    if outs is not None:
        for j, (o, e) in enumerate(zip(outs, runner.expect)):
            if e is None:
                continue
            if runner.after_derive[j]:
                # a wrapper derived from this object densifies it through the shared handle: `to_dense` of the parent may be
                # memoised by the child's queries, which the single-object model does not follow
                o, e = o.replace("fn:to_dense|| ", "").replace(" fn:to_dense||", ""), e.replace("fn:to_dense|| ", "").replace(" fn:to_dense||", "")
            if o != e:
                hid = runner.owner[j]
                spec, hist, _ = hists[hid]
                chk.corr_break(f"C12/correspondence/{spec.cls}", f"line `{runner.lines[j]}`: model `{o[:300]}` impl `{e[:300]}`",
                               {"class": spec.cls, "history": hist_json(hist), "line": j})
                break
            chk.traces_validated += 1
    chk.count("wrapper-model-lines", len(runner.wlines))
    if runner.wlines:
        outs = chk.run_driver("C12", runner.wlines)
        if outs is not None:
            bad_h = set()
            for j, (o, e) in enumerate(zip(outs, runner.wexpect)):
                hid = runner.wowner[j]
                if e is None or hid in bad_h:
                    continue
                if o != e:
                    bad_h.add(hid)
                    spec, hist, _ = hists[hid]
                    chk.corr_break(f"C12/correspondence-wrapper/{spec.cls}", f"line `{runner.wlines[j]}`: model `{o[:300]}` impl `{e[:300]}`",
                                   {"class": spec.cls, "history": hist_json(hist), "line": j})
                    break
                chk.traces_validated += 1
                chk.count("wrapper-model-steps-agree")
                chk.count("wrapper-model-steps-agree:" + hists[hid][0].cls)


def replay(chk, payload):
    p = payload.get("payload") or {}
    if "history" not in p:
        print("replay names broken obligations only:", json.dumps(p)[:2000])
        return run(chk)
    import random
    rng = random.Random(f"C12:{p.get('seed', 0)}")
    specs = catalogue(rng, p.get("tier", "quick"))
    spec = next(s for s in specs if s.cls == p["class"])
    runner = Runner(chk, Env())
    fails = runner.run_history(spec, hist_unjson(p["history"]), 0, record=False, ns=p.get("ns", ""))
    chk.case(json.dumps(p["history"]))
    for cell, what in fails:
        chk.violation(cell, what, p)
