"""C19 extension cells (session 5): `cat_rows`, `add_low_rank` on every catalogue class, compared with the dense block / sum
formula (verdict, shape and values) and with the Lean models `catRows` / `addLowRank` (LinOp/C19/ExtModel.lean).
The per-class `add_diagonal` models, `rmatmul`, the Cat constructor and 0-d tensor indices are wired into the main catalogue
sweep of c19.py (model_line / index_cases); this module only adds the operations that had no cells at all."""
import random

import torch

F64 = torch.float64


def shp(t):
    return ",".join(str(int(x)) for x in t) if len(t) else "-"


def cat_rows_kinds(shape):
    *B, m, n = shape
    B = tuple(B)
    res = [("ok", B + (2, n), B + (2, 2)),
           ("ok-one-row", B + (1, n), B + (1, 1)),
           ("cross-cols-plus", B + (2, n + 1), B + (2, 2)),
           ("cross-cols-one", B + (2, 1), B + (2, 2)) if n != 1 else None,
           ("new-size-plus", B + (2, n), B + (3, 3)),
           ("new-rect", B + (2, n), B + (2, 3)),
           ("new-one", B + (2, n), B + (1, 1)),
           ("extra-batch-ok", (2,) + B + (2, n), (2,) + B + (2, 2)),
           ("extra-batch-new-missing", (2,) + B + (2, n), B + (2, 2)),
           ("cross-1d", (n,), (1, 1)),
           ("new-1d", B + (2, n), (2,))]
    if m != n and m + 2 - n >= 1:
        # rectangular operator, new_mat sized so that both row-concatenations have the same height: [A; B] is (m+2) x n,
        # [B^T; D] is (n + (m+2-n)) x 2 -- the block matrix [[A, B^T], [B, D]] does not exist
        res.append(("rect-compensating", B + (2, n), B + (m + 2 - n, 2)))
    if B:
        res += [("batchX-mismatch", (B[0] + 1,) + B[1:] + (2, n), (B[0] + 1,) + B[1:] + (2, 2)),
                ("batch-missing", (2, n), (2, 2)),
                ("batch-one", (1,) + B[1:] + (2, n), (1,) + B[1:] + (2, 2))]
    return [r for r in res if r is not None]


def low_rank_kinds(shape):
    *B, m, n = shape
    B = tuple(B)
    res = [("ok-1", B + (m, 1)), ("ok-2", B + (m, 2)), ("ok-nobatch", (m, 1)), ("rows-plus", B + (m + 1, 1)), ("rows-minus", B + (m - 1, 2)) if m > 2 else None,
           ("batch-extra", (2,) + B + (m, 1)), ("vec", (m,)), ("scalar0d", ()), ("rows-double", B + (2 * m, 1))]
    if B:
        res += [("batchX-mismatch", (B[0] + 1,) + B[1:] + (m, 1))]
    return [r for r in res if r is not None]


def iql_cg_kinds(shape):
    """right-hand sides for inv_quad_logdet on the CG path (settings.max_cholesky_size(0))"""
    *B, m, n = shape
    B = tuple(B)
    res = [("ok-mat", B + (n, 2)), ("ok-vec", (n,)) if not B else None, ("innerX-plus", B + (n + 1, 2)), ("inner1-mat", B + (1, 2)) if n != 1 else None,
           ("inner1-vec", (1,)) if n != 1 else None, ("rank0", ()), ("ok-batch-extra", (2,) + B + (n, 2)), ("innerX-batch", (2,) + B + (n + 1, 2)),
           ("innerX-double", B + (2 * n, 2))]
    if B:
        res += [("batchX-mismatch", (B[0] + 1,) + B[1:] + (n, 2)), ("ok-nobatch", (n, 2)), ("inner1-batchX", (B[0] + 1,) + B[1:] + (1, 2))]
    return [r for r in res if r is not None]


def _verdict(f, dense_of=None):
    try:
        r = f()
        s = tuple(r.shape)
        d = r if torch.is_tensor(r) else r.to_dense()
        if tuple(d.shape) != s:
            return ("ok", ("inconsistent", s, tuple(d.shape))), None
        return ("ok", s), d
    except Exception as e:  # noqa
        return ("raise", type(e).__name__), None


def run_ext_case(op, D, opname, kind, shapes, debug):
    """-> impl verdict, torch verdict, values-equal (None if not both accepted with the same shape)"""
    from linear_operator import settings
    if opname == "ext-cat_rows":
        cs, ns = shapes
        C = torch.ones(tuple(cs), dtype=F64) * 0.5
        N = (torch.eye(ns[-1], dtype=F64).expand(tuple(ns)) * 4.0 if len(ns) >= 2 and ns[-1] == ns[-2] else torch.ones(tuple(ns), dtype=F64)).contiguous()

        def f():
            return op.cat_rows(C, N, generate_roots=False, generate_inv_roots=False)

        def g():
            if C.dim() < 2 or N.dim() < 2:
                raise RuntimeError("cat_rows needs matrices")
            A = D
            if D.dim() < C.dim():
                A = D.expand(torch.broadcast_shapes(D.shape[:-2], C.shape[:-2]) + D.shape[-2:])
            return torch.cat([torch.cat([A, C.mT], -1), torch.cat([C, N], -1)], -2)
    elif opname == "ext-add_low_rank":
        (ts,) = shapes
        T = torch.ones(tuple(ts), dtype=F64) * 0.5

        def f():
            return op.add_low_rank(T, generate_roots=False)

        def g():
            return D + T @ T.mT
    elif opname == "ext-iql-cg":
        (ts,) = shapes
        T = torch.ones(tuple(ts), dtype=F64)

        def f():
            # CG / Lanczos path with tiny iteration counts: only the guard and the result shape matter here
            with settings.max_cholesky_size(0), settings.num_trace_samples(2), settings.max_preconditioner_size(0), \
                    settings.max_cg_iterations(4), settings.max_lanczos_quadrature_iterations(3), settings.cg_tolerance(1.0):
                return op.inv_quad_logdet(T, logdet=True)[0]

        def g():
            if D.shape[-1] != D.shape[-2]:
                raise RuntimeError("non-square")
            R = D @ T
            return (T * R).sum(-2).sum(-1) if T.dim() > 1 else (T * R).sum(-1)
    else:
        raise KeyError(opname)
    with settings.debug(debug):
        iv, dv = _verdict(f)
    tv, sv = _verdict(g)
    valeq = None
    if opname != "ext-iql-cg" and iv[0] == "ok" and tv[0] == "ok" and tuple(iv[1]) == tuple(tv[1]):
        valeq = bool(torch.allclose(dv.to(F64), sv, atol=1e-8, rtol=1e-8))
    return iv, tv, valeq


def gen_ext_cases(chk, tier, todo_spec, instances, mro_def, only=None):
    """todo_spec: list of (batch, n); fresh instances (no cached decompositions) are built here."""
    recs = []
    seed = chk.rng.randrange(2 ** 31)
    for b, n in todo_spec:
        for key, op in instances(random.Random(seed), b, n=n):
            if isinstance(op, Exception):
                continue
            try:
                D = op.to_dense().to(F64)
            except Exception:
                continue
            shape = tuple(op.shape)
            cname = type(op).__name__
            tagb = f"b={shp(b)}" + ("" if n == 3 else f"|n={n}")
            plan = []
            for kind, cs, ns in cat_rows_kinds(shape):
                for dbg in (True, False):
                    plan.append(("ext-cat_rows", kind, (cs, ns), dbg))
            for kind, ts in low_rank_kinds(shape):
                plan.append(("ext-add_low_rank", kind, (ts,), True))
            # Diag / ConstantDiag / KroneckerProductDiag / Identity have a closed-form inv_quad_logdet (no CG path; swept by the `iql` cells)
            if shape[-1] == shape[-2] and n == 3 and mro_def(cname, "inv_quad_logdet") not in ("DiagLinearOperator", "IdentityLinearOperator"):
                for kind, ts in iql_cg_kinds(shape):
                    plan.append(("ext-iql-cg", kind, (ts,), True))
            for opname, kind, shapes, dbg in plan:
                cell = f"C19/{key}/{opname[4:]}/{kind}/{tagb}/debug={'on' if dbg else 'off'}"
                if only is not None and cell != only:
                    continue
                try:
                    iv, tv, valeq = run_ext_case(op, D, opname, kind, shapes, dbg)
                except Exception as e:  # harness error
                    chk.proof_break("harness", f"{cell}: {e!r}")
                    continue
                ml = mode = sl = None
                a = shp(shape)
                if opname == "ext-cat_rows":
                    cs, ns = shapes
                    sl = f"catrowsspec {a} {shp(cs)} {shp(ns)}" if dbg else None
                    if dbg and mro_def(cname, "cat_rows") == "LinearOperator":
                        ml, mode = f"catrows {a} {shp(cs)} {shp(ns)}", "okerr"
                elif opname == "ext-iql-cg":
                    (ts,) = shapes
                    if mro_def(cname, "inv_quad_logdet") == "LinearOperator":
                        ml, mode = f"iql {a} {shp(ts)}", "guard"
                else:
                    (ts,) = shapes
                    if mro_def(cname, "add_low_rank") == "LinearOperator":
                        ml, mode = f"addlowrank {a} {shp(ts)}", "guard"
                recs.append({"cell": cell, "key": key, "cls": cname, "b": list(b), "n": n, "op": opname, "kind": kind, "shape": list(shape),
                             "operand": [list(s) for s in shapes], "idx": None, "others": None, "debug": dbg, "impl": iv, "torch": tv,
                             "model_line": ml, "mode": mode, "spec_line": sl, "valeq": valeq, "pair": True})
    return recs
